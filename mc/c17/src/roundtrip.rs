//! (iii) Index file round trips: `read(write(ix)) == ix`, or — where the format normalises — identical
//! query answers for all regions of the edge alphabet × all references, identical metadata
//! pseudo-bins, unplaced counts and header.

use std::io;

use bstr::BString;
use gidx::{alpha, spec};
use indexmap::IndexMap;
use noodles_bam::bai;
use noodles_core::region::Interval;
use noodles_csi::{
    self as csi, BinningIndex,
    binning_index::{
        Index, Indexer, ReferenceSequence as _,
        index::{
            Header, ReferenceSequence,
            header::{Builder as HeaderBuilder, Format, ReferenceSequenceNames, format::CoordinateSystem},
            reference_sequence::{
                Bin, Index as RsIndex, Metadata,
                bin::Chunk,
                index::{BinnedIndex, LinearIndex},
            },
        },
    },
};
use noodles_tabix as tabix;
use vmc::{Chooser, Outcome, Violation};

use crate::{
    counts::block_on,
    util::{pos, vp},
};

// -------------------------------------------------------------------------------------------------
// writer → reader for the three binning-index formats

pub fn bai_rt(ix: &bai::Index) -> io::Result<(Vec<u8>, bai::Index)> {
    let mut buf = Vec::new();
    bai::io::Writer::new(&mut buf).write_index(ix)?;
    let back = bai::io::Reader::new(&buf[..]).read_index()?;
    Ok((buf, back))
}

pub fn tabix_rt(ix: &tabix::Index) -> io::Result<(Vec<u8>, tabix::Index)> {
    let mut buf = Vec::new();
    {
        let mut w = tabix::io::Writer::new(&mut buf);
        w.write_index(ix)?;
        w.try_finish()?;
    }
    let back = tabix::io::Reader::new(&buf[..]).read_index()?;
    Ok((buf, back))
}

pub fn csi_rt(ix: &csi::Index) -> io::Result<(Vec<u8>, csi::Index)> {
    let mut buf = Vec::new();
    {
        let mut w = csi::io::Writer::new(&mut buf);
        w.write_index(ix)?;
        w.into_inner().finish()?;
    }
    let back = csi::io::Reader::new(&buf[..]).read_index()?;
    Ok((buf, back))
}

// -------------------------------------------------------------------------------------------------
// the "same answers" alternative of the statement

fn norm_header(h: Option<&Header>) -> Option<(Format, usize, usize, usize, u8, u32, Vec<BString>)> {
    h.map(|h| {
        (
            h.format(),
            h.reference_sequence_name_index(),
            h.start_position_index(),
            // an absent end column means "the start column" (tabix: col_end == col_beg)
            h.end_position_index().unwrap_or(h.start_position_index()),
            h.line_comment_prefix(),
            h.line_skip_count(),
            h.reference_sequence_names().iter().cloned().collect(),
        )
    })
}

pub fn regions(ms: u8, d: u8) -> Vec<Interval> {
    let m = spec::n_positions(ms as u32, d as u32) - 1;
    let mut pts = alpha::starts(ms as u32, d as u32, m);
    pts.push(m);
    pts.sort();
    pts.dedup();
    let mut v: Vec<Interval> = vec![(..).into()];
    for (i, &a) in pts.iter().enumerate() {
        v.push((pos(a)..).into());
        v.push((..=pos(a)).into());
        for &b in &pts[i..] {
            v.push((pos(a)..=pos(b)).into());
        }
    }
    v
}

/// `Err((what, expected, observed))` when the two indexes are distinguishable by a query, the metadata,
/// the unplaced count or the header.
pub fn same_answers<I>(a: &Index<I>, b: &Index<I>, regs: &[Interval]) -> Result<u64, (String, String, String)>
where
    I: RsIndex,
{
    if (a.min_shift(), a.depth()) != (b.min_shift(), b.depth()) {
        return Err((
            "geometry-differs".into(),
            format!("{:?}", (a.min_shift(), a.depth())),
            format!("{:?}", (b.min_shift(), b.depth())),
        ));
    }
    if norm_header(a.header()) != norm_header(b.header()) {
        return Err(("header-differs".into(), format!("{:?}", a.header()), format!("{:?}", b.header())));
    }
    if a.unplaced_unmapped_record_count() != b.unplaced_unmapped_record_count() {
        return Err((
            "unplaced-count-differs".into(),
            format!("{:?}", a.unplaced_unmapped_record_count()),
            format!("{:?}", b.unplaced_unmapped_record_count()),
        ));
    }
    let (ra, rb) = (a.reference_sequences(), b.reference_sequences());
    if ra.len() != rb.len() {
        return Err(("reference-count-differs".into(), ra.len().to_string(), rb.len().to_string()));
    }
    for (i, (x, y)) in ra.iter().zip(rb.iter()).enumerate() {
        if x.metadata() != y.metadata() {
            return Err((
                "metadata-pseudo-bin-differs".into(),
                format!("ref {i}: {:?}", x.metadata()),
                format!("ref {i}: {:?}", y.metadata()),
            ));
        }
    }
    let mut n = 0;
    for id in 0..=ra.len() {
        // a reference without bins on both sides answers every query with no chunks: one probe suffices
        let trivial = id < ra.len() && ra[id].bins().is_empty() && rb[id].bins().is_empty();
        for &r in regs.iter().take(if trivial || id == ra.len() { 2 } else { usize::MAX }) {
            let qa = a.query(id, r).map_err(|e| e.kind());
            let qb = b.query(id, r).map_err(|e| e.kind());
            n += 1;
            if qa != qb {
                return Err((
                    "query-answers-differ".into(),
                    format!("query({id}, {r:?}) = {qa:?}"),
                    format!("query({id}, {r:?}) = {qb:?}"),
                ));
            }
        }
    }
    Ok(n)
}

fn judge<I>(
    ch: &Chooser,
    fmt: &str,
    source: &str,
    describe: &dyn Fn() -> String,
    ix: &Index<I>,
    rt: io::Result<(Vec<u8>, Index<I>)>,
    regs: &[Interval],
) -> Outcome
where
    I: RsIndex + PartialEq + std::fmt::Debug,
{
    let (bytes, back) = match rt {
        Ok(x) => x,
        Err(e) => {
            return Err(Violation::new(
                format!("part=roundtrip fmt={fmt} source={source} what=write-or-read-error kind={:?}", e.kind()),
                describe(),
                "Ok",
                format!("{e}"),
            ));
        }
    };
    ch.obs_hash(&bytes);
    if &back == ix {
        ch.tag("equal");
        return Ok(());
    }
    match same_answers(ix, &back, regs) {
        Ok(n) => {
            ch.tag("not-equal-but-same-answers");
            ch.steps(n);
            Ok(())
        }
        Err((what, exp, obs)) => Err(Violation::new(
            format!("part=roundtrip fmt={fmt} source={source} what={what}"),
            describe(),
            format!("before write: {exp}"),
            format!("after read:   {obs}"),
        )),
    }
}

// -------------------------------------------------------------------------------------------------
// indexes produced by the indexers (the C04 indexer inputs, fed synthetically)

#[derive(Clone, Copy, Debug, PartialEq)]
pub enum Fmt {
    Bai,
    Tabix,
    Csi { ms: u8, d: u8, header: bool },
}

impl Fmt {
    pub fn geometry(self) -> (u8, u8) {
        match self {
            Fmt::Bai | Fmt::Tabix => (14, 5),
            Fmt::Csi { ms, d, .. } => (ms, d),
        }
    }
    pub fn label(self) -> &'static str {
        match self {
            Fmt::Bai => "bai",
            Fmt::Tabix => "tabix",
            Fmt::Csi { .. } => "csi",
        }
    }
}

/// (reference id, start, end, mapped); `None` = unplaced unmapped.
pub type Rec = Option<(usize, u64, u64, bool)>;

/// Virtual positions of record boundaries for a block layout: record i occupies [v[i], v[i+1]).
pub fn boundaries(layout: usize, n: usize) -> Vec<u64> {
    let mut v = Vec::with_capacity(n + 1);
    for i in 0..=n as u64 {
        v.push(match layout {
            // every record in a block of its own
            0 => (100 + 60 * i) << 16,
            // all records in one block
            1 => (100 << 16) | (40 * i),
            // first record alone, the others together in the next block
            _ => {
                if i == 0 {
                    100 << 16
                } else {
                    (160 << 16) | (40 * (i - 1))
                }
            }
        });
    }
    v
}

fn vcf_header_with(names: &[BString]) -> Header {
    let names: ReferenceSequenceNames = names.iter().cloned().collect();
    HeaderBuilder::vcf().set_reference_sequence_names(names).build()
}

pub struct Built {
    pub bai: Option<bai::Index>,
    pub tabix: Option<tabix::Index>,
    pub csi: Option<csi::Index>,
}

pub fn build_from_indexer(fmt: Fmt, n_refs: usize, recs: &[Rec], layout: usize) -> io::Result<Built> {
    let v = boundaries(layout, recs.len());
    let chunk = |i: usize| Chunk::new(vp(v[i]), vp(v[i + 1]));
    let mut out = Built { bai: None, tabix: None, csi: None };
    match fmt {
        Fmt::Bai => {
            let mut ix = Indexer::<LinearIndex>::default();
            for (i, r) in recs.iter().enumerate() {
                ix.add_record(r.map(|(id, s, e, m)| (id, pos(s), pos(e), m)), chunk(i))?;
            }
            out.bai = Some(ix.build(n_refs));
        }
        Fmt::Tabix => {
            let mut ix = tabix::index::Indexer::default();
            ix.set_header(HeaderBuilder::vcf().build());
            for (i, r) in recs.iter().enumerate() {
                if let Some((id, s, e, _)) = *r {
                    ix.add_record(&format!("sq{id}"), pos(s), pos(e), chunk(i))?;
                }
            }
            out.tabix = Some(ix.build());
        }
        Fmt::Csi { ms, d, header } => {
            let mut ix = Indexer::<BinnedIndex>::new(ms, d);
            if header {
                let names: Vec<BString> = (0..n_refs).map(|i| BString::from(format!("sq{i}"))).collect();
                ix = ix.set_header(vcf_header_with(&names));
            }
            for (i, r) in recs.iter().enumerate() {
                ix.add_record(r.map(|(id, s, e, m)| (id, pos(s), pos(e), m)), chunk(i))?;
            }
            out.csi = Some(ix.build(n_refs));
        }
    }
    Ok(out)
}

/// Containers: (number of references, focus reference, fillers for the other references).
/// Filler 0 = empty, 1 = one short record at 1, 2 = a long record followed by a short one.
pub const CONTAINERS: [(usize, usize, [usize; 3]); 4] = [
    (1, 0, [0, 0, 0]),
    (2, 0, [0, 2, 0]),
    (3, 1, [1, 0, 0]),
    (3, 2, [0, 2, 0]),
];

fn filler(kind: usize, id: usize, ms: u8, m: u64) -> Vec<Rec> {
    let l = 1u64 << ms;
    match kind {
        0 => vec![],
        1 => vec![Some((id, 1, 1, true))],
        _ => vec![Some((id, 1, (l + 1).min(m), true)), Some((id, (l + 1).min(m), (l + 1).min(m), true))],
    }
}

pub struct IndexerSpace {
    pub fmts: Vec<Fmt>,
    pub max_records: usize,
    /// use the scaled-down start / span alphabets
    pub quick: bool,
    /// (block layout 0..3, container 0..4, unplaced records 0..3)
    pub combos: Vec<(usize, usize, usize)>,
}

/// Four combinations covering every layout, container and unplaced count once.
pub fn combos_covering() -> Vec<(usize, usize, usize)> {
    vec![(0, 0, 0), (1, 1, 2), (2, 2, 1), (1, 3, 0)]
}

/// Every layout x container, the unplaced count cycling.
pub fn combos_pairs() -> Vec<(usize, usize, usize)> {
    let mut v = Vec::new();
    for l in 0..3 {
        for c in 0..CONTAINERS.len() {
            v.push((l, c, (l + c) % 3));
        }
    }
    v
}

fn pick_alphabets(ms: u8, d: u8, quick: bool) -> (Vec<u64>, Vec<u64>) {
    let m = spec::n_positions(ms as u32, d as u32) - 1;
    let mut starts = alpha::starts(ms as u32, d as u32, m);
    let mut spans = alpha::spans(ms as u32);
    if quick {
        // scaled down: first leaf edge, first level-1 edge, one deep edge, the end of the range
        let l = 1u64 << ms;
        starts.retain(|&s| [1, l, l + 1, 8 * l + 1, 4096 * l + 1, m - 1].contains(&s));
        spans.retain(|&s| [0, 1, l, l + 1, 8 * l + 1].contains(&s));
    }
    (starts, spans)
}

pub fn body_indexer(ch: &Chooser, sp: &IndexerSpace) -> Outcome {
    let fmt = *ch.pick_free("fmt", &sp.fmts);
    let (ms, d) = fmt.geometry();
    let m = spec::n_positions(ms as u32, d as u32) - 1;
    // (block layout, container, number of unplaced records)
    let (layout, container, unplaced) = *ch.pick_free("combo", &sp.combos);
    let (n_refs, focus, fillers) = CONTAINERS[container];
    let unplaced = if fmt == Fmt::Tabix { 0 } else { unplaced };
    let (starts, spans) = pick_alphabets(ms, d, sp.quick);

    let mut focus_recs: Vec<Rec> = Vec::new();
    let mut lo = 0usize;
    for _ in 0..sp.max_records {
        let c = ch.free("start", starts.len() - lo + 1);
        if c == 0 {
            break;
        }
        let si = lo + c - 1;
        lo = si;
        let s = starts[si];
        // the last alternative is a placed unmapped record (no span); tabix has no such notion
        let extra = if fmt == Fmt::Tabix { 0 } else { 1 };
        let k = ch.free("span", spans.len() + extra);
        let (span, mapped) = if k < spans.len() { (spans[k], true) } else { (0, false) };
        let e = (s + span.max(1) - 1).min(m);
        focus_recs.push(Some((focus, s, e, mapped)));
    }
    let mut recs: Vec<Rec> = Vec::new();
    let mut real_refs = 0;
    for id in 0..n_refs {
        let part = if id == focus { focus_recs.clone() } else { filler(fillers[id], id, ms, m) };
        if fmt == Fmt::Tabix {
            // tabix reference ids are assigned in order of appearance
            if part.is_empty() {
                continue;
            }
            recs.extend(part.into_iter().map(|r| r.map(|(_, s, e, mp)| (real_refs, s, e, mp))));
            real_refs += 1;
        } else {
            recs.extend(part);
        }
    }
    for _ in 0..unplaced {
        recs.push(None);
    }
    let n_refs = if fmt == Fmt::Tabix { real_refs } else { n_refs };
    let describe = || {
        format!(
            "{fmt:?}: Indexer fed with (ref, start, end, mapped) = {recs:?}, chunk boundaries {:x?} (layout {layout}), build({n_refs}); then writer -> reader",
            boundaries(layout, recs.len())
        )
    };
    ch.desc(describe);

    let built = match build_from_indexer(fmt, n_refs, &recs, layout) {
        Ok(b) => b,
        Err(e) => {
            return Err(Violation::new(
                format!("part=roundtrip fmt={} source=indexer what=indexer-error", fmt.label()),
                describe(),
                "Ok",
                e.to_string(),
            ));
        }
    };
    let regs = regions(ms, d);
    if let Some(ix) = &built.bai {
        judge(ch, "bai", "indexer", &describe, ix, bai_rt(ix), &regs)
    } else if let Some(ix) = &built.tabix {
        judge(ch, "tabix", "indexer", &describe, ix, tabix_rt(ix), &regs)
    } else if let Some(ix) = &built.csi {
        judge(ch, "csi", "indexer", &describe, ix, csi_rt(ix), &regs)
    } else {
        unreachable!()
    }
}

// -------------------------------------------------------------------------------------------------
// structurally valid hand-built indexes (deviation-bounded)

fn c(a: u64, b: u64) -> Chunk {
    Chunk::new(vp(a), vp(b))
}

/// Bin-set menu; entry 0 is the default.
fn binsets(d: u8) -> Vec<(&'static str, Vec<(usize, Vec<Chunk>)>)> {
    let du = d as u32;
    let leaf0 = spec::level_offset(du) as usize;
    let leaf1 = leaf0 + 1;
    let last = spec::n_bins(du) as usize - 1;
    let p = spec::parent(leaf0 as u64).unwrap() as usize;
    let mut v = vec![
        ("one-leaf", vec![(leaf0, vec![c(0x1_0000, 0x2_0000)])]),
        ("no-bins", vec![]),
        ("last-leaf", vec![(last, vec![c(5, 6)])]),
        ("empty-bin", vec![(leaf0, vec![])]),
        ("unsorted-chunks", vec![(leaf0, vec![c(0x3_0000, 0x4_0000), c(0x1_0000, 0x2_0000)])]),
        ("overlapping-chunks", vec![(leaf0, vec![c(0x1_0000, 0x3_0000), c(0x2_0000, 0x4_0000)])]),
        ("descending-ids", vec![(leaf1, vec![c(0x2_0000, 0x3_0000)]), (leaf0, vec![c(0x1_0000, 0x2_0000)])]),
        ("extreme-offsets", vec![(leaf0, vec![c(u64::MAX - 1, u64::MAX)])]),
        ("empty-and-nonempty", vec![(leaf1, vec![]), (leaf0, vec![c(0x1_0000, 0x2_0000)])]),
    ];
    // (needs depth >= 2: at depth 1 the parent of a leaf is the root itself)
    if p != leaf0 && p != 0 {
        v.push((
            "chain",
            vec![(0, vec![c(1, 2)]), (leaf0, vec![c(0x1_0000, 0x2_0000)]), (p, vec![c(0x2_0000, 0x3_0000)])],
        ));
        v.push(("leaf-absent-parent-present", vec![(p, vec![c(0x1_0000, 0x5_0000)]), (leaf1, vec![c(0x2_0000, 0x3_0000)])]));
        // non-ascending, non-descending insertion order
        v.push((
            "mixed-order",
            vec![(leaf1, vec![c(0x3_0000, 0x4_0000)]), (0, vec![c(0x1_0000, 0x2_0000)]), (leaf0, vec![c(0x2_0000, 0x3_0000)])],
        ));
    }
    v.push((
        "three-leaves-rotated",
        vec![(leaf1, vec![c(0x2_0000, 0x3_0000)]), (leaf1 + 1, vec![c(0x3_0000, 0x4_0000)]), (leaf0, vec![c(0x1_0000, 0x2_0000)])],
    ));
    v
}

const LINEAR: [(&str, &[u64]); 6] = [
    ("one", &[0x1_0000]),
    ("empty", &[]),
    ("holes", &[0x1_0000, 0, 0x2_0000, 0]),
    ("zeros", &[0, 0, 0]),
    ("ascending-9", &[1, 2, 3, 0x1_0000, 0x1_0001, 0x2_0000, 0x3_0000, 0x4_0000, 0x5_0000]),
    ("max", &[u64::MAX]),
];

const BINNED: [&str; 7] = ["first-chunk-start", "zeros", "constant", "descending", "max", "zero-below-nonzero-ancestors", "last-chunk-end"];

/// How the offset map is laid out relative to the bin map (both are IndexMaps keyed by bin id; equality
/// ignores insertion order, a file has one loffset per bin).
const ORDER: [&str; 5] = ["lockstep", "reversed", "rotated", "top-bins-without-offset", "extra-offset-first"];

fn binned_value(kind: usize, i: usize, id: usize, d: u8, chunks: &[Chunk]) -> u64 {
    match kind {
        6 => chunks.last().map(|c| u64::from(c.end())).unwrap_or(0),
        5 => {
            if id as u64 >= spec::level_offset(d as u32) {
                0
            } else {
                0x3_0000
            }
        }
        0 => chunks.first().map(|c| u64::from(c.start())).unwrap_or(0),
        1 => 0,
        2 => 0x1_0000,
        3 => 0x5_0000 - 0x1_0000 * i as u64,
        _ => u64::MAX,
    }
}

fn metadata_menu() -> Vec<Option<Metadata>> {
    vec![
        None,
        Some(Metadata::new(vp(0x1_0000), vp(0x4_0000), 3, 1)),
        Some(Metadata::new(vp(u64::MAX), vp(0), 0, 0)),
        Some(Metadata::new(vp(0), vp(0), 0, 0)),
        Some(Metadata::new(vp(u64::MAX - 1), vp(u64::MAX), u64::MAX, u64::MAX)),
    ]
}

const UNPLACED: [Option<u64>; 4] = [None, Some(0), Some(7), Some(u64::MAX)];

/// Number of references of the "> 64 KiB names block" scheme.
const MANY: usize = 4000;

fn names(scheme: usize, n: usize) -> Vec<BString> {
    if scheme == 4 {
        // 4000 names of 18 bytes + NUL = 76 000 bytes: more than one BGZF block / 64 KiB buffer
        return (0..MANY).map(|i| BString::from(format!("contig_{i:05}_abcdef"))).collect();
    }
    if scheme == 5 {
        // valid multibyte UTF-8 (2-, 3- and 4-byte characters), next to an empty-ish and a long name
        let base = ["chr\u{3b1}", "\u{67d3}\u{8272}\u{4f53}1", "chr\u{1d7d9}", "\u{3b1}", "long_\u{3b1}\u{67d3}\u{1d7d9}_0123456789012345678901234567890123456789"];
        return (0..n).map(|i| BString::from(if i < base.len() { base[i].to_string() } else { format!("{}{i}", base[i % base.len()]) })).collect();
    }
    (0..n)
        .map(|i| match scheme {
            0 => BString::from(format!("sq{i}")),
            1 => BString::from(vec![0xff, 0xfe, 0x80 + i as u8]),
            2 => BString::from(format!("chr {i}\t|")),
            _ => {
                if i == 0 {
                    BString::from("")
                } else {
                    BString::from(format!("{i}"))
                }
            }
        })
        .collect()
}

fn header_menu(kind: usize, nm: Vec<BString>) -> Header {
    let nm: ReferenceSequenceNames = nm.into_iter().collect();
    let b = match kind {
        0 => HeaderBuilder::vcf(),
        1 => HeaderBuilder::gff(),
        2 => HeaderBuilder::bed(),
        3 => HeaderBuilder::sam(),
        4 => HeaderBuilder::gff()
            .set_format(Format::Generic(CoordinateSystem::Gff))
            .set_reference_sequence_name_index(5)
            .set_start_position_index(7)
            .set_end_position_index(Some(9))
            .set_line_comment_prefix(0)
            .set_line_skip_count(3),
        // end column equal to the start column: the reader reports it as "no end column"
        5 => HeaderBuilder::bed()
            .set_start_position_index(4)
            .set_end_position_index(Some(4))
            .set_line_comment_prefix(255)
            .set_line_skip_count(i32::MAX as u32),
        _ => HeaderBuilder::gff().set_end_position_index(None),
    };
    b.set_reference_sequence_names(nm).build()
}

#[derive(Clone, Copy, Debug, PartialEq)]
pub enum HFmt {
    Bai,
    Tabix,
    Csi(u8, u8),
}

pub fn body_handbuilt(ch: &Chooser, fmts: &[HFmt]) -> Outcome {
    let fmt = *ch.pick_free("fmt", fmts);
    let (ms, d) = match fmt {
        HFmt::Bai | HFmt::Tabix => (14, 5),
        HFmt::Csi(ms, d) => (ms, d),
    };
    let n_refs = *ch.pick("n_refs", &[1usize, 2, 0, 3]);
    let sets = binsets(d);
    let metas = metadata_menu();
    let mut desc_refs = Vec::new();
    let mut lin_refs: Vec<ReferenceSequence<LinearIndex>> = Vec::new();
    let mut bin_refs: Vec<ReferenceSequence<BinnedIndex>> = Vec::new();
    for _ in 0..n_refs {
        let bs = ch.dev("bins", sets.len());
        let mt = ch.dev("metadata", metas.len());
        let bins: IndexMap<usize, Bin> =
            sets[bs].1.iter().map(|(id, chunks)| (*id, Bin::new(chunks.clone()))).collect();
        match fmt {
            HFmt::Bai | HFmt::Tabix => {
                let li = ch.dev("linear", LINEAR.len());
                let lin: LinearIndex = LINEAR[li].1.iter().map(|&x| vp(x)).collect();
                desc_refs.push(format!("bins={} linear={} metadata={:?}", sets[bs].0, LINEAR[li].0, metas[mt]));
                lin_refs.push(ReferenceSequence::new(bins, lin, metas[mt].clone()));
            }
            HFmt::Csi(..) => {
                let bi = ch.dev("loffsets", BINNED.len());
                let od = ch.dev("loffset-order", ORDER.len());
                let mut entries: Vec<(usize, u64)> = sets[bs]
                    .1
                    .iter()
                    .enumerate()
                    .map(|(i, (id, chunks))| (*id, binned_value(bi, i, *id, d, chunks)))
                    .collect();
                let keys: Vec<usize> = entries.iter().map(|e| e.0).collect();
                let has_ancestor_in = |id: usize, among: &[usize]| {
                    among.iter().any(|&a| a != id && spec::is_ancestor_or_self(a as u64, id as u64))
                };
                match od {
                    1 => entries.reverse(),
                    2 => {
                        if !entries.is_empty() {
                            entries.rotate_left(1);
                        }
                    }
                    3 => {
                        // offsets for a strict subset: the bins that have no ancestor among the bins lose
                        // their entry (all of them; if every bin is such a bin, only the first). Such a bin
                        // resolves to offset 0 before (nothing above it) and is written with 0, so the
                        // answers of a correct writer do not change.
                        let tops: Vec<usize> = keys.iter().copied().filter(|&k| !has_ancestor_in(k, &keys)).collect();
                        let drop: Vec<usize> = if tops.len() == keys.len() { tops.into_iter().take(1).collect() } else { tops };
                        entries.retain(|e| !drop.contains(&e.0));
                    }
                    4 => {
                        // an offset for a bin id that has no bin, inserted first. Its value is what the
                        // walk towards the root would find without it, so dropping it (a file cannot
                        // carry it) does not change any answer of a correct writer.
                        let extra = spec::n_bins(d as u32) as usize - 1;
                        if !keys.contains(&extra) {
                            let mut v = 0;
                            let mut cur = spec::parent(extra as u64);
                            while let Some(a) = cur {
                                if let Some(e) = entries.iter().find(|e| e.0 == a as usize) {
                                    v = e.1;
                                    break;
                                }
                                cur = spec::parent(a);
                            }
                            entries.insert(0, (extra, v));
                        }
                    }
                    _ => {}
                }
                let index: BinnedIndex = entries.iter().map(|&(id, v)| (id, vp(v))).collect();
                desc_refs.push(format!(
                    "bins={} {:?} loffsets={} offset-map={} {:x?} metadata={:?}",
                    sets[bs].0, keys, BINNED[bi], ORDER[od], entries, metas[mt]
                ));
                bin_refs.push(ReferenceSequence::new(bins, index, metas[mt].clone()));
            }
        }
    }
    let unplaced = *ch.pick("n_no_coor", &UNPLACED);
    let mut names_scheme = 0;
    let header = match fmt {
        HFmt::Bai => None,
        HFmt::Tabix => {
            let hk = ch.dev("header", 7);
            let ns = ch.dev("names", 6);
            names_scheme = ns;
            if ns == 4 {
                // one (empty) reference sequence per name, as tabix prescribes
                lin_refs.resize_with(MANY, || ReferenceSequence::new(IndexMap::new(), LinearIndex::new(), None));
            }
            Some(header_menu(hk, names(ns, n_refs)))
        }
        HFmt::Csi(..) => {
            // 0 = no aux
            let hk = ch.dev("aux", 8);
            if hk == 0 {
                None
            } else {
                let ns = ch.dev("names", 6);
            names_scheme = ns;
                if ns == 4 {
                    bin_refs.resize_with(MANY, || ReferenceSequence::new(IndexMap::new(), BinnedIndex::new(), None));
                }
                Some(header_menu(hk - 1, names(ns, n_refs)))
            }
        }
    };
    let describe = || {
        format!(
            "{fmt:?} hand-built: references [{}]{}, n_no_coor {unplaced:?}, header {}; Index::builder()…build(); writer -> reader",
            desc_refs.join(" | "),
            if header.as_ref().is_some_and(|h| h.reference_sequence_names().len() == MANY) { format!(" + empty references up to {MANY}") } else { String::new() },
            match &header {
                Some(h) if h.reference_sequence_names().len() == MANY => format!("{MANY} names contig_00000_abcdef.. ({:?}, columns {}/{}/{:?})", h.format(), h.reference_sequence_name_index(), h.start_position_index(), h.end_position_index()),
                other => format!("{other:?}"),
            }
        )
    };
    ch.desc(describe);
    let regs = regions(ms, d);
    match fmt {
        HFmt::Bai => {
            let mut b = bai::Index::builder().set_reference_sequences(lin_refs);
            if let Some(n) = unplaced {
                b = b.set_unplaced_unmapped_record_count(n);
            }
            let ix = b.build();
            judge(ch, "bai", "handbuilt", &describe, &ix, bai_rt(&ix), &regs)?;
            // the async BAI writer has its own encoder (bins, metadata pseudo-bin, linear index): same file
            // contents for every hand-built index, read back by the blocking and the async reader
            cross_async(ch, "bai", &describe, &ix, bai_rt(&ix).map(|x| x.1), bai_async_write(&ix), |b| bai::io::Reader::new(b).read_index(), |b| {
                block_on(async { bai::r#async::io::Reader::new(b).read_index().await })
            })
        }
        HFmt::Tabix => {
            let mut b = tabix::Index::builder().set_reference_sequences(lin_refs).set_header(header.clone().unwrap());
            if let Some(n) = unplaced {
                b = b.set_unplaced_unmapped_record_count(n);
            }
            let ix = b.build();
            judge(ch, "tabix", "handbuilt", &describe, &ix, tabix_rt(&ix), &regs)?;
            if names_scheme != 0 {
                cross_async(ch, "tabix", &describe, &ix, tabix_rt(&ix).map(|x| x.1), tabix_async_write(&ix), |b| tabix::io::Reader::new(b).read_index(), |b| {
                    block_on(async { tabix::r#async::io::Reader::new(b).read_index().await })
                })?;
            }
            Ok(())
        }
        HFmt::Csi(ms, d) => {
            let mut b = csi::Index::builder().set_min_shift(ms).set_depth(d).set_reference_sequences(bin_refs);
            if let Some(h) = header.clone() {
                b = b.set_header(h);
            }
            if let Some(n) = unplaced {
                b = b.set_unplaced_unmapped_record_count(n);
            }
            let ix = b.build();
            judge(ch, "csi", "handbuilt", &describe, &ix, csi_rt(&ix), &regs)?;
            if names_scheme != 0 {
                cross_async(ch, "csi", &describe, &ix, csi_rt(&ix).map(|x| x.1), csi_async_write(&ix), |b| csi::io::Reader::new(b).read_index(), |b| {
                    block_on(async { csi::r#async::io::Reader::new(b).read_index().await })
                })?;
            }
            Ok(())
        }
    }
}

pub fn bai_async_write(ix: &bai::Index) -> io::Result<Vec<u8>> {
    block_on(async {
        let mut w = bai::r#async::io::Writer::new(Vec::new());
        w.write_index(ix).await?;
        w.shutdown().await?;
        Ok(w.into_inner())
    })
}

pub fn tabix_async_write(ix: &tabix::Index) -> io::Result<Vec<u8>> {
    block_on(async {
        let mut w = tabix::r#async::io::Writer::new(Vec::new());
        w.write_index(ix).await?;
        w.shutdown().await?;
        Ok(w.into_inner().into_inner())
    })
}

pub fn csi_async_write(ix: &csi::Index) -> io::Result<Vec<u8>> {
    block_on(async {
        let mut w = csi::r#async::io::Writer::new(Vec::new());
        w.write_index(ix).await?;
        w.shutdown().await?;
        Ok(w.into_inner().into_inner())
    })
}

/// Every other writer -> reader pair must give what blocking writer -> blocking reader gives:
/// async writer -> blocking reader, async writer -> async reader (blocking writer -> async reader is part of
/// `rt_counts_at_caps`/`rt_fs_paths`).
#[allow(clippy::too_many_arguments)]
fn cross_async<I>(
    ch: &Chooser,
    fmt: &str,
    describe: &dyn Fn() -> String,
    _ix: &Index<I>,
    reference: io::Result<Index<I>>,
    async_bytes: io::Result<Vec<u8>>,
    read_blocking: impl Fn(&[u8]) -> io::Result<Index<I>>,
    read_async: impl Fn(&[u8]) -> io::Result<Index<I>>,
) -> Outcome
where
    I: RsIndex + PartialEq + std::fmt::Debug,
{
    let Ok(reference) = reference else { return Ok(()) };
    let bytes = match async_bytes {
        Ok(b) => b,
        Err(e) => {
            return Err(Violation::new(
                format!("part=roundtrip fmt={fmt} source=handbuilt writer=async what=write-error kind={:?}", e.kind()),
                describe(),
                "Ok (the blocking writer accepts this index)",
                e.to_string(),
            ));
        }
    };
    ch.tag("async-writer-crossed");
    for (rname, got) in [("blocking", read_blocking(&bytes)), ("async", read_async(&bytes))] {
        match got {
            Ok(back) if back == reference => {}
            Ok(back) => {
                return Err(Violation::new(
                    format!("part=roundtrip fmt={fmt} source=handbuilt writer=async reader={rname} what=differs-from-blocking-writer-and-reader"),
                    describe(),
                    format!("header {:?}, {} reference sequences", reference.header(), reference.reference_sequences().len()),
                    format!("header {:?}, {} reference sequences", back.header(), back.reference_sequences().len()),
                ));
            }
            Err(e) => {
                return Err(Violation::new(
                    format!("part=roundtrip fmt={fmt} source=handbuilt writer=async reader={rname} what=read-error kind={:?}", e.kind()),
                    describe(),
                    "Ok (blocking writer -> blocking reader succeeds)",
                    e.to_string(),
                ));
            }
        }
    }
    Ok(())
}
