//! (ii) `optimize_chunks` / `merge_chunks`: every list of ≤ 4 chunks with endpoints in 0..=6 and every
//! `min_offset` in 0..=7.
//!
//! Oracle (offsets are the integers 0..=6 mapped monotonically onto virtual positions that exercise
//! the whole 64-bit range): every offset covered by an input chunk whose end is > `min_offset` is covered by
//! the output; the output is sorted by start, pairwise non-overlapping, and covers nothing that no
//! input chunk covers.

use noodles_csi::binning_index::{index::reference_sequence::bin::Chunk, merge_chunks, optimize_chunks};
use vmc::{Ctx, Outcome, Violation};

use crate::util::{Distinct, vp};

/// Monotone map of the abstract offsets 0..=7 to raw virtual positions.
pub const VP: [u64; 8] = [
    0,
    1,
    0xffff,
    0x1_0000,
    0x1_0001,
    0x2345_0000_0007,
    0xffff_ffff_ffff_fffe,
    u64::MAX,
];

fn unmap(v: u64) -> Option<usize> {
    VP.iter().position(|&x| x == v)
}

/// All chunks (s, e) with 0 <= s <= e <= 6 (an empty chunk covers nothing).
fn chunk_alphabet() -> Vec<(usize, usize)> {
    let mut v = Vec::new();
    for s in 0..=6 {
        for e in s..=6 {
            v.push((s, e));
        }
    }
    v
}

pub struct Case {
    pub chunks: Vec<(usize, usize)>,
    pub min_offset: usize,
}

pub fn decode(mut i: u64, k: u64) -> Case {
    let alpha = chunk_alphabet();
    let min_offset = (i % 8) as usize;
    i /= 8;
    // lists of length 0..=4: offsets 1, k, k^2, ...
    let mut len = 0;
    let mut block = 1u64;
    while i >= block {
        i -= block;
        block *= k;
        len += 1;
    }
    let mut chunks = Vec::with_capacity(len);
    for _ in 0..len {
        chunks.push(alpha[(i % k) as usize]);
        i /= k;
    }
    Case { chunks, min_offset }
}

pub fn domain_size(max_len: u32) -> (u64, u64) {
    let k = chunk_alphabet().len() as u64;
    let mut total = 0;
    let mut block = 1;
    for _ in 0..=max_len {
        total += block;
        block *= k;
    }
    (total * 8, k)
}

fn describe(c: &Case) -> String {
    let list: Vec<String> = c
        .chunks
        .iter()
        .map(|&(s, e)| format!("Chunk::new({:#x}.into(), {:#x}.into())", VP[s], VP[e]))
        .collect();
    format!(
        "optimize_chunks(&[{}], VirtualPosition::from({:#x}))   // abstract: chunks {:?} min_offset {}",
        list.join(", "),
        VP[c.min_offset],
        c.chunks,
        c.min_offset
    )
}

fn check(c: &Case, distinct: &Distinct) -> Outcome {
    let input: Vec<Chunk> = c.chunks.iter().map(|&(s, e)| Chunk::new(vp(VP[s]), vp(VP[e]))).collect();
    let out = optimize_chunks(&input, vp(VP[c.min_offset]));
    let fail = |what: &str, exp: String| {
        Err(Violation::new(
            format!("part=optimize_chunks what={what}"),
            describe(c),
            exp,
            format!("{out:?}"),
        ))
    };
    // back to abstract offsets
    let mut o = Vec::with_capacity(out.len());
    for ch in &out {
        match (unmap(u64::from(ch.start())), unmap(u64::from(ch.end()))) {
            (Some(s), Some(e)) => o.push((s, e)),
            _ => return fail("endpoint-not-from-input", "endpoints taken from the input chunks".into()),
        }
    }
    distinct.add(&o);
    let covered = |list: &[(usize, usize)], x: usize| list.iter().any(|&(s, e)| s <= x && x < e);
    for x in 0..7 {
        let need = c.chunks.iter().any(|&(s, e)| s <= x && x < e && e > c.min_offset);
        if need && !covered(&o, x) {
            return fail(
                "retained-range-uncovered",
                format!("offset #{x} ({:#x}) stays covered (an input chunk ending after min_offset covers it)", VP[x]),
            );
        }
        if covered(&o, x) && !covered(&c.chunks, x) {
            return fail(
                "output-covers-more-than-inputs",
                format!("offset #{x} ({:#x}) is covered by no input chunk", VP[x]),
            );
        }
    }
    for w in o.windows(2) {
        if w[0].0 > w[1].0 {
            return fail("output-not-sorted", "sorted by start".into());
        }
        if w[0].1 > w[1].0 {
            return fail("output-overlaps", "pairwise non-overlapping".into());
        }
    }
    for &(s, e) in &o {
        if s > e {
            return fail("output-chunk-inverted", "start <= end".into());
        }
    }
    if c.min_offset == 0 {
        let m = merge_chunks(&input);
        if m != out {
            return Err(Violation::new(
                "part=merge_chunks what=differs-from-optimize-at-zero",
                describe(c),
                format!("{out:?}"),
                format!("{m:?}"),
            ));
        }
    }
    Ok(())
}

pub fn run(ctx: &mut Ctx) {
    let (n, k) = domain_size(4);
    let distinct = Distinct::new();
    ctx.sweep(
        "optimize_chunks_all_lists",
        n,
        |i| describe(&decode(i, k)),
        |i| check(&decode(i, k), &distinct),
    );
    let dn = distinct.count();
    ctx.add_distinct(dn, dn);
}
