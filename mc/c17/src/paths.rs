//! (iii, continued) The path-based `fs` helpers are writers and readers too.
//!
//! For every public `fs::{write, read}` of every index format (BAI, CSI, tabix, fai, gzi, crai) and the async
//! `r#async::fs::{write, read}` twins where they exist (all but crai), operation sequences on ONE path in a
//! per-process temporary directory:
//!   * fresh  — the path does not exist: write A; read → A; the file equals the in-memory writer's output;
//!   * over   — write A, then write B over it, for every ordered pair (A, B) of {empty, one-reference,
//!              long, medium}: read → B exactly and the file equals the in-memory writer's output for B
//!              (longer → shorter, shorter → longer, same size, → empty);
//!   * foreign — a file produced by the in-memory writer is read by `fs::read`.
//! Writer API × reader API are crossed (blocking/async). Also `fasta::fs::index` and `fastq::fs::index` on a
//! data file that replaced another one must equal the in-memory indexer's result.

use std::{
    io,
    num::NonZero,
    path::{Path, PathBuf},
    sync::Arc,
};

use bstr::BString;
use indexmap::IndexMap;
use noodles_bam::bai;
use noodles_bgzf::gzi;
use noodles_core::Position;
use noodles_cram::crai;
use noodles_csi::{
    self as csi,
    binning_index::index::{
        ReferenceSequence,
        header::{Builder as HeaderBuilder, ReferenceSequenceNames},
        reference_sequence::{
            Bin, Metadata,
            bin::Chunk,
            index::{BinnedIndex, LinearIndex},
        },
    },
};
use noodles_fasta::{self as fasta, fai};
use noodles_fastq as fastq;
use noodles_tabix as tabix;
use vmc::{Ctx, Outcome, Violation};

use crate::{
    counts::block_on,
    util::{Distinct, vp},
};

type Writer<T> = Box<dyn Fn(&Path, &T) -> io::Result<()> + Send + Sync>;
type Reader<T> = Box<dyn Fn(&Path) -> io::Result<T> + Send + Sync>;

struct Fmt<T> {
    name: &'static str,
    /// [empty, one, long, medium]
    vals: Vec<T>,
    mem: Box<dyn Fn(&T) -> io::Result<Vec<u8>> + Send + Sync>,
    writers: Vec<(&'static str, Writer<T>)>,
    readers: Vec<(&'static str, Reader<T>)>,
    summary: Box<dyn Fn(&T) -> String + Send + Sync>,
}

const SIZES: [&str; 4] = ["empty", "one", "long", "medium"];
/// scenarios per (writer, reader): 4 fresh + 16 over + 4 foreign
const PER_PAIR: u64 = 24;

impl<T: PartialEq + Send + Sync + 'static> Fmt<T> {
    fn cases(&self) -> u64 {
        (self.writers.len() * self.readers.len()) as u64 * PER_PAIR
    }

    fn describe(&self, i: u64) -> String {
        let (w, r, s) = self.decode(i);
        format!("{} {}-write/{}-read {}", self.name, self.writers[w].0, self.readers[r].0, scenario_text(s))
    }

    fn decode(&self, i: u64) -> (usize, usize, u64) {
        let s = i % PER_PAIR;
        let p = (i / PER_PAIR) as usize;
        (p / self.readers.len(), p % self.readers.len(), s)
    }

    fn run(&self, i: u64, dir: &Path, d: &Distinct) -> Outcome {
        let (wi, ri, s) = self.decode(i);
        let (wname, write) = &self.writers[wi];
        let (rname, read) = &self.readers[ri];
        let path: PathBuf = dir.join(format!("{}-{i}.idx", self.name));
        let _ = std::fs::remove_file(&path);
        let (scenario, first, last) = scenario(s);
        let fp = |what: &str| {
            format!(
                "part=fs-paths fmt={} write={wname} read={rname} scenario={scenario} what={what}{}",
                self.name,
                match first {
                    // relation of the sizes only (class level): ranks empty < one < medium < long
                    Some(a) if scenario == "over" => {
                        let rank = |k: usize| [0, 1, 3, 2][k];
                        format!(
                            " sizes={}",
                            if last == 0 && a != 0 {
                                "empty-over-nonempty"
                            } else if rank(last) < rank(a) {
                                "shorter-over-longer"
                            } else if rank(last) > rank(a) {
                                "longer-over-shorter"
                            } else {
                                "same-over-same"
                            }
                        )
                    }
                    _ => String::new(),
                }
            )
        };
        let decoded = || {
            format!(
                "{}: {}; then {rname} fs::read of the same path (index values: mc/c17/src/paths.rs)",
                self.name,
                match (scenario, first) {
                    ("fresh", _) => format!("{wname} fs::write({}) to a path that does not exist", SIZES[last]),
                    ("over", Some(a)) => format!("{wname} fs::write({}) then {wname} fs::write({}) to the same path", SIZES[a], SIZES[last]),
                    _ => format!("std::fs::write(path, in-memory writer output for {})", SIZES[last]),
                }
            )
        };
        let result = (|| -> Outcome {
            let want = &self.vals[last];
            let mem = (self.mem)(want).map_err(|e| Violation::new(fp("memory-writer-error"), decoded(), "Ok", e.to_string()))?;
            match scenario {
                "foreign" => {
                    if let Err(e) = std::fs::write(&path, &mem) {
                        vmc::machinery(format!("scratch write: {e}"));
                    }
                }
                _ => {
                    if let Some(a) = first {
                        write(&path, &self.vals[a]).map_err(|e| Violation::new(fp("write-error"), decoded(), "Ok", e.to_string()))?;
                        if *wname == "async" {
                            // An async BGZF write may still have its EOF marker in flight when it returns (see
                            // NOTES.md, reported as its own class below); let the first write settle so that the
                            // verdict on the second one does not depend on that race.
                            let len_a = (self.mem)(&self.vals[a]).map(|m| m.len() as u64).unwrap_or(0);
                            for _ in 0..100 {
                                if std::fs::metadata(&path).map(|m| m.len()).unwrap_or(0) >= len_a {
                                    break;
                                }
                                std::thread::sleep(std::time::Duration::from_millis(1));
                            }
                        }
                    }
                    write(&path, want).map_err(|e| Violation::new(fp("write-error"), decoded(), "Ok", e.to_string()))?;
                }
            }
            let bytes = std::fs::read(&path).map_err(|e| Violation::new(fp("file-missing"), decoded(), "a file", e.to_string()))?;
            d.add(&bytes);
            // the 28-byte BGZF end-of-file marker
            const BGZF_EOF: [u8; 28] = [
                0x1f, 0x8b, 0x08, 0x04, 0, 0, 0, 0, 0, 0xff, 0x06, 0, 0x42, 0x43, 0x02, 0, 0x1b, 0, 0x03, 0, 0, 0, 0, 0, 0, 0, 0, 0,
            ];
            if bytes.len() + 28 == mem.len() && mem.ends_with(&BGZF_EOF) && mem.starts_with(&bytes) {
                return Err(Violation::new(
                    format!("part=fs-paths fmt={} write={wname} what=file-lacks-bgzf-eof-marker-when-write-returns", self.name),
                    decoded(),
                    format!("{} bytes ending with the BGZF EOF marker, as the in-memory writer produces", mem.len()),
                    format!("{} bytes: everything but the EOF marker (std::fs::read immediately after fs::write returned)", bytes.len()),
                ));
            }
            if bytes != mem {
                return Err(Violation::new(
                    fp("file-differs-from-memory-writer"),
                    decoded(),
                    format!("{} bytes, identical to the in-memory writer's output", mem.len()),
                    format!("{} bytes, {}", bytes.len(), vmc::diff_bytes(&mem, &bytes)),
                ));
            }
            match read(&path) {
                Ok(back) => {
                    if &back != want {
                        return Err(Violation::new(fp("read-differs"), decoded(), (self.summary)(want), (self.summary)(&back)));
                    }
                }
                Err(e) => return Err(Violation::new(fp("read-error"), decoded(), (self.summary)(want), e.to_string())),
            }
            Ok(())
        })();
        let _ = std::fs::remove_file(&path);
        result
    }
}

/// (name, first index written (None = nothing), index that must be read)
fn scenario(s: u64) -> (&'static str, Option<usize>, usize) {
    match s {
        0..=3 => ("fresh", None, s as usize),
        4..=19 => ("over", Some(((s - 4) / 4) as usize), ((s - 4) % 4) as usize),
        _ => ("foreign", None, (s - 20) as usize),
    }
}

fn scenario_text(s: u64) -> String {
    match scenario(s) {
        ("over", Some(a), b) => format!("write {} then {} over it", SIZES[a], SIZES[b]),
        (n, _, b) => format!("{n} {}", SIZES[b]),
    }
}

// ---- index values ------------------------------------------------------------------------------------

fn chunk(i: u64) -> Chunk {
    Chunk::new(vp(0x1_0000 * (i + 1)), vp(0x1_0000 * (i + 1) + 0x40))
}

fn lin_ref(k: u64) -> ReferenceSequence<LinearIndex> {
    let bins: IndexMap<usize, Bin> =
        [(4681 + (k as usize % 7), Bin::new(vec![chunk(k), chunk(k + 2)])), (585, Bin::new(vec![chunk(k + 1)]))].into_iter().collect();
    let lin: LinearIndex = (0..(1 + k % 5)).map(|j| vp(0x1_0000 * (k + j + 1))).collect();
    let md = if k % 2 == 0 { Some(Metadata::new(vp(0x1_0000), vp(0x9_0000), k, 1)) } else { None };
    ReferenceSequence::new(bins, lin, md)
}

fn bin_ref(k: u64) -> ReferenceSequence<BinnedIndex> {
    let bins: IndexMap<usize, Bin> =
        [(4681 + (k as usize % 7), Bin::new(vec![chunk(k), chunk(k + 2)])), (585, Bin::new(vec![chunk(k + 1)]))].into_iter().collect();
    let ix: BinnedIndex = bins.keys().map(|&id| (id, vp(0x1_0000 + id as u64 + k))).collect();
    let md = if k % 2 == 0 { Some(Metadata::new(vp(0x1_0000), vp(0x9_0000), k, 1)) } else { None };
    ReferenceSequence::new(bins, ix, md)
}

const NS: [u64; 4] = [0, 1, 300, 20];

fn names(n: u64) -> ReferenceSequenceNames {
    // ASCII mixed with valid multibyte UTF-8 (2-, 3- and 4-byte characters)
    (0..n)
        .map(|i| {
            BString::from(match i % 4 {
                0 => format!("contig{i}"),
                1 => format!("chr\u{3b1}{i}"),
                2 => format!("\u{67d3}\u{8272}\u{4f53}{i}"),
                _ => format!("chr\u{1d7d9}{i}"),
            })
        })
        .collect()
}

fn sum_binning<I>(ix: &csi::binning_index::Index<I>) -> String
where
    I: csi::binning_index::index::reference_sequence::Index + std::fmt::Debug,
{
    use csi::BinningIndex;
    let s = format!("{ix:?}");
    format!(
        "{} reference sequences, n_no_coor {:?}, header names {:?}, debug {} bytes",
        ix.reference_sequences().len(),
        ix.unplaced_unmapped_record_count(),
        ix.header().map(|h| h.reference_sequence_names().len()),
        s.len()
    )
}

fn bai_fmt() -> Fmt<bai::Index> {
    let vals = NS
        .iter()
        .map(|&n| {
            let b = bai::Index::builder().set_reference_sequences((0..n).map(lin_ref).collect());
            if n == 0 { b.build() } else { b.set_unplaced_unmapped_record_count(n).build() }
        })
        .collect();
    Fmt {
        name: "bai",
        vals,
        mem: Box::new(|ix| {
            let mut buf = Vec::new();
            bai::io::Writer::new(&mut buf).write_index(ix)?;
            Ok(buf)
        }),
        writers: vec![
            ("blocking", Box::new(|p, ix| bai::fs::write(p, ix))),
            ("async", Box::new(|p, ix| block_on(bai::r#async::fs::write(p, ix)))),
        ],
        readers: vec![
            ("blocking", Box::new(|p| bai::fs::read(p))),
            ("async", Box::new(|p| block_on(bai::r#async::fs::read(p)))),
        ],
        summary: Box::new(sum_binning),
    }
}

fn csi_fmt() -> Fmt<csi::Index> {
    let vals = NS
        .iter()
        .map(|&n| {
            let mut b = csi::Index::builder().set_reference_sequences((0..n).map(bin_ref).collect());
            if n > 0 {
                b = b.set_unplaced_unmapped_record_count(n);
            }
            if n % 2 == 0 && n > 0 {
                b = b.set_header(HeaderBuilder::vcf().set_reference_sequence_names(names(n)).build());
            }
            b.build()
        })
        .collect();
    Fmt {
        name: "csi",
        vals,
        mem: Box::new(|ix| {
            let mut buf = Vec::new();
            let mut w = csi::io::Writer::new(&mut buf);
            w.write_index(ix)?;
            w.into_inner().finish()?;
            Ok(buf)
        }),
        writers: vec![
            ("blocking", Box::new(|p, ix| csi::fs::write(p, ix))),
            ("async", Box::new(|p, ix| block_on(csi::r#async::fs::write(p, ix)))),
        ],
        readers: vec![
            ("blocking", Box::new(|p| csi::fs::read(p))),
            ("async", Box::new(|p| block_on(csi::r#async::fs::read(p)))),
        ],
        summary: Box::new(sum_binning),
    }
}

fn tabix_fmt() -> Fmt<tabix::Index> {
    let vals = NS
        .iter()
        .map(|&n| {
            let mut b = tabix::Index::builder()
                .set_header(HeaderBuilder::vcf().set_reference_sequence_names(names(n)).build())
                .set_reference_sequences((0..n).map(lin_ref).collect());
            if n > 0 {
                b = b.set_unplaced_unmapped_record_count(n);
            }
            b.build()
        })
        .collect();
    Fmt {
        name: "tabix",
        vals,
        mem: Box::new(|ix| {
            let mut buf = Vec::new();
            let mut w = tabix::io::Writer::new(&mut buf);
            w.write_index(ix)?;
            // (try_finish + drop would write the EOF marker twice)
            w.into_inner().finish()?;
            Ok(buf)
        }),
        writers: vec![
            ("blocking", Box::new(|p, ix| tabix::fs::write(p, ix))),
            ("async", Box::new(|p, ix| block_on(tabix::r#async::fs::write(p, ix)))),
        ],
        readers: vec![
            ("blocking", Box::new(|p| tabix::fs::read(p))),
            ("async", Box::new(|p| block_on(tabix::r#async::fs::read(p)))),
        ],
        summary: Box::new(sum_binning),
    }
}

fn fai_fmt() -> Fmt<fai::Index> {
    let vals = [0u64, 1, 200, 15]
        .iter()
        .map(|&n| {
            fai::Index::from(
                (0..n)
                    .map(|i| fai::Record::new(["sq", "chr\u{3b1}", "\u{67d3}\u{8272}\u{4f53}", "chr\u{1d7d9}"][i as usize % 4].to_string() + &i.to_string(), 1000 + i, 7 + 1020 * i, NonZero::new(60).unwrap(), NonZero::new(61).unwrap()))
                    .collect::<Vec<_>>(),
            )
        })
        .collect();
    Fmt {
        name: "fai",
        vals,
        mem: Box::new(|ix| {
            let mut buf = Vec::new();
            fai::io::Writer::new(&mut buf).write_index(ix)?;
            Ok(buf)
        }),
        writers: vec![
            ("blocking", Box::new(|p, ix| fai::fs::write(p, ix))),
            ("async", Box::new(|p, ix| block_on(fai::r#async::fs::write(p, ix)))),
        ],
        readers: vec![
            ("blocking", Box::new(|p| fai::fs::read(p))),
            ("async", Box::new(|p| block_on(fai::r#async::fs::read(p)))),
        ],
        summary: Box::new(|ix| format!("{} records, last {:?}", ix.as_ref().len(), ix.as_ref().last())),
    }
}

fn gzi_fmt() -> Fmt<gzi::Index> {
    let vals = [0u64, 1, 5000, 40]
        .iter()
        .map(|&n| gzi::Index::from((0..n).map(|i| (4000 * (i + 1), 65280 * (i + 1))).collect::<Vec<_>>()))
        .collect();
    Fmt {
        name: "gzi",
        vals,
        mem: Box::new(|ix| {
            let mut buf = Vec::new();
            gzi::io::Writer::new(&mut buf).write_index(ix)?;
            Ok(buf)
        }),
        writers: vec![
            ("blocking", Box::new(|p, ix| gzi::fs::write(p, ix))),
            ("async", Box::new(|p, ix| block_on(gzi::r#async::fs::write(p, ix)))),
        ],
        readers: vec![
            ("blocking", Box::new(|p| gzi::fs::read(p))),
            ("async", Box::new(|p| block_on(gzi::r#async::fs::read(p)))),
        ],
        summary: Box::new(|ix| format!("{} entries, last {:?}", ix.as_ref().len(), ix.as_ref().last())),
    }
}

fn crai_fmt() -> Fmt<crai::Index> {
    let vals = [0usize, 1, 3000, 50]
        .iter()
        .map(|&n| (0..n).map(|i| crai::Record::new(Some(i % 4), Position::new(1 + 100 * i), 151, 5000 + 977 * i as u64, 20 + i as u64 % 9, 900)).collect::<Vec<_>>())
        .collect();
    Fmt {
        name: "crai",
        vals,
        mem: Box::new(|ix| {
            let mut w = crai::io::Writer::new(Vec::new());
            w.write_index(ix)?;
            w.finish()
        }),
        // crai has no async fs helpers
        writers: vec![("blocking", Box::new(|p, ix| crai::fs::write(p, ix)))],
        readers: vec![("blocking", Box::new(|p| crai::fs::read(p)))],
        summary: Box::new(|ix| format!("{} records, last {:?}", ix.len(), ix.last())),
    }
}

// ---- path-based indexers of the fai family -----------------------------------------------------------

fn fasta_text(k: usize) -> Vec<u8> {
    let n = [0usize, 1, 40, 5][k];
    let mut s = Vec::new();
    for i in 0..n {
        s.extend_from_slice(format!(">sq{i} description {i}\n").as_bytes());
        for l in 0..(1 + i % 3) {
            s.extend_from_slice(&b"ACGTACGTAC"[..10 - (l == i % 3) as usize * (i % 4)]);
            s.push(b'\n');
        }
    }
    s
}

fn fastq_text(k: usize) -> Vec<u8> {
    let n = [0usize, 1, 40, 5][k];
    let mut s = Vec::new();
    for i in 0..n {
        let len = 1 + i % 7;
        s.extend_from_slice(format!("@r{i}\n{}\n+\n{}\n", "ACGTACG".get(..len).unwrap(), "IIIIIII".get(..len).unwrap()).as_bytes());
    }
    s
}

fn indexer_case(i: u64, dir: &Path) -> Outcome {
    let fastq_kind = i / 16 == 1;
    let (a, b) = (((i % 16) / 4) as usize, (i % 4) as usize);
    let kind = if fastq_kind { "fastq::fs::index" } else { "fasta::fs::index" };
    let path = dir.join(format!("data-{i}.{}", if fastq_kind { "fq" } else { "fa" }));
    let text = |k| if fastq_kind { fastq_text(k) } else { fasta_text(k) };
    let decoded = || format!("{kind}: data file {} replaced by {} (std::fs::write), then {kind}(path)", SIZES[a], SIZES[b]);
    let fp = |what: &str| format!("part=fs-paths fmt={} scenario=index-after-replace what={what}", if fastq_kind { "fastq-fai" } else { "fasta-fai" });
    let run = || -> Outcome {
        for k in [a, b] {
            if let Err(e) = std::fs::write(&path, text(k)) {
                vmc::machinery(format!("scratch write: {e}"));
            }
        }
        let data = text(b);
        if fastq_kind {
            let mut want = Vec::new();
            let mut ix = fastq::io::Indexer::new(&data[..]);
            while let Some(r) = ix.index_record().map_err(|e| Violation::new(fp("memory-indexer-error"), decoded(), "Ok", e.to_string()))? {
                want.push(r);
            }
            match fastq::fs::index(&path) {
                Ok(got) if got == want => Ok(()),
                Ok(got) => Err(Violation::new(fp("index-differs"), decoded(), format!("{} records", want.len()), format!("{} records", got.len()))),
                Err(e) => Err(Violation::new(fp("index-error"), decoded(), format!("{} records", want.len()), e.to_string())),
            }
        } else {
            let mut want = Vec::new();
            let mut ix = fasta::io::Indexer::new(&data[..]);
            while let Some(r) = ix.index_record().map_err(|e| Violation::new(fp("memory-indexer-error"), decoded(), "Ok", e.to_string()))? {
                want.push(r);
            }
            let want = fai::Index::from(want);
            match fasta::fs::index(&path) {
                Ok(got) if got == want => Ok(()),
                Ok(got) => Err(Violation::new(fp("index-differs"), decoded(), format!("{} records", want.as_ref().len()), format!("{} records", got.as_ref().len()))),
                Err(e) => Err(Violation::new(fp("index-error"), decoded(), format!("{} records", want.as_ref().len()), e.to_string())),
            }
        }
    };
    let r = run();
    let _ = std::fs::remove_file(&path);
    r
}

type Part = (u64, Box<dyn Fn(u64) -> String + Send + Sync>, Box<dyn Fn(u64, &Path, &Distinct) -> Outcome + Send + Sync>);

fn part<T: PartialEq + Send + Sync + 'static>(f: Fmt<T>) -> Part {
    let f = Arc::new(f);
    let (f1, f2) = (f.clone(), f.clone());
    (f.cases(), Box::new(move |i| f1.describe(i)), Box::new(move |i, dir, d| f2.run(i, dir, d)))
}

pub fn run(ctx: &mut Ctx) {
    let dir = std::env::temp_dir().join(format!("verif-c17-{}-paths", std::process::id()));
    if let Err(e) = std::fs::create_dir_all(&dir) {
        vmc::machinery(format!("cannot create {}: {e}", dir.display()));
    }
    let mut parts: Vec<Part> = vec![part(bai_fmt()), part(csi_fmt()), part(tabix_fmt()), part(fai_fmt()), part(gzi_fmt()), part(crai_fmt())];
    parts.push((
        32,
        Box::new(|i| format!("{} data {} then {}", if i / 16 == 1 { "fastq::fs::index" } else { "fasta::fs::index" }, SIZES[((i % 16) / 4) as usize], SIZES[(i % 4) as usize])),
        Box::new(|i, dir, _| indexer_case(i, dir)),
    ));
    let total: u64 = parts.iter().map(|p| p.0).sum();
    let locate = |mut i: u64| {
        for (k, p) in parts.iter().enumerate() {
            if i < p.0 {
                return (k, i);
            }
            i -= p.0;
        }
        unreachable!()
    };
    let d = Distinct::new();
    ctx.sweep(
        "rt_fs_paths",
        total,
        |i| {
            let (k, j) = locate(i);
            (parts[k].1)(j)
        },
        |i| {
            let (k, j) = locate(i);
            (parts[k].2)(j, &dir, &d)
        },
    );
    ctx.add_distinct(d.count(), d.count());
    let _ = std::fs::remove_dir_all(&dir);
}
