//! C17 — the binning scheme is sound and index files round-trip with unchanged query answers.
//!
//! (i)   `binning`: every feature interval × every region interval of the nine geometries
//!       min_shift ∈ {1,2,3} × depth ∈ {1,2,3} (complete, E3-style bespoke sweeps), the literal double
//!       loop for N ≤ 128, the spec's reg2bin/reg2bins as a second opinion, and the edge alphabet ± 2 at
//!       (14,5) and non-default geometries.
//! (ii)  `chunks`: every list of ≤ 4 chunks with endpoints in 0..=6 × every min_offset in 0..=7 (E3).
//! (iii) `roundtrip` / `flat`: indexes from the indexers (E1 complete) and structurally valid hand-built
//!       ones (E1 deviation-bounded) through BAI / CSI / tabix writer → reader; gzi / fai / crai lists (E3).

mod binning;
mod chunks;
mod counts;
mod flat;
mod paths;
mod pruning;
mod roundtrip;
mod util;

use roundtrip::{Fmt, HFmt, IndexerSpace};
use vmc::Config;

fn main() {
    vmc::run("C17", "model_checking", |ctx| {
        ctx.rule(
            "(i) per geometry: every feature interval [a,b] and every region [c,e] with 1<=a<=b<=N-1 (N=2^(min_shift+3*depth)); \
             evaluations = features + regions, transitions = (bin, region) obligations + literal (feature, region) pairs, \
             distinct = distinct region bin sets; (ii) every chunk list x min_offset, distinct = distinct outputs; \
             (iii) every enumerated index value, distinct = distinct serialised files",
        );
        ctx.assume("CSIv1 / SAMv1 §5.3 reg2bin and reg2bins were transcribed correctly into gidx::spec (unit-tested against the bin numbers printed in SAMv1 §5.3)");
        ctx.assume("the per-bin rewriting (for all b, R: R ∩ C_b ≠ ∅ ⇒ b ∈ bins(R), C_b = union of the features mapped to b) is equivalent to the pair statement; cross-checked by the literal double loop for N <= 128");
        ctx.assume("flate2/zlib-rs (crai gzip, BGZF of tabix/CSI index files) are correct");

        // ---- (i) ------------------------------------------------------------------------------------
        for d in 1..=3u8 {
            for ms in 1..=3u8 {
                let n = 1u64 << (ms + 3 * d);
                binning::small(ctx, ms, d, n <= 128);
            }
        }
        binning::large(ctx, 14, 5);
        binning::large(ctx, 12, 5);
        binning::large(ctx, 14, 6);
        if ctx.thorough() {
            binning::large(ctx, 10, 8);
            binning::large(ctx, 3, 2);
            binning::large(ctx, 20, 3);
        }

        pruning::run(ctx);

        // ---- (ii) -----------------------------------------------------------------------------------
        chunks::run(ctx);

        // ---- (iii) ----------------------------------------------------------------------------------
        let quick = ctx.quick();
        // quick: scaled-down alphabets (6 starts x 5 spans), four formats, four covering
        // (layout, container, unplaced) combinations; thorough: full alphabets, seven formats, all
        // layout x container pairs, and <= 3 records on the scaled-down alphabets.
        let fmts = if quick {
            vec![
                Fmt::Bai,
                Fmt::Tabix,
                Fmt::Csi { ms: 14, d: 5, header: false },
                Fmt::Csi { ms: 3, d: 2, header: true },
            ]
        } else {
            vec![
                Fmt::Bai,
                Fmt::Tabix,
                Fmt::Csi { ms: 14, d: 5, header: false },
                Fmt::Csi { ms: 14, d: 5, header: true },
                Fmt::Csi { ms: 3, d: 2, header: false },
                Fmt::Csi { ms: 12, d: 5, header: false },
                Fmt::Csi { ms: 14, d: 6, header: true },
            ]
        };
        let combos = if quick { roundtrip::combos_covering() } else { roundtrip::combos_pairs() };
        let sp = IndexerSpace { fmts: fmts.clone(), max_records: 2, quick, combos };
        ctx.harness(Config::new("rt_indexer_le2", 0), |ch| roundtrip::body_indexer(ch, &sp));
        if !quick {
            // <= 3 records: scaled-down alphabets, the quick tier's four formats
            let fmts = vec![
                Fmt::Bai,
                Fmt::Tabix,
                Fmt::Csi { ms: 14, d: 5, header: false },
                Fmt::Csi { ms: 3, d: 2, header: true },
            ];
            let sp3 = IndexerSpace { fmts, max_records: 3, quick: true, combos: roundtrip::combos_covering() };
            ctx.harness(Config::new("rt_indexer_le3_reduced", 0), |ch| roundtrip::body_indexer(ch, &sp3));
        }
        let hf = [HFmt::Bai, HFmt::Tabix, HFmt::Csi(14, 5), HFmt::Csi(3, 2), HFmt::Csi(1, 1)];
        let bound = ctx.by_tier(3, 4);
        ctx.harness(Config::new("rt_handbuilt", bound), |ch| roundtrip::body_handbuilt(ch, &hf));
        flat::run(ctx);
        counts::run(ctx);
        paths::run(ctx);
    });
}
