//! (i, continued) Soundness of the whole in-memory query — bins AND min-offset pruning — for indexes built by
//! `Indexer::<BinnedIndex>::new(min_shift, depth)` in small geometries with min_shift <, = and > depth.
//!
//! For every geometry of the list, every start-sorted sequence (ties in either order) of one or two feature
//! intervals (three in the thorough tier, on fewer points) with end points on the geometry's bin edges ± 1,
//! laid out as consecutive chunks of a file, and every region over the same points (closed, `a..`, `..=b`, `..`):
//! every feature that intersects the region must have its chunk covered by `Index::query(0, region)`.
//! The same after `csi::io::Writer` → `csi::io::Reader`: the index read back must keep (min_shift, depth) and be
//! equal; if it is not equal it must at least pass the same coverage check.

use gidx::{alpha, spec};
use noodles_core::region::Interval;
use noodles_csi::{
    self as csi, BinningIndex,
    binning_index::{
        Indexer,
        index::reference_sequence::{bin::Chunk, index::BinnedIndex},
    },
};
use vmc::{Ctx, Outcome, Violation};

use crate::{
    roundtrip::csi_rt,
    util::{Distinct, pos, vp},
};

pub const GEOMETRIES_QUICK: [(u8, u8); 7] = [(1, 1), (1, 2), (1, 3), (2, 3), (2, 2), (3, 2), (2, 1)];
pub const GEOMETRIES_THOROUGH: [(u8, u8); 12] =
    [(1, 1), (1, 2), (1, 3), (2, 3), (2, 2), (3, 2), (2, 1), (3, 3), (1, 4), (2, 4), (4, 4), (1, 5)];

struct Geo {
    ms: u8,
    d: u8,
    feats: Vec<(u64, u64)>,
    regions: Vec<(Interval, u64, u64)>,
}

fn geo(ms: u8, d: u8, radius: u64) -> Geo {
    let m = spec::n_positions(ms as u32, d as u32) - 1;
    let mut base = alpha::starts(ms as u32, d as u32, m);
    base.push(m);
    let pts = if m <= 31 { (1..=m).collect() } else { alpha::widen(&base, radius, m) };
    let mut feats = Vec::new();
    let mut regions: Vec<(Interval, u64, u64)> = vec![((..).into(), 1, m)];
    for (i, &a) in pts.iter().enumerate() {
        regions.push(((pos(a)..).into(), a, m));
        regions.push(((..=pos(a)).into(), 1, a));
        for &b in &pts[i..] {
            feats.push((a, b));
            regions.push(((pos(a)..=pos(b)).into(), a, b));
        }
    }
    Geo { ms, d, feats, regions }
}

fn rel(ms: u8, d: u8) -> &'static str {
    match ms.cmp(&d) {
        std::cmp::Ordering::Less => "min_shift<depth",
        std::cmp::Ordering::Equal => "min_shift=depth",
        std::cmp::Ordering::Greater => "min_shift>depth",
    }
}

/// Record i occupies [v(i), v(i+1)): the first two share a block, later ones start new blocks.
fn v(i: usize) -> u64 {
    match i {
        0 => (100 << 16) | 10,
        1 => (100 << 16) | 50,
        k => ((100 + 60 * (k as u64 - 1)) << 16) | 3,
    }
}

fn covered(chunks: &[Chunk], s: u64, e: u64) -> bool {
    chunks.iter().any(|c| u64::from(c.start()) <= s && e <= u64::from(c.end()))
}

fn coverage(g: &Geo, ix: &csi::Index, recs: &[(u64, u64)], stage: &str, decoded: &dyn Fn() -> String) -> Result<u64, Violation> {
    let mut n = 0;
    for (iv, c, e) in &g.regions {
        let chunks = match ix.query(0, *iv) {
            Ok(ch) => ch,
            Err(err) => {
                return Err(Violation::new(
                    format!("part=pruning geom={} stage={stage} what=query-error kind={:?}", rel(g.ms, g.d), err.kind()),
                    format!("{}; query(0, {iv:?})", decoded()),
                    "Ok",
                    err.to_string(),
                ));
            }
        };
        n += 1;
        for (i, &(a, b)) in recs.iter().enumerate() {
            if a <= *e && *c <= b && !covered(&chunks, v(i), v(i + 1)) {
                let bin = spec::bin_of(a, b, g.ms as u32, g.d as u32);
                let leaf = spec::bin_of(*c, *c, g.ms as u32, g.d as u32);
                let where_ = if bin == leaf {
                    "leaf-bin-of-region-start"
                } else if spec::is_ancestor_or_self(bin, leaf) {
                    "ancestor-bin-of-region-start"
                } else {
                    "other-bin"
                };
                return Err(Violation::new(
                    format!("part=pruning geom={} stage={stage} what=chunk-of-intersecting-record-not-returned record-in={where_}", rel(g.ms, g.d)),
                    format!("{}; index.query(0, {iv:?})", decoded()),
                    format!("a chunk covering record #{i} [{a},{b}] = [{:#x},{:#x}) (it intersects the region)", v(i), v(i + 1)),
                    format!("{chunks:?}"),
                ));
            }
        }
    }
    Ok(n)
}

fn check(g: &Geo, recs: &[(u64, u64)], d: &Distinct) -> Outcome {
    let decoded = || {
        format!(
            "Indexer::<BinnedIndex>::new({}, {}) fed in file order with {:?} (chunks [{:#x},{:#x}), [{:#x},{:#x}), …), build(1)",
            g.ms,
            g.d,
            recs,
            v(0),
            v(1),
            v(1),
            v(2)
        )
    };
    let mut ixr = Indexer::<BinnedIndex>::new(g.ms, g.d);
    for (i, &(a, b)) in recs.iter().enumerate() {
        if let Err(e) = ixr.add_record(Some((0, pos(a), pos(b), true)), Chunk::new(vp(v(i)), vp(v(i + 1)))) {
            return Err(Violation::new(format!("part=pruning geom={} what=indexer-error", rel(g.ms, g.d)), decoded(), "Ok", e.to_string()));
        }
    }
    let ix: csi::Index = ixr.build(1);
    coverage(g, &ix, recs, "memory", &decoded)?;
    match csi_rt(&ix) {
        Ok((bytes, back)) => {
            d.add(&bytes);
            if (back.min_shift(), back.depth()) != (g.ms, g.d) {
                return Err(Violation::new(
                    format!("part=pruning geom={} stage=reread what=geometry-not-preserved", rel(g.ms, g.d)),
                    format!("{}; csi::io::Writer -> csi::io::Reader", decoded()),
                    format!("(min_shift, depth) = ({}, {})", g.ms, g.d),
                    format!("({}, {})", back.min_shift(), back.depth()),
                ));
            }
            if back != ix {
                coverage(g, &back, recs, "reread", &decoded)?;
            }
            Ok(())
        }
        Err(e) => Err(Violation::new(
            format!("part=pruning geom={} stage=reread what=write-or-read-error kind={:?}", rel(g.ms, g.d), e.kind()),
            decoded(),
            "Ok",
            e.to_string(),
        )),
    }
}

pub fn run(ctx: &mut Ctx) {
    let quick = ctx.quick();
    let list: Vec<(u8, u8)> = if quick { GEOMETRIES_QUICK.to_vec() } else { GEOMETRIES_THOROUGH.to_vec() };
    let geos: Vec<Geo> = list.iter().map(|&(ms, d)| geo(ms, d, 1)).collect();
    // case = (geometry, first feature, second feature or none); unsorted pairs are skipped
    let sizes: Vec<u64> = geos.iter().map(|g| (g.feats.len() * (g.feats.len() + 1)) as u64).collect();
    let total: u64 = sizes.iter().sum();
    let locate = |mut i: u64| {
        for (k, &s) in sizes.iter().enumerate() {
            if i < s {
                let f = geos[k].feats.len() as u64;
                return (k, (i / (f + 1)) as usize, (i % (f + 1)) as usize);
            }
            i -= s;
        }
        unreachable!()
    };
    let recs_of = |k: usize, a: usize, b: usize| -> Option<Vec<(u64, u64)>> {
        let g = &geos[k];
        if b == g.feats.len() {
            Some(vec![g.feats[a]])
        } else if g.feats[a].0 <= g.feats[b].0 {
            Some(vec![g.feats[a], g.feats[b]])
        } else {
            None
        }
    };
    let d = Distinct::new();
    ctx.sweep(
        "pruning_small_geometries_le2",
        total,
        |i| {
            let (k, a, b) = locate(i);
            format!("geometry ({},{}) records {:?}", geos[k].ms, geos[k].d, recs_of(k, a, b))
        },
        |i| {
            let (k, a, b) = locate(i);
            match recs_of(k, a, b) {
                Some(r) => check(&geos[k], &r, &d),
                None => Ok(()),
            }
        },
    );
    ctx.add_distinct(d.count(), d.count());

    if !quick {
        // three records on the bin edges proper (radius 0)
        let geos3: Vec<Geo> = [(1u8, 2u8), (1, 3), (2, 3), (2, 2), (3, 2)].iter().map(|&(ms, dd)| geo(ms, dd, 0)).collect();
        let sizes: Vec<u64> = geos3.iter().map(|g| (g.feats.len() as u64).pow(3)).collect();
        let total: u64 = sizes.iter().sum();
        let locate = |mut i: u64| {
            for (k, &s) in sizes.iter().enumerate() {
                if i < s {
                    let f = geos3[k].feats.len() as u64;
                    return (k, (i / (f * f)) as usize, ((i / f) % f) as usize, (i % f) as usize);
                }
                i -= s;
            }
            unreachable!()
        };
        let d = Distinct::new();
        ctx.sweep(
            "pruning_small_geometries_3",
            total,
            |i| {
                let (k, a, b, c) = locate(i);
                let g = &geos3[k];
                format!("geometry ({},{}) records {:?}", g.ms, g.d, [g.feats[a], g.feats[b], g.feats[c]])
            },
            |i| {
                let (k, a, b, c) = locate(i);
                let g = &geos3[k];
                let r = [g.feats[a], g.feats[b], g.feats[c]];
                if r[0].0 <= r[1].0 && r[1].0 <= r[2].0 { check(g, &r, &d) } else { Ok(()) }
            },
        );
        ctx.add_distinct(d.count(), d.count());
    }
}
