//! Stand-alone confirmation (public API only) of the two flat-index round-trip failures found by C17.
use std::io::BufReader;
use noodles_core::Position;
use noodles_cram::crai;
use noodles_fasta::{self as fasta, fai};

fn main() -> Result<(), Box<dyn std::error::Error>> {
    // --- crai: any index with two or more records cannot be read back with read_index -------------
    let index: crai::Index = vec![
        crai::Record::new(Some(0), Position::new(1), 10, 100, 20, 300),
        crai::Record::new(Some(0), Position::new(11), 10, 400, 20, 300),
    ];
    let mut w = crai::io::Writer::new(Vec::new());
    w.write_index(&index)?;
    let bytes = w.finish()?;
    println!("crai read_index (2 records): {:?}", crai::io::Reader::new(&bytes[..]).read_index());
    let mut w = crai::io::Writer::new(Vec::new());
    w.write_index(&index[..1])?;
    let one = w.finish()?;
    println!("crai read_index (1 record) : {:?}", crai::io::Reader::new(&one[..]).read_index());
    // record-at-a-time reading works
    let mut r = crai::io::Reader::new(&bytes[..]);
    let mut rec = crai::Record::default();
    let mut n = 0;
    while r.read_record(&mut rec)? != 0 { n += 1; }
    println!("crai read_record loop      : {n} records");
    // through the fs API
    let dir = std::env::temp_dir().join(format!("c17-confirm-{}", std::process::id()));
    std::fs::create_dir_all(&dir)?;
    let p = dir.join("x.crai");
    crai::fs::write(&p, &index)?;
    println!("crai::fs::read             : {:?}", crai::fs::read(&p));
    std::fs::remove_dir_all(&dir)?;

    // --- fai: a FASTA whose name is not UTF-8 indexes and writes fine but the .fai cannot be read ---
    let fa = b">\xff\xfe desc\nACGT\nAC\n";
    let mut ix = fasta::io::Indexer::new(BufReader::new(&fa[..]));
    let mut recs = Vec::new();
    while let Some(r) = ix.index_record()? { recs.push(r); }
    println!("fasta indexer              : {recs:?}");
    let index = fai::Index::from(recs);
    let mut buf = Vec::new();
    fai::io::Writer::new(&mut buf).write_index(&index)?;
    println!("fai bytes                  : {:?}", bstr::BString::from(buf.clone()));
    println!("fai read_index             : {:?}", fai::io::Reader::new(&buf[..]).read_index());
    Ok(())
}
