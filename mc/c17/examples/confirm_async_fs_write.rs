//! Stand-alone confirmation (public API only): `csi::r#async::fs::write` / `tabix::r#async::fs::write`
//! return before the BGZF EOF marker has reached the file (the async BGZF writer's shutdown writes the
//! marker to the inner writer but neither flushes nor shuts it down; a tokio File completes writes in the
//! background).
use noodles_csi as csi;

fn main() -> std::io::Result<()> {
    let dir = std::env::temp_dir().join(format!("verif-c17-{}-confirm", std::process::id()));
    std::fs::create_dir_all(&dir)?;
    let path = dir.join("x.csi");
    let index = csi::Index::default();
    let rt = tokio::runtime::Builder::new_current_thread().build()?;
    let mut short = 0;
    for _ in 0..20 {
        let _ = std::fs::remove_file(&path);
        rt.block_on(csi::r#async::fs::write(&path, &index))?;
        let at_return = std::fs::metadata(&path)?.len();
        std::thread::sleep(std::time::Duration::from_millis(50));
        let later = std::fs::metadata(&path)?.len();
        if at_return != later {
            short += 1;
        }
        println!("length when write() returned: {at_return}; 50 ms later: {later}");
    }
    csi::fs::write(&path, &index)?;
    println!("blocking csi::fs::write: {} bytes", std::fs::metadata(&path)?.len());
    println!("{short}/20 async writes returned before the EOF marker was in the file");
    std::fs::remove_dir_all(&dir)
}
