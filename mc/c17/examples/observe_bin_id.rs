//! Observation only (hostile input, C15): a stored bin id equal to the number of bins panics in query.
use noodles_bgzf as bgzf;
use noodles_core::Position;
use noodles_csi::{self as csi, BinningIndex, binning_index::index::{ReferenceSequence, reference_sequence::{Bin, bin::Chunk}}};

fn main() {
    let c = Chunk::new(bgzf::VirtualPosition::from(1), bgzf::VirtualPosition::from(2));
    for id in [37448usize, 37449] {
        let bins = [(id, Bin::new(vec![c]))].into_iter().collect();
        let index = [(id, bgzf::VirtualPosition::from(1))].into_iter().collect();
        let ix: csi::Index = csi::Index::builder().set_reference_sequences(vec![ReferenceSequence::new(bins, index, None)]).build();
        let r = std::panic::catch_unwind(|| ix.query(0, (Position::MIN..).into()).map(|v| v.len()));
        println!("bin id {id}: {r:?}");
    }
}
