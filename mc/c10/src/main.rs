fn main() {
    println!("MACHINERY-ERROR property=C10 check not built yet");
    std::process::exit(2);
}
