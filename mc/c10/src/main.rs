//! C10 — BCF typed encoding round-trips every value and carries the same content as VCF.
//!
//! E1 (the C09 record grammar widened with width boundaries, reserved NaN payloads, 14/15/16-byte
//! strings, 15/16-element vectors, big allele indices, IDX modes) + E3 (all (min,max) pairs of the
//! integer boundary set in seven vector contexts).
//! Oracles: the generated value; an independent BCF2 parser written from the specification
//! (`gvcf::bcfraw`: framing, dictionaries from the embedded header text, typed values, padding);
//! noodles' eager reader; the lazy `bcf::Record` accessors; VCF text renderings.

mod rewrite;

use std::sync::Mutex;

use gvcf::{
    bcfraw::{self, IntEl, RawVec},
    cmp::{FloatMode, diff_rec},
    gen_::{self, BASE_NAMES, BASE_SAMPLES, Env, FILE_FORMATS, Generated, IdxMode, N_BASES, Purpose},
    io::{self, Fail},
    model::{Expect, Hdr, Rec, Val},
};
use noodles_vcf as vcf;
use vmc::{Chooser, Config, Outcome, Violation};

fn fail_violation(stage: &str, f: &Fail, hint: &str, decoded: String, expected: &str) -> Violation {
    match f {
        Fail::Panic { .. } => Violation::new(format!("stage={stage} {}", f.panic_fp()), decoded, "no panic (Ok or Err)", f.text()),
        Fail::Err(_) => Violation::new(format!("stage={stage} symptom=rejected cause={hint}"), decoded, expected, f.text()),
    }
}

/// Strips what the domain rules call equal in text: trailing `:.` of a sample column.
fn norm_line(line: &[u8]) -> String {
    let s = String::from_utf8_lossy(line);
    let s = s.trim_end_matches('\n');
    let cols: Vec<&str> = s.split('\t').collect();
    let mut out: Vec<String> = Vec::new();
    for (i, c) in cols.iter().enumerate() {
        if i >= 9 {
            // an empty column is C09's D10 (a sample without values); not re-reported here
            let c: &str = if c.is_empty() { "." } else { c };
            let mut parts: Vec<&str> = c.split(':').collect();
            while parts.len() > 1 && parts.last() == Some(&".") {
                parts.pop();
            }
            let joined = parts.join(":");
            out.push(if joined.is_empty() { ".".to_string() } else { joined });
        } else {
            out.push(c.to_string());
        }
    }
    out.join("\t")
}

trait Tagger {
    fn tag(&self, t: &'static str);
}
impl Tagger for Chooser {
    fn tag(&self, t: &'static str) {
        Chooser::tag(self, t)
    }
}

struct QuietTag;
impl Tagger for QuietTag {
    fn tag(&self, _: &'static str) {}
}

/// Shapes that, when present, are the likeliest reason for a failure (priority order).
const SUSPECT: [&str; 24] = [
    "nan-reserved-eov",
    "nan-reserved-other",
    "nan-reserved-missing",
    "comma",
    "lone-dot",
    "percent-sequence",
    "missing-allele-phased",
    "allele-127",
    "allele-126",
    "allele-63",
    "allele-62",
    "end<pos",
    "telomere-0",
    "missing",
    "end-missing",
    "svlen-missing",
    "single-missing",
    "int-reserved",
    "i8-sentinel-value",
    "i16-sentinel-value",
    "i8-eov-value",
    "i16-eov-value",
    "contig-not-in-header",
    "pos-max",
];

/// A class-level description of the input feature most likely responsible, computed from the
/// record itself (genotype ploidies, all-missing integer-vector columns) or from the generator's
/// shape labels. Used where no differing field is known (malformed bytes, rejected reads).
fn cause_hint(g: &Generated, hdr: &Hdr) -> String {
    let r = &g.rec;
    if r.format.first().map(|k| k == "GT").unwrap_or(false) {
        let lens: Vec<Option<usize>> = r
            .samples
            .iter()
            .map(|s| match s.first() {
                Some(Some(Val::Gt(a))) => Some(a.len()),
                _ => None,
            })
            .collect();
        if lens.iter().any(|l| *l == Some(0)) {
            return "gt-ploidy-0".into();
        }
        let present: Vec<usize> = lens.iter().flatten().copied().collect();
        if present.windows(2).any(|w| w[0] != w[1]) {
            return "gt-mixed-ploidy".into();
        }
        let phased_missing = r.samples.iter().any(|s| match s.first() {
            Some(Some(Val::Gt(a))) => a.iter().any(|x| x.0.is_none() && x.1),
            _ => false,
        });
        if phased_missing {
            return "gt-missing-allele-phased".into();
        }
    }
    for (j, k) in r.format.iter().enumerate() {
        if k == "GT" {
            continue;
        }
        if let Some(d) = hdr.format(k) {
            let all_missing = r.samples.iter().all(|s| s.get(j).cloned().flatten().is_none());
            if all_missing && d.ty == gvcf::Ty::Integer && !d.num.is_scalar() && !r.samples.is_empty() {
                return "format-int-vector-column-all-missing".into();
            }
        }
    }
    for s in SUSPECT {
        if g.shapes.iter().any(|x| x.1 == s) {
            return s.to_string();
        }
    }
    "other".into()
}

fn structural(hint: &str) -> bool {
    hint.starts_with("gt-") || hint.starts_with("format-int-vector")
}

/// Fingerprint words for a value difference.
fn diff_fp(stage: &str, d: &gvcf::cmp::Diff, g: &Generated, hint: &str) -> String {
    if structural(hint) || (hint == "gt-missing-allele-phased" && d.kind == "genotype") {
        return format!("stage={stage} symptom=value-differs cause={hint}");
    }
    // among the shapes recorded for the differing key prefer a suspect one (several deviations may
    // touch the same column: a value, a per-sample override, another sample's genotype)
    let of_key: Vec<&'static str> = g.shapes.iter().filter(|x| x.0 == d.key).map(|x| x.1).collect();
    let mut shape: &str = SUSPECT.iter().copied().find(|s| of_key.contains(s)).unwrap_or_else(|| of_key.last().copied().unwrap_or("base"));
    if shape == "base" && d.key.starts_with("sample:") {
        shape = g.shape_of("sample:*");
    }
    let shape = if ["base", "neighbour", "sample-value-missing", "unequal-per-sample"].contains(&shape) && hint != "other" {
        hint.to_string()
    } else {
        shape.to_string()
    };
    format!("stage={stage} {} shape={shape}", d.fp())
}

/// All checks for one generated record under one header.
fn check_bcf(t: &dyn Tagger, env: &Env, g: &Generated, decoded: &dyn Fn() -> String) -> Outcome {
    match check_bcf_inner(t, env, g, decoded) {
        Err(v) if matches!(g.expect, Expect::Unjudged(_)) && !v.fingerprint.contains("outcome=panic") => {
            t.tag("not-a-vcf-value-divergence-not-judged");
            Ok(())
        }
        r => r,
    }
}

fn check_bcf_inner(t: &dyn Tagger, env: &Env, g: &Generated, decoded: &dyn Fn() -> String) -> Outcome {
    let (hdr, header): (&Hdr, &vcf::Header) = (&env.hdr, &env.header);
    let pre = env.bcf.as_ref().unwrap_or_else(|| vmc::machinery("BCF header constants could not be computed"));
    let rb = g.rec.to_record_buf();
    let hint = cause_hint(g, hdr);
    let all_shapes = hint.as_str();
    let has_reserved_nan = {
        let f = |v: &Option<Val>| match v {
            Some(Val::Float(b)) => gvcf::cmp::is_reserved_nan(*b),
            Some(Val::FloatA(a)) => a.iter().flatten().any(|b| gvcf::cmp::is_reserved_nan(*b)),
            _ => false,
        };
        g.rec.info.iter().any(|(_, v)| f(v)) || g.rec.samples.iter().flatten().any(f)
    };

    // (0) write
    let bytes = match io::bcf_write(header, std::slice::from_ref(&rb)) {
        Ok(b) => b,
        Err(f @ Fail::Panic { .. }) => {
            return Err(Violation::new(
                format!("stage=write {}", f.panic_fp()),
                decoded(),
                "Ok or Err (a value BCF cannot represent is an error)",
                f.text(),
            ));
        }
        Err(Fail::Err(_)) => {
            // "any record the writer accepts": a rejection is always within the statement
            t.tag("writer-rejected");
            return Ok(());
        }
    };
    t.tag("writer-accepted");
    let dec = || format!("{} → BCF record bytes {}", decoded(), vmc::hex(&bytes[bytes.len().saturating_sub(96)..]));

    // (1) independent raw parse
    let stream = match bcfraw::parse_stream(&bytes) {
        Ok(s) => s,
        Err(e) => {
            return Err(Violation::new(
                format!("stage=raw symptom=malformed-record cause={all_shapes}"),
                dec(),
                "a well-formed BCF2 record (l_shared/l_indiv consumed exactly by the typed values)",
                e,
            ));
        }
    };
    if stream.records.len() != 1 {
        return Err(Violation::new("stage=raw symptom=record-count", dec(), "1 record", format!("{}", stream.records.len())));
    }
    // the header block is a constant of the environment: verified, then the cached parses are used
    let same_header = bytes.starts_with(&pre.header_bytes) && stream.header_text == pre.header_text;
    if !same_header {
        return Err(Violation::new(
            "stage=raw symptom=header-block-differs-between-writes",
            dec(),
            "the same header bytes for the same header value",
            format!("{:?}", stream.header_text),
        ));
    }
    let skip = pre.header_bytes.len();
    let dict_text = pre.dict_text.clone();
    let dict_model = pre.dict_model.clone();
    let dict = match (&dict_text, &dict_model) {
        (Ok(a), Ok(b)) => {
            if a != b {
                return Err(Violation::new(
                    "stage=raw symptom=dictionary-differs what=embedded-header-text-vs-header-IDX",
                    format!("{} → embedded header text {:?}", decoded(), stream.header_text),
                    format!("dictionary the header value defines (IDX honoured): strings {:?} contigs {:?}", b.strings, b.contigs),
                    format!("dictionary of the embedded text: strings {:?} contigs {:?}", a.strings, a.contigs),
                ));
            }
            a.clone()
        }
        (Err(e), _) | (_, Err(e)) => vmc::machinery(format!("dictionary computation failed: {e}")),
    };
    let raw = &stream.records[0];
    match bcfraw::decode(raw, &dict, hdr) {
        Ok(got) => {
            if let Some(d) = diff_rec(&g.rec, &got, FloatMode::BitsReservedLenient) {
                return Err(Violation::new(
                    diff_fp("raw", &d, g, &hint),
                    dec(),
                    "the bytes decode (by the specification) to the value written",
                    d.detail,
                ));
            }
        }
        Err(e) => {
            return Err(Violation::new(
                format!("stage=raw symptom=malformed-record cause={all_shapes}"),
                dec(),
                "the bytes decode (by the specification) to the value written",
                e,
            ));
        }
    }
    // typed descriptor widths: sufficiency is implied by the decode above (a value in a sentinel slot
    // decodes to something else); minimality is recorded, not judged
    for (_, v) in &raw.info {
        if let Some(els) = v.vec.ints() {
            let need = bcfraw::min_int_width(els.iter().filter_map(|e| if let IntEl::Value(x) = e { Some(*x) } else { None }));
            if v.vec.width() > need {
                t.tag("int-width-not-minimal");
            } else {
                t.tag("int-width-minimal");
            }
        }
        if v.long_len {
            t.tag("descriptor-long-length");
        }
    }
    for c in &raw.fmt {
        if c.long_len {
            t.tag("descriptor-long-length");
        }
        if matches!(c.per_sample.first(), Some(RawVec::I16(_))) {
            t.tag("format-int16");
        }
        if matches!(c.per_sample.first(), Some(RawVec::I32(_))) {
            t.tag("format-int32");
        }
    }

    // (2) noodles' eager reader, with the header the reader returns
    let h_read: &vcf::Header = &pre.read_header;
    let back = match io::bcf_read_records(h_read, &bytes, skip, 1) {
        Ok(mut v) => {
            if v.len() != 1 {
                return Err(Violation::new("stage=read symptom=record-count", dec(), "1 record", format!("{}", v.len())));
            }
            v.remove(0)
        }
        Err(f) => return Err(fail_violation("read", &f, all_shapes, dec(), "the accepted record reads back")),
    };
    let back_model = Rec::from_record_buf(&back);
    if let Some(d) = diff_rec(&g.rec, &back_model, FloatMode::BitsReservedLenient) {
        return Err(Violation::new(
            diff_fp("read", &d, g, &hint),
            dec(),
            "read_record_buf(write(r)) == r",
            d.detail,
        ));
    }

    // (3) lazy record
    let lazy = match io::bcf_read_lazy_records(&bytes, skip, 1) {
        Ok(mut v) if v.len() == 1 => v.remove(0),
        Ok(_) => return Err(Violation::new("stage=lazy symptom=record-count", dec(), "1 record", "≠ 1")),
        Err(f) => return Err(fail_violation("lazy-read", &f, all_shapes, dec(), "Ok")),
    };
    let lazy_notes: Vec<String>;
    match io::guard(|| {
        let mut notes = Vec::new();
        let m = Rec::from_variant_notes(h_read, &lazy, &mut notes)?;
        Ok((m, notes))
    }) {
        Ok((m, notes)) => {
            lazy_notes = notes;
            if let Some(d) = diff_rec(&g.rec, &m, FloatMode::BitsReservedLenient) {
                return Err(Violation::new(
                    diff_fp("lazy", &d, g, &hint),
                    dec(),
                    "lazy bcf::Record accessors == the value written",
                    d.detail,
                ));
            }
        }
        Err(f) => {
            return Err(match &f {
                Fail::Panic { .. } => fail_violation("lazy-accessors", &f, all_shapes, dec(), "Ok"),
                Fail::Err(_) => Violation::new(
                    format!("stage=lazy-accessors symptom=inconsistent what=rejected cause={hint}"),
                    dec(),
                    "lazy accessors agree with each other and with the eager record",
                    f.text(),
                ),
            });
        }
    }
    // inherent accessors of the lazy record
    match io::guard(|| {
        let id = lazy.reference_sequence_id().map_err(|e| e.to_string())?;
        let end = lazy.end().map_err(|e| e.to_string())?;
        Ok((id, end.get()))
    }) {
        Ok((id, end)) => {
            if dict.contigs.get(id).cloned().flatten().as_deref() != Some(g.rec.chrom.as_str()) {
                return Err(Violation::new("stage=lazy symptom=reference-sequence-id-differs", dec(), g.rec.chrom.clone(), format!("{id}")));
            }
            // end() is rlen-based: it must agree with the eager record's variant_end
            use vcf::variant::Record as _;
            if let Ok(e2) = back.variant_end(h_read) {
                if e2.get() != end {
                    return Err(Violation::new(
                        "stage=lazy symptom=end-differs-from-eager-variant-end",
                        dec(),
                        format!("{}", e2.get()),
                        format!("{end}"),
                    ));
                }
            }
        }
        Err(f @ Fail::Panic { .. }) => {
            return Err(Violation::new(
                format!("stage=lazy-end {}", f.panic_fp()),
                dec(),
                "bcf::Record::end() returns Ok or Err",
                f.text(),
            ));
        }
        Err(Fail::Err(_)) => t.tag("lazy-end-err"),
    }

    // (4) VCF text of the BCF-read record == VCF text of the original (modulo trailing missing)
    match io::vcf_write_record(header, &rb) {
        Ok(_) if has_reserved_nan => t.tag("vcf-text-skipped-reserved-nan"),
        // a genotype without alleles has no VCF text (the writer emits an empty field)
        Ok(_) if g.rec.samples.iter().flatten().any(|v| matches!(v, Some(Val::Gt(a)) if a.is_empty())) => {
            t.tag("vcf-text-skipped-empty-genotype")
        }
        Ok(orig) => {
            for (who, out) in [("eager", io::vcf_write_record(h_read, &back)), ("lazy", io::vcf_write_record(h_read, &lazy))] {
                match out {
                    Ok(txt) => {
                        if norm_line(&txt) != norm_line(&orig) {
                            return Err(Violation::new(
                                format!("stage=vcf-text view={who} symptom=text-differs cause={all_shapes}"),
                                dec(),
                                norm_line(&orig),
                                norm_line(&txt),
                            ));
                        }
                    }
                    Err(f) => return Err(fail_violation("vcf-text", &f, all_shapes, dec(), "Ok (the original renders)")),
                }
            }
            t.tag("vcf-text-compared");
        }
        Err(f @ Fail::Panic { .. }) => return Err(fail_violation("vcf-text-original", &f, all_shapes, dec(), "Ok or Err")),
        Err(Fail::Err(_)) => t.tag("bcf-accepts-what-vcf-text-rejects"),
    }

    // (5) the lazy record is itself a variant record: writing it again must give the same value
    let stage5 = || -> Outcome {
        match io::bcf_write_any(h_read, &lazy) {
            Ok(b2) => match if b2.starts_with(&pre.header_bytes) {
                io::bcf_read_records(h_read, &b2, skip, 1)
            } else {
                io::bcf_read(&b2, 1).map(|x| x.1)
            } {
                Ok(v) if v.len() == 1 => {
                    if let Some(d) = diff_rec(&g.rec, &Rec::from_record_buf(&v[0]), FloatMode::BitsReservedLenient) {
                        return Err(Violation::new(
                            diff_fp("reencode-lazy", &d, g, &hint),
                            dec(),
                            "read(write(lazy bcf::Record)) == r",
                            d.detail,
                        ));
                    }
                    t.tag("reencode-lazy-ok");
                }
                Ok(_) => return Err(Violation::new("stage=reencode-lazy symptom=record-count", dec(), "1", "≠ 1")),
                Err(f) => return Err(fail_violation("reencode-lazy-read", &f, all_shapes, dec(), "the accepted record reads back")),
            },
            Err(f @ Fail::Panic { .. }) => return Err(fail_violation("reencode-lazy-write", &f, all_shapes, dec(), "Ok or Err")),
            Err(Fail::Err(_)) => t.tag("reencode-lazy-rejected"),
        }
        Ok(())
    };
    if let Err(v) = stage5() {
        // the BCF writer trusts len(): a len() that counts the padding is what breaks the re-encoding
        if let Some(n) = lazy_notes.first() {
            return Err(Violation::new(
                "stage=lazy-accessors symptom=inconsistent what=len-differs-from-iter",
                dec(),
                "len() == number of items iter() yields (the BCF writer relies on it when the lazy record is written again)",
                format!("{n}; re-encoding the lazy record: {} → {}", v.fingerprint, v.observed),
            ));
        }
        return Err(v);
    }
    // lowest priority: accessor inconsistencies that did not change any compared value
    if let Some(n) = lazy_notes.first() {
        return Err(Violation::new(
            "stage=lazy-accessors symptom=inconsistent what=len-differs-from-iter",
            dec(),
            "len() == number of items iter() yields",
            n.clone(),
        ));
    }
    if g.expect == Expect::Exact {
        t.tag("valid-record-round-tripped");
    }
    Ok(())
}

struct Envs {
    /// [ff][idx mode][n_samples]
    by: Vec<Vec<Vec<Env>>>,
}

const IDX_MODES: [IdxMode; 4] = [IdxMode::Implicit, IdxMode::Natural, IdxMode::Permuted, IdxMode::Sparse];

impl Envs {
    fn new(thorough: bool) -> Self {
        let by = FILE_FORMATS
            .iter()
            .map(|&ff| {
                IDX_MODES.iter().map(|&m| (0..4).map(|n| Env::new(ff, n, m, Purpose::Bcf, thorough)).collect()).collect()
            })
            .collect();
        Self { by }
    }
}

fn generate<'e>(ch: &Chooser, envs: &'e Envs, ffs: &[usize], bases: &[usize], idx_free: bool) -> (usize, usize, &'e Env, Generated) {
    let fi = if ffs.len() == 1 { ffs[0] } else { *ch.pick_free("fileformat", ffs) };
    let b = if bases.len() == 1 { bases[0] } else { *ch.pick_free("base", bases) };
    let mi = if idx_free { ch.free("idx-mode", IDX_MODES.len()) } else { ch.dev("idx-mode", 2) };
    let env = &envs.by[fi][mi][BASE_SAMPLES[b]];
    let g = gen_::gen_record(ch, env, b);
    (b, mi, env, g)
}

fn record_body(ch: &Chooser, envs: &Envs, ffs: &[usize], bases: &[usize], idx_free: bool) -> Outcome {
    let (b, mi, env, g) = generate(ch, envs, ffs, bases, idx_free);
    let describe = |env: &Env, b: usize, mi: usize, g: &Generated| {
        format!(
            "fileformat={}.{} header=gvcf::gen_::rich_header(ff,{} samples,{:?}) base={} {}",
            env.ff.0, env.ff.1, BASE_SAMPLES[b], IDX_MODES[mi], BASE_NAMES[b], g.rec.show()
        )
    };
    let decoded = || describe(env, b, mi, &g);
    ch.desc(|| format!("{} [{}]", decoded(), g.shapes_str()));
    let mut r = check_bcf(ch, env, &g, &decoded);
    ch.obs_hash((&g.rec, r.is_ok()));
    for (_, s) in &g.shapes {
        ch.tag(s);
    }
    ch.steps(7);
    // Attribution: a failing record with several deviations is re-generated with each deviation
    // alone (all other deviation choices zeroed); if one of those already fails, its fingerprint is
    // used, so that a class names the deviation that matters and not an innocent companion.
    if let Err(v) = &mut r {
        let trace = ch.trace();
        let devs: Vec<usize> = trace
            .iter()
            .enumerate()
            .filter(|(_, p)| p.class == vmc::Class::Dev && p.taken != 0)
            .map(|(i, _)| i)
            .collect();
        if devs.len() >= 2 {
            for &keep in &devs {
                let choices: Vec<u32> = trace
                    .iter()
                    .enumerate()
                    .map(|(i, p)| if p.class == vmc::Class::Dev && i != keep { 0 } else { p.taken })
                    .collect();
                let ch2 = Chooser::replaying(&choices);
                let (b2, mi2, env2, g2) = generate(&ch2, envs, ffs, bases, idx_free);
                struct Quiet;
                impl Tagger for Quiet {
                    fn tag(&self, _: &'static str) {}
                }
                let dec2 = || describe(env2, b2, mi2, &g2);
                if let Err(v1) = check_bcf(&Quiet, env2, &g2, &dec2) {
                    v.fingerprint = v1.fingerprint;
                    break;
                }
            }
        }
    }
    r
}

// ------------------------------------------------------------------------------------------------
// E3: integer boundary pairs

const BOUNDARY: [i32; 20] = [
    i32::MIN + 8,
    -32761,
    -32760,
    -121,
    -120,
    -1,
    0,
    127,
    128,
    32767,
    32768,
    i32::MAX,
    // the reserved values themselves
    i32::MIN,
    i32::MIN + 1,
    i32::MIN + 2,
    i32::MIN + 3,
    i32::MIN + 4,
    i32::MIN + 5,
    i32::MIN + 6,
    i32::MIN + 7,
];
const N_CTX: u64 = 9;
const CTX_NAMES: [&str; N_CTX as usize] = [
    "info-scalar",
    "info-array-[a,b]",
    "info-array-[a,.,b]",
    "format-scalar-s0=a,s1=b",
    "format-scalar-s0=a,s1=.,s2=b",
    "format-array-s0=[a,b],s1=[b]",
    "format-array-s0=[a],s1=[.,b,a]",
    "format-array-s0=[a,b],s1=.",
    "info-array-16-elements",
];

fn pair_case(i: u64) -> (usize, i32, i32, Rec) {
    let n = BOUNDARY.len() as u64;
    let ctx = (i / (n * n)) as usize;
    let a = BOUNDARY[((i / n) % n) as usize];
    let b = BOUNDARY[(i % n) as usize];
    let gt = |x: usize| Some(Val::Gt(vec![(Some(0), false), (Some(x), false)]));
    let mut r = Rec { alts: vec!["C".into()], ..Rec::default() };
    let two = |r: &mut Rec, key: &str, v0: Option<Val>, v1: Option<Val>| {
        r.format = vec!["GT".into(), key.into()];
        r.samples = vec![vec![gt(1), v0], vec![gt(0), v1]];
    };
    match ctx {
        0 => r.info = vec![("XI1".into(), Some(Val::Int(a))), ("XIU".into(), Some(Val::IntA(vec![Some(b)])))],
        1 => r.info = vec![("XIU".into(), Some(Val::IntA(vec![Some(a), Some(b)])))],
        2 => r.info = vec![("XIR".into(), Some(Val::IntA(vec![Some(a), None, Some(b)])))],
        3 => two(&mut r, "YI1", Some(Val::Int(a)), Some(Val::Int(b))),
        4 => {
            r.format = vec!["GT".into(), "YI1".into()];
            r.samples = vec![vec![gt(1), Some(Val::Int(a))], vec![gt(0), None], vec![gt(1), Some(Val::Int(b))]];
        }
        5 => two(&mut r, "YIU", Some(Val::IntA(vec![Some(a), Some(b)])), Some(Val::IntA(vec![Some(b)]))),
        6 => two(&mut r, "YIG", Some(Val::IntA(vec![Some(a)])), Some(Val::IntA(vec![None, Some(b), Some(a)]))),
        7 => two(&mut r, "YIA", Some(Val::IntA(vec![Some(a), Some(b)])), None),
        _ => {
            let mut v: Vec<Option<i32>> = (0..14).map(Some).collect();
            v.insert(3, Some(a));
            v.push(Some(b));
            r.info = vec![("XIU".into(), Some(Val::IntA(v)))];
        }
    }
    (ctx, a, b, r)
}

fn class_of(v: i32) -> &'static str {
    if v <= i32::MIN + 7 {
        "reserved"
    } else if (-120..=127).contains(&v) {
        "i8"
    } else if (-32760..=32767).contains(&v) {
        "i16"
    } else {
        "i32"
    }
}

fn main() {
    vmc::run("C10", "model_checking", |ctx| {
        let thorough = ctx.thorough();
        ctx.rule(
            "every record within k field deviations of 4 base records (C09 grammar + BCF boundary values), per \
             fileformat and IDX mode; every (min,max) pair of the 12 integer boundaries and the 8 reserved codes in 9 \
             vector contexts; distinct = distinct (record, outcome) pairs",
        );
        ctx.assume("the harness's BCF2 parser (gvcf::bcfraw, ~400 lines, written from the specification) is correct");
        ctx.assume("per-sample strings equal to '.' denote a missing value in BCF (how VCF text is carried over)");
        let envs = Envs::new(thorough);
        let all_ff: Vec<usize> = (0..FILE_FORMATS.len()).collect();
        let all_b: Vec<usize> = (0..N_BASES).collect();

        // (1) IDX modes: complete over the four modes
        ctx.harness(Config::new("bcf_idx_k1", 1), |ch| record_body(ch, &envs, &all_ff, &all_b, true));

        // (2) the grammar
        if ctx.quick() {
            ctx.harness(Config::new("bcf_rt_k2_snv_v43", 2), |ch| record_body(ch, &envs, &[1], &[1], false));
        } else {
            // fileformat matters to BCF only through the 4.4 leading-phase rule and the SVLEN
            // definition: one format on each side of 4.4 (all four are covered at k=1 above)
            ctx.harness(Config::new("bcf_rt_k2_v43_v45", 2).time_limit(std::time::Duration::from_secs(780)), |ch| {
                record_body(ch, &envs, &[1, 3], &all_b, false)
            });
        }

        // (3) integer boundary pairs
        let n = (BOUNDARY.len() * BOUNDARY.len()) as u64 * N_CTX;
        let env0 = Env::new((4, 3), 0, IdxMode::Implicit, Purpose::Bcf, false);
        let env2 = Env::new((4, 3), 2, IdxMode::Implicit, Purpose::Bcf, false);
        let env3 = Env::new((4, 3), 3, IdxMode::Implicit, Purpose::Bcf, false);
        let stats: Mutex<std::collections::BTreeMap<String, u64>> = Mutex::new(Default::default());
        struct T<'a>(&'a Mutex<std::collections::BTreeMap<String, u64>>, String);
        impl Tagger for T<'_> {
            fn tag(&self, t: &'static str) {
                if t == "writer-accepted" || t == "writer-rejected" || t.starts_with("int-width") {
                    *self.0.lock().unwrap().entry(format!("{} {t}", self.1)).or_insert(0) += 1;
                }
            }
        }
        ctx.sweep(
            "bcf_int_pairs",
            n,
            |i| {
                let (c, a, b, r) = pair_case(i);
                format!("context={} a={a} b={b} {}", CTX_NAMES[c], r.show())
            },
            |i| {
                let (c, a, b, rec) = pair_case(i);
                let env = match rec.samples.len() {
                    0 => &env0,
                    3 => &env3,
                    _ => &env2,
                };
                let mut expect = Expect::Exact;
                if class_of(a) == "reserved" || class_of(b) == "reserved" {
                    expect = Expect::MayReject("reserved integer");
                }
                let key = rec.info.last().map(|x| format!("info:{}", x.0)).unwrap_or_else(|| format!("sample:{}", rec.format[1]));
                let shape: &'static str = match (class_of(a), class_of(b)) {
                    ("reserved", _) | (_, "reserved") => "int-reserved",
                    ("i32", _) | (_, "i32") => "needs-i32",
                    ("i16", _) | (_, "i16") => "needs-i16",
                    _ => "fits-i8",
                };
                let g = Generated { rec, expect, shapes: vec![(key, shape)] };
                let dec = || format!("fileformat=4.3 header=gvcf::gen_::rich_header context={} a={a} b={b} {}", CTX_NAMES[c], g.rec.show());
                let t = T(&stats, format!("{}({},{})", if c < 3 || c == 8 { "info" } else { "format" }, class_of(a), class_of(b)));
                check_bcf(&t, env, &g, &dec).map_err(|mut v| {
                    v.fingerprint = format!("context={} {}", CTX_NAMES[c].split('-').take(2).collect::<Vec<_>>().join("-"), v.fingerprint);
                    v
                })
            },
        );
        // (4) multi-record files read through every API, in particular the ones that REUSE one
        // RecordBuf / Record (see C09 for the record set)
        ctx.rule(
            "multi-record BCF files: all ordered pairs + triples of gvcf::multi::record_set x fileformat x 5 read APIs \
             (reused RecordBuf loop, record_bufs(), fresh buffer, reused lazy Record, records()); every record is \
             compared with its own expectation",
        );
        let m_hdrs: Vec<vcf::Header> =
            FILE_FORMATS.iter().map(|&ff| gen_::rich_header(ff, 2, IdxMode::Implicit).build().unwrap()).collect();
        let sets: Vec<Vec<(String, Rec)>> = FILE_FORMATS.iter().map(|&ff| gvcf::multi::record_set_for(ff, true)).collect();
        let seqs = gvcf::multi::sequences(sets[0].len());
        let n_seq = seqs.len() as u64;
        let files = Mutex::new(std::collections::HashSet::new());
        let describe = |i: u64| {
            let fi = (i / n_seq) as usize;
            let seq = &seqs[(i % n_seq) as usize];
            let names: Vec<&str> = seq.iter().map(|&k| sets[fi][k].0.as_str()).collect();
            format!(
                "fileformat={}.{} header=gvcf::gen_::rich_header(ff,2 samples) records=gvcf::multi::record_set(ff)[{names:?}] i.e. {}",
                FILE_FORMATS[fi].0,
                FILE_FORMATS[fi].1,
                seq.iter().map(|&k| sets[fi][k].1.show()).collect::<Vec<_>>().join(" ; ")
            )
        };
        ctx.sweep("multi_record_reuse", n_seq * FILE_FORMATS.len() as u64, describe, |i| {
            let fi = (i / n_seq) as usize;
            let seq = &seqs[(i % n_seq) as usize];
            let header = &m_hdrs[fi];
            let exp: Vec<&Rec> = seq.iter().map(|&k| &sets[fi][k].1).collect();
            let rbs: Vec<_> = exp.iter().map(|r| r.to_record_buf()).collect();
            let bytes = match io::bcf_write(header, &rbs) {
                Ok(b) => b,
                Err(f) => return Err(fail_violation("multi-write", &f, "multi-record", String::new(), "Ok (every record of the set is accepted on its own)")),
            };
            {
                use std::hash::{Hash, Hasher};
                let mut h = std::collections::hash_map::DefaultHasher::new();
                bytes.hash(&mut h);
                files.lock().unwrap().insert(h.finish());
            }
            for (api, api_name) in io::READ_APIS.iter().enumerate() {
                let got = match io::bcf_read_file(&bytes, api, exp.len()) {
                    Ok(g) => g,
                    Err(f) => {
                        let mut v = fail_violation("multi-read", &f, "multi-record", String::new(), "every record reads back");
                        v.fingerprint = format!("{} api={api_name}", v.fingerprint);
                        return Err(v);
                    }
                };
                if got.len() != exp.len() {
                    return Err(Violation::new(
                        format!("stage=multi-read api={api_name} symptom=record-count"),
                        String::new(),
                        format!("{} records", exp.len()),
                        format!("{}", got.len()),
                    ));
                }
                for (k, (e, g)) in exp.iter().zip(&got).enumerate() {
                    if let Some(d) = diff_rec(e, g, FloatMode::Bits) {
                        let position = if k == 0 { "first" } else { "after-another-record" };
                        return Err(Violation::new(
                            format!("stage=multi-read api={api_name} position={position} {}", d.fp()),
                            String::new(),
                            format!("record {k} of the file == the record written at position {k}"),
                            d.detail,
                        ));
                    }
                }
            }
            Ok(())
        });
        let d = files.lock().unwrap().len() as u64;
        ctx.add_distinct(d, d);

        // (5) large dictionaries: 127 / 128 / 129 / 140 / 300 string-map or contig entries, natural
        // order and explicit (natural, permuted) IDX; records referencing the entries at indices 1, 126,
        // 127, 128, 129, last as INFO key, FORMAT key, FILTER and multi-FILTER lists in every order
        ctx.rule(
            "large dictionaries: zone {INFO, FILTER, FORMAT, contig} x entries {127,128,129,140,300} x IDX {implicit, \
             natural, permuted} x fileformat {4.3,4.4} x records referencing the entries at indices 1,2,126..129,last-1,last \
             (INFO key, two INFO keys, FORMAT key, single FILTER, FILTER lists ascending/descending/mixed, CHROM); all \
             stages of the per-record check",
        );
        let big = gvcf::bigdict::cases(&[(4, 3), (4, 4)]);
        let big_envs: Vec<Env> = big.iter().map(|c| Env::from_hdr(c.hdr.clone(), Purpose::Bcf)).collect();
        let big_cases: Vec<(usize, usize)> =
            big.iter().enumerate().flat_map(|(e, c)| (0..c.recs.len()).map(move |r| (e, r))).collect();
        ctx.sweep(
            "bcf_large_dictionary",
            big_cases.len() as u64,
            |i| {
                let (e, r) = big_cases[i as usize];
                format!("header=gvcf::bigdict::big_header({}) record {} = {}", big[e].name, big[e].recs[r].0, big[e].recs[r].1.show())
            },
            |i| {
                let (e, r) = big_cases[i as usize];
                let (label, rec) = &big[e].recs[r];
                let g = Generated { rec: rec.clone(), expect: Expect::Exact, shapes: vec![] };
                let dec = || format!("header=gvcf::bigdict::big_header({}) record {label} = {}", big[e].name, rec.show());
                // every record of this family is valid and representable: a rejection is judged too
                if let Err(f) = io::bcf_write(&big_envs[e].header, &[rec.to_record_buf()]) {
                    let what = label.split('[').next().unwrap_or(label).to_string();
                    let mut v = fail_violation("write", &f, "large-dictionary", dec(), "Ok (the record is valid and representable)");
                    v.fingerprint = format!("family=large-dictionary ref={what} {}", v.fingerprint);
                    return Err(v);
                }
                check_bcf(&QuietTag, &big_envs[e], &g, &dec).map_err(|mut v| {
                    let what = label.split('[').next().unwrap_or(label).to_string();
                    v.fingerprint = format!("family=large-dictionary ref={what} {}", v.fingerprint);
                    v
                })
            },
        );
        ctx.add_distinct(big_cases.len() as u64, big_cases.len() as u64);

        // (6) one writer instance: accepted, REJECTED, accepted — the file must hold exactly the accepted
        // records (a rejected record must leave nothing behind, neither bytes nor state)
        ctx.rule(
            "one BCF writer instance: [a, R, b], [R, a], [a, R] for every rejection reason R the model knows x accepted \
             records a, b in {full, empty, no-info, format-gt-only} x fileformat {4.3, 4.5}; the file read back (raw \
             parser, reused and fresh RecordBuf, lazy) holds exactly the accepted records",
        );
        let op_ffs = [1usize, 3];
        let acc_names = ["full", "empty", "no-info", "format-gt-only"];
        let rej: Vec<Vec<(String, Rec)>> = op_ffs.iter().map(|&fi| gvcf::multi::rejects(FILE_FORMATS[fi], true)).collect();
        let acc: Vec<Vec<(String, Rec)>> = op_ffs
            .iter()
            .map(|&fi| sets[fi].iter().filter(|(n, _)| acc_names.contains(&n.as_str())).cloned().collect())
            .collect();
        // (ff slot, reject index, shape): shape 0..16 = [a,R,b], 16..20 = [R,a], 20..24 = [a,R]
        let mut op_cases: Vec<(usize, usize, usize)> = Vec::new();
        for f in 0..op_ffs.len() {
            for r in 0..rej[f].len() {
                for shape in 0..24 {
                    op_cases.push((f, r, shape));
                }
            }
        }
        let not_rejected = Mutex::new(std::collections::BTreeSet::new());
        let seq_of = |f: usize, r: usize, shape: usize| -> Vec<(bool, &(String, Rec))> {
            let rr = &rej[f][r];
            match shape {
                0..=15 => vec![(true, &acc[f][shape / 4]), (false, rr), (true, &acc[f][shape % 4])],
                16..=19 => vec![(false, rr), (true, &acc[f][shape - 16])],
                _ => vec![(true, &acc[f][shape - 20]), (false, rr)],
            }
        };
        ctx.sweep(
            "bcf_writer_reject_sequences",
            op_cases.len() as u64,
            |i| {
                let (f, r, shape) = op_cases[i as usize];
                let seq = seq_of(f, r, shape);
                format!(
                    "fileformat={:?} header=gvcf::gen_::rich_header(ff,2 samples) one bcf::io::Writer: {}",
                    FILE_FORMATS[op_ffs[f]],
                    seq.iter().map(|(a, x)| format!("{}{} {}", if *a { "accept " } else { "REJECT " }, x.0, x.1.show())).collect::<Vec<_>>().join(" ; ")
                )
            },
            |i| {
                let (f, r, shape) = op_cases[i as usize];
                let seq = seq_of(f, r, shape);
                let reason = rej[f][r].0.as_str();
                let header = &m_hdrs[op_ffs[f]];
                let rbs: Vec<_> = seq.iter().map(|(_, x)| x.1.to_record_buf()).collect();
                let (bytes, res) = match io::bcf_write_ops(header, &rbs) {
                    Ok(x) => x,
                    Err(fl) => return Err(fail_violation("ops-write", &fl, reason, String::new(), "Ok or Err per record")),
                };
                let mut exp: Vec<&Rec> = Vec::new();
                for ((is_acc, x), rs) in seq.iter().zip(&res) {
                    match (is_acc, rs) {
                        (true, Ok(())) => exp.push(&x.1),
                        (true, Err(e)) => {
                            return Err(Violation::new(
                                format!("stage=ops-write symptom=valid-record-rejected after=reject:{reason}"),
                                String::new(),
                                "Ok (the same record is accepted by a fresh writer)",
                                e.clone(),
                            ));
                        }
                        (false, Err(_)) => {}
                        (false, Ok(())) => {
                            // not a rejection for this writer: nothing to judge in this case
                            not_rejected.lock().unwrap().insert(reason.to_string());
                            return Ok(());
                        }
                    }
                }
                // independent byte oracle: the stream a fresh writer produces for the accepted records alone
                let fresh: Vec<_> = exp.iter().map(|e| e.to_record_buf()).collect();
                match io::bcf_write(header, &fresh) {
                    Ok(want) if want == bytes => {}
                    Ok(want) => {
                        return Err(Violation::new(
                            format!("stage=ops-write symptom=rejected-record-left-bytes reject={reason}"),
                            String::new(),
                            format!("{} bytes: exactly the accepted records (a write that returns Err leaves nothing behind)", want.len()),
                            vmc::diff_bytes(&want, &bytes),
                        ));
                    }
                    Err(fl) => return Err(fail_violation("ops-write", &fl, reason, String::new(), "Ok")),
                }
                match bcfraw::parse_stream(&bytes) {
                    Ok(st) if st.records.len() == exp.len() => {}
                    Ok(st) => {
                        return Err(Violation::new(
                            format!("stage=ops-raw symptom=record-count reject={reason}"),
                            String::new(),
                            format!("{} records", exp.len()),
                            format!("{}", st.records.len()),
                        ));
                    }
                    Err(e) => {
                        return Err(Violation::new(
                            format!("stage=ops-raw symptom=malformed-stream reject={reason}"),
                            String::new(),
                            "exactly the accepted records, well-formed",
                            e,
                        ));
                    }
                }
                for api in [0usize, 2, 3] {
                    let api_name = io::READ_APIS[api];
                    let got = match io::bcf_read_file(&bytes, api, exp.len()) {
                        Ok(g) => g,
                        Err(fl) => {
                            let mut v = fail_violation("ops-read", &fl, reason, String::new(), "the accepted records read back");
                            v.fingerprint = format!("{} api={api_name}", v.fingerprint);
                            return Err(v);
                        }
                    };
                    if got.len() != exp.len() {
                        return Err(Violation::new(
                            format!("stage=ops-read api={api_name} symptom=record-count reject={reason}"),
                            String::new(),
                            format!("{} records", exp.len()),
                            format!("{}", got.len()),
                        ));
                    }
                    for (k, (e, g)) in exp.iter().zip(&got).enumerate() {
                        if let Some(d) = diff_rec(e, g, FloatMode::Bits) {
                            return Err(Violation::new(
                                format!("stage=ops-read api={api_name} reject={reason} {}", d.fp()),
                                String::new(),
                                format!("accepted record {k} == what was written"),
                                d.detail,
                            ));
                        }
                    }
                }
                Ok(())
            },
        );
        ctx.add_distinct(op_cases.len() as u64, op_cases.len() as u64);
        ctx.extra(
            "writer_reject_sequences_reasons",
            vmc::json!({
                "rejected": rej[0].iter().map(|x| x.0.clone()).filter(|n| !not_rejected.lock().unwrap().contains(n)).collect::<Vec<_>>(),
                "accepted_by_this_writer_not_judged": not_rejected.lock().unwrap().iter().cloned().collect::<Vec<_>>(),
            }),
        );

        // (7) keyed lookups: keys that are substrings / prefixes / suffixes of earlier keys and values
        ctx.rule(
            "keyed lookups: gvcf::keyed documents (every ordered pair and triple of 12 INFO keys and of 9 FORMAT keys whose \
             names are fragments of one another and of earlier values, full sets in every rotation) x fileformat {4.3, 4.5}: \
             lazy get(key) / select(key) / get_index == iter, absent fragments are not found, all stages of the per-record check",
        );
        let key_docs = gvcf::keyed::documents();
        let key_envs: Vec<Env> = [(4u32, 3u32), (4, 5)].iter().map(|&ff| Env::from_hdr(gvcf::keyed::keyed_header(ff), Purpose::Bcf)).collect();
        let n_docs = key_docs.len() as u64;
        ctx.sweep(
            "bcf_keyed_lookup",
            n_docs * key_envs.len() as u64,
            |i| format!("fileformat={:?} header=gvcf::keyed::keyed_header record {} = {}", key_envs[(i / n_docs) as usize].ff, key_docs[(i % n_docs) as usize].0, key_docs[(i % n_docs) as usize].1.show()),
            |i| {
                let env = &key_envs[(i / n_docs) as usize];
                let (label, rec) = &key_docs[(i % n_docs) as usize];
                let g = Generated { rec: rec.clone(), expect: Expect::Exact, shapes: vec![] };
                let dec = || format!("record {label} = {}", rec.show());
                check_bcf(&QuietTag, env, &g, &dec).map_err(|mut v| {
                    v.fingerprint = format!("family=keyed-lookup column={} {}", label.split('[').next().unwrap_or("?").split('-').next().unwrap_or("?"), v.fingerprint);
                    v
                })
            },
        );
        ctx.add_distinct(n_docs * key_envs.len() as u64, n_docs * key_envs.len() as u64);

        // (8) foreign header layouts through a rewrite
        ctx.rule(
            "foreign header layouts through a rewrite: hand-rendered headers (4 line orders: canonical, interleaved kinds, \
             kinds reversed, contig between INFO lines with FORMAT first) x IDX {none, partial, permuted, natural} x explicit \
             PASS line {absent, middle, last} x source {VCF text, BCF whose record bytes carry the dictionary the text implies} \
             x via {eager RecordBuf, lazy record} x header {as read, edited: unused INFO removed + new INFO in front}: read, \
             write BCF with the reader's header object, read back (reused / fresh / lazy) and decode with bcfraw under the \
             header text actually written: names and values are those of the source",
        );
        let rw_sources = rewrite::sources();
        let n_rw = rw_sources.len() as u64 * 8;
        ctx.sweep(
            "foreign_header_rewrite",
            n_rw,
            |i| {
                let s = &rw_sources[(i / 8) as usize];
                let k = i % 8;
                format!(
                    "{} source={} via={} header={} ; header text: {:?} ; records: gvcf::foreign::records()",
                    s.name,
                    rewrite::SRC_KINDS[(k & 1) as usize],
                    rewrite::VIAS[((k >> 1) & 1) as usize],
                    if k >> 2 == 1 { "edited" } else { "as-read" },
                    s.text
                )
            },
            |i| {
                let s = &rw_sources[(i / 8) as usize];
                let k = i % 8;
                rewrite::run(s, (k & 1) as usize, ((k >> 1) & 1) as usize, k >> 2 == 1)
            },
        );
        ctx.add_distinct(n_rw, n_rw);

        let st = stats.lock().unwrap();
        let accepted: u64 = st.iter().filter(|(k, _)| k.ends_with("writer-accepted")).map(|x| *x.1).sum();
        ctx.add_distinct(accepted, accepted);
        ctx.extra(
            "int_pairs_outcomes",
            vmc::json!(st.iter().map(|(k, v)| (k.clone(), *v)).collect::<std::collections::BTreeMap<String, u64>>()),
        );
    });
}
