//! Foreign header layouts through a rewrite: read a hand-rendered VCF / BCF source, write BCF with the
//! header object the reader returned (optionally edited), read back; records must keep their NAMES.

use gvcf::{
    bcfraw,
    cmp::{FloatMode, diff_rec},
    foreign::{self, IdxStyle, Pass},
    io::{self as gio, Fail},
    model::Rec,
};
use noodles_bcf as bcf;
use noodles_vcf::{self as vcf, variant::io::Write as _};
use vmc::{Outcome, Violation};

pub struct Source {
    pub name: String,
    pub text: String,
    pub vcf: Vec<u8>,
    pub bcf: Vec<u8>,
    pub exp: Vec<Rec>,
    /// the VCF text source cannot hold the sites-only record (a file with samples needs FORMAT)
    pub exp_vcf: Vec<Rec>,
}

pub fn sources() -> Vec<Source> {
    let recs = foreign::records();
    let exp: Vec<Rec> = recs.iter().map(|r| r.1.clone()).collect();
    let mut out = Vec::new();
    for (lname, lines) in foreign::layouts() {
        for idx in [IdxStyle::None, IdxStyle::Partial, IdxStyle::Permuted, IdxStyle::Natural] {
            for pass in [Pass::Absent, Pass::Middle, Pass::Last] {
                let text = foreign::render(&lines, idx, pass);
                let dict = foreign::dict_of(&text);
                let enc = foreign::model_with_dict(&dict);
                let enc_header = enc.build().expect("encoding header builds");
                let rbs: Vec<_> = exp.iter().map(|r| r.to_record_buf()).collect();
                let full = gio::bcf_write(&enc_header, &rbs).unwrap_or_else(|e| vmc::machinery(format!("foreign source: {}", e.text())));
                let hlen = gio::bcf_write_header_only(&enc_header).unwrap_or_else(|e| vmc::machinery(e.text())).len();
                let bcf_bytes = foreign::assemble_bcf(&text, &full[hlen..]);
                // the hand-made source must decode, by the specification, to the expectations
                let st = bcfraw::parse_stream(&bcf_bytes).unwrap_or_else(|e| vmc::machinery(format!("foreign source malformed: {e}")));
                for (raw, e) in st.records.iter().zip(&exp) {
                    match bcfraw::decode(raw, &dict, &foreign::model()) {
                        Ok(got) if diff_rec(e, &got, FloatMode::Bits).is_none() => {}
                        other => vmc::machinery(format!("foreign source does not decode to its expectation: {other:?}")),
                    }
                }
                let mut vcf_bytes = text.clone().into_bytes();
                let exp_vcf: Vec<Rec> = exp.iter().filter(|r| !r.format.is_empty()).cloned().collect();
                for rb in exp_vcf.iter().map(|r| r.to_record_buf()) {
                    let rb = &rb;
                    vcf_bytes.extend_from_slice(&gio::vcf_write_record(&enc_header, rb).unwrap_or_else(|e| vmc::machinery(e.text())));
                }
                out.push(Source { name: format!("layout={lname} idx={idx:?} pass-line={pass:?}"), text, vcf: vcf_bytes, bcf: bcf_bytes, exp: exp.clone(), exp_vcf });
            }
        }
    }
    out
}

pub const SRC_KINDS: [&str; 2] = ["vcf", "bcf"];
pub const VIAS: [&str; 2] = ["eager", "lazy"];

fn cmp_all(stage: &str, tagp: &str, exp: &[Rec], got: &[Rec]) -> Outcome {
    if exp.len() != got.len() {
        return Err(Violation::new(format!("{tagp} step={stage} symptom=record-count"), String::new(), format!("{}", exp.len()), format!("{}", got.len())));
    }
    for (k, (e, g)) in exp.iter().zip(got).enumerate() {
        if let Some(d) = diff_rec(e, g, FloatMode::Bits) {
            return Err(Violation::new(
                format!("{tagp} step={stage} {}", d.fp()),
                String::new(),
                format!("record {k} keeps its names and values"),
                d.detail,
            ));
        }
    }
    Ok(())
}

pub fn run(s: &Source, src_kind: usize, via: usize, edit: bool) -> Outcome {
    let idx_class = s.name.split(' ').nth(1).unwrap_or("idx=?").to_string();
    // class level: the IDX style of the source header and whether the header object was edited; the
    // line order, source kind and eager / lazy route are in `decoded`
    let tagp = format!("stage=rewrite {idx_class} header={}", if edit { "edited" } else { "as-read" });
    let exp: &[Rec] = if src_kind == 0 { &s.exp_vcf } else { &s.exp };
    let fail = |step: &str, f: &Fail| match f {
        Fail::Panic { .. } => Violation::new(format!("{tagp} step={step} {}", f.panic_fp()), String::new(), "no panic", f.text()),
        Fail::Err(_) => Violation::new(format!("{tagp} step={step} symptom=rejected"), String::new(), "Ok", f.text()),
    };
    let e = |x: std::io::Error| x.to_string();

    // 1–3: read the source, (edit,) write BCF with the reader's header object
    let written = gio::guard(|| {
        let mut out = bcf::io::Writer::from(Vec::new());
        let mut src_models: Vec<Rec> = Vec::new();
        if src_kind == 0 {
            let mut r = vcf::io::Reader::new(&s.vcf[..]);
            let mut h = r.read_header().map_err(e)?;
            if via == 0 {
                let recs: Vec<_> = r.record_bufs(&h).collect::<Result<_, _>>().map_err(e)?;
                src_models = recs.iter().map(Rec::from_record_buf).collect();
                if edit {
                    foreign::edit_header(&mut h);
                }
                out.write_header(&h).map_err(|x| format!("WRITE_HEADER_REJECTED: {x}"))?;
                for rec in &recs {
                    out.write_variant_record(&h, rec).map_err(|x| format!("write_record: {x}"))?;
                }
            } else {
                let recs: Vec<_> = r.records().collect::<Result<_, _>>().map_err(e)?;
                for rec in &recs {
                    src_models.push(Rec::from_variant(&h, rec)?);
                }
                if edit {
                    foreign::edit_header(&mut h);
                }
                out.write_header(&h).map_err(|x| format!("WRITE_HEADER_REJECTED: {x}"))?;
                for rec in &recs {
                    out.write_variant_record(&h, rec).map_err(|x| format!("write_record: {x}"))?;
                }
            }
        } else {
            let mut r = bcf::io::Reader::from(&s.bcf[..]);
            let mut h = r.read_header().map_err(e)?;
            if via == 0 {
                let recs: Vec<_> = r.record_bufs(&h).collect::<Result<_, _>>().map_err(e)?;
                src_models = recs.iter().map(Rec::from_record_buf).collect();
                if edit {
                    foreign::edit_header(&mut h);
                }
                out.write_header(&h).map_err(|x| format!("WRITE_HEADER_REJECTED: {x}"))?;
                for rec in &recs {
                    out.write_variant_record(&h, rec).map_err(|x| format!("write_record: {x}"))?;
                }
            } else {
                let recs: Vec<_> = r.records().collect::<Result<_, _>>().map_err(e)?;
                for rec in &recs {
                    src_models.push(Rec::from_variant(&h, rec)?);
                }
                if edit {
                    foreign::edit_header(&mut h);
                }
                out.write_header(&h).map_err(|x| format!("WRITE_HEADER_REJECTED: {x}"))?;
                for rec in &recs {
                    out.write_variant_record(&h, rec).map_err(|x| format!("write_record: {x}"))?;
                }
            }
        }
        Ok((out.into_inner(), src_models))
    });
    let (bytes, src_models) = match written {
        Ok(x) => x,
        // the writer refusing a header (e.g. a dictionary it finds inconsistent) is an error, not a
        // silently different file: accepted
        Err(Fail::Err(m)) if m.starts_with("WRITE_HEADER_REJECTED") => return Ok(()),
        Err(f) => return Err(fail("read-source-and-write", &f)),
    };
    cmp_all("source-read", &tagp, exp, &src_models)?;

    // 4: read back what was written
    for api in [0usize, 2, 3] {
        match gio::bcf_read_file(&bytes, api, exp.len()) {
            Ok(got) => cmp_all(&format!("read-back:{}", gio::READ_APIS[api]), &tagp, exp, &got)?,
            Err(f) => return Err(fail(&format!("read-back:{}", gio::READ_APIS[api]), &f)),
        }
    }
    // 5: the specification's reading of the output under the header TEXT actually written
    let st = match bcfraw::parse_stream(&bytes) {
        Ok(st) => st,
        Err(x) => return Err(Violation::new(format!("{tagp} step=raw symptom=malformed-stream"), String::new(), "well-formed BCF", x)),
    };
    let dict = match bcfraw::dict_from_text(&st.header_text) {
        Ok(d) => d,
        Err(x) => return Err(Violation::new(format!("{tagp} step=raw symptom=inconsistent-dictionary-in-written-header"), String::new(), "a consistent dictionary", x)),
    };
    let mut got = Vec::new();
    for raw in &st.records {
        match bcfraw::decode(raw, &dict, &foreign::model()) {
            Ok(r) => got.push(r),
            Err(x) => {
                return Err(Violation::new(
                    format!("{tagp} step=raw symptom=undecodable-under-written-header-text"),
                    String::new(),
                    "every index resolves, under the written header text, to the name the source record had",
                    x,
                ));
            }
        }
    }
    cmp_all("raw", &tagp, exp, &got)
}
