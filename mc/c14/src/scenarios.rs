//! One scenario per writer: the explicit call protocol and the decoder that compares the accepted
//! bytes with the document that was written.

use std::{
    io::{self, Write},
    sync::LazyLock,
};

use gdocs::{aln, misc, var};
use noodles_bam as bam;
use noodles_bcf as bcf;
use noodles_bed as bed;
use noodles_bgzf as bgzf;
use noodles_cram as cram;
use noodles_csi as csi;
use noodles_fasta as fasta;
use noodles_fastq as fastq;
use noodles_gff as gff;
use noodles_sam::{self as sam, alignment::io::Write as _};
use noodles_tabix as tabix;
use noodles_util::alignment::io::{CompressionMethod as ACm, Format as AFmt};
use noodles_vcf::{self as vcf, variant::io::Write as _};
use vmc::{
    env::FaultSink,
    oracle::bgzf::{self as ob, Payload},
};

use crate::Proto;

pub struct Scenario {
    pub name: &'static str,
    pub protocol: &'static str,
    pub run: fn(FaultSink, &mut Proto),
    pub verify: fn(&[u8]) -> Result<(), String>,
    /// The protocol contains the writer's finishing call (or the writer does not buffer), so
    /// "all calls Ok ⇒ complete file" applies even when a Drop-time write fails.
    pub complete: bool,
    /// Output bytes are a function of the input (false for CRAM: hash iteration order).
    pub byte_identical: bool,
}

struct Docs {
    aln: aln::AlnDoc,
    aln_log: Vec<String>,
    aln_log_folded: Vec<String>,
    var: var::VarDoc,
    var_log: Vec<String>,
    repo: fasta::Repository,
    p1: Vec<u8>,
    p2: Vec<u8>,
    /// unmapped record with 70 000 bases: its BAM encoding crosses a BGZF block boundary, so a
    /// block is emitted from inside `write_alignment_record`
    big: sam::alignment::RecordBuf,
    big_log: Vec<String>,
}

static DOCS: LazyLock<Docs> = LazyLock::new(|| {
    let a = aln::docs().into_iter().find(|d| d.name == "3-records").unwrap();
    let v = var::docs().into_iter().find(|d| d.name == "3-records").unwrap();
    let big = {
        use sam::alignment::{RecordBuf, record::Flags, record_buf::{QualityScores, Sequence}};
        let seq: Vec<u8> = (0..70_000u32).map(|i| b"ACGT"[(i.wrapping_mul(2654435761) >> 13) as usize % 4]).collect();
        let qual: Vec<u8> = (0..70_000u32).map(|i| (i.wrapping_mul(40503) >> 7) as u8 % 40 + 2).collect();
        RecordBuf::builder()
            .set_name("big")
            .set_flags(Flags::UNMAPPED)
            .set_sequence(Sequence::from(seq))
            .set_quality_scores(QualityScores::from(qual))
            .build()
    };
    let big_log = vec![aln::header_key(&a.header), aln::record_buf_key(&big, false)];
    Docs {
        big,
        big_log,
        aln_log: aln::doc_log(&a, false),
        aln_log_folded: aln::doc_log(&a, true),
        aln: a,
        var_log: var::doc_log(&v),
        var: v,
        repo: aln::repository(),
        p1: ob::payload(Payload::Text, 0, 300),
        // crosses the 65280-byte staging limit: one block is emitted from inside write()
        p2: ob::payload(Payload::Random, 300, 66000),
    }
});

macro_rules! step {
    ($p:expr, $name:expr, $e:expr) => {
        if !$p.call($name, || $e) {
            return;
        }
    };
}

// ------------------------------------------------------------------------------------------
// decoders

fn cmp_logs(expected: &[String], got: &[String]) -> Result<(), String> {
    if expected == got {
        Ok(())
    } else {
        Err(format!("content-differs: {}", gdocs::first_diff(expected, got)))
    }
}

/// Independent structural check of a BGZF file: well-formed members and the EOF marker.
fn bgzf_complete(bytes: &[u8]) -> Result<Vec<u8>, String> {
    let members = ob::walk(bytes).map_err(|e| format!("bgzf-walk: {e}"))?;
    if !ob::ends_with_eof(bytes) {
        return Err(format!("no-bgzf-eof-marker: {} bytes", bytes.len()));
    }
    let mut cat = Vec::new();
    for m in &members {
        cat.extend_from_slice(&m.data);
    }
    Ok(cat)
}

fn ioerr(stage: &str) -> impl Fn(io::Error) -> String + '_ {
    move |e| format!("{stage}-error: {e}")
}

fn verify_bgzf(bytes: &[u8]) -> Result<(), String> {
    use io::Read;
    let d = &*DOCS;
    let mut model = d.p1.clone();
    model.extend_from_slice(&d.p2);
    let cat = bgzf_complete(bytes)?;
    if cat != model {
        return Err(format!("payload-differs(walker): {}", vmc::diff_bytes(&model, &cat)));
    }
    let mut r = bgzf::io::Reader::new(bytes);
    let mut back = Vec::new();
    r.read_to_end(&mut back).map_err(ioerr("read"))?;
    if back != model {
        return Err(format!("payload-differs(reader): {}", vmc::diff_bytes(&model, &back)));
    }
    Ok(())
}

fn verify_bam_inner<R: io::Read>(mut r: bam::io::Reader<R>) -> Result<(), String> {
    let h = r.read_header().map_err(ioerr("read-header"))?;
    let mut log = vec![aln::header_key(&h)];
    for rec in r.records() {
        let rec = rec.map_err(ioerr("read-record"))?;
        log.push(aln::record_key(&h, &rec, false).map_err(ioerr("decode-record"))?);
    }
    cmp_logs(&DOCS.aln_log, &log)
}

fn verify_bam(bytes: &[u8]) -> Result<(), String> {
    bgzf_complete(bytes)?;
    verify_bam_inner(bam::io::Reader::new(bytes))
}

fn verify_bam_big(bytes: &[u8]) -> Result<(), String> {
    bgzf_complete(bytes)?;
    let mut r = bam::io::Reader::new(bytes);
    let h = r.read_header().map_err(ioerr("read-header"))?;
    let mut log = vec![aln::header_key(&h)];
    for rec in r.records() {
        let rec = rec.map_err(ioerr("read-record"))?;
        log.push(aln::record_key(&h, &rec, false).map_err(ioerr("decode-record"))?);
    }
    if log == DOCS.big_log { Ok(()) } else { Err("content-differs: 70000-base record".into()) }
}

fn verify_bam_raw(bytes: &[u8]) -> Result<(), String> {
    verify_bam_inner(bam::io::Reader::from(bytes))
}

fn verify_sam_inner<R: io::BufRead>(mut r: sam::io::Reader<R>) -> Result<(), String> {
    let h = r.read_header().map_err(ioerr("read-header"))?;
    let mut log = vec![aln::header_key(&h)];
    for rec in r.records() {
        let rec = rec.map_err(ioerr("read-record"))?;
        log.push(aln::record_key(&h, &rec, false).map_err(ioerr("decode-record"))?);
    }
    cmp_logs(&DOCS.aln_log, &log)
}

fn verify_sam(bytes: &[u8]) -> Result<(), String> {
    verify_sam_inner(sam::io::Reader::new(bytes))
}

fn verify_sam_gz(bytes: &[u8]) -> Result<(), String> {
    bgzf_complete(bytes)?;
    verify_sam_inner(sam::io::Reader::new(bgzf::io::Reader::new(bytes)))
}

fn verify_cram(bytes: &[u8]) -> Result<(), String> {
    let mut r = cram::io::reader::Builder::default()
        .set_reference_sequence_repository(DOCS.repo.clone())
        .build_from_reader(bytes);
    let h = r.read_header().map_err(ioerr("read-header"))?;
    let mut log = vec![aln::header_key(&h)];
    for rec in r.records(&h) {
        let rec = rec.map_err(ioerr("read-record"))?;
        log.push(aln::record_key(&h, &rec, true).map_err(ioerr("decode-record"))?);
    }
    cmp_logs(&DOCS.aln_log_folded, &log)?;
    // a complete CRAM ends with the 38-byte EOF container (CRAM 3.0 §9)
    const EOF_TAIL: [u8; 8] = [0x01, 0x00, 0x01, 0x00, 0xee, 0x63, 0x01, 0x4b];
    if bytes.len() < 38 || bytes[bytes.len() - 8..] != EOF_TAIL {
        return Err("no-cram-eof-container: file does not end with the EOF container".into());
    }
    Ok(())
}

fn verify_vcf_inner<R: io::BufRead>(mut r: vcf::io::Reader<R>) -> Result<(), String> {
    let h = r.read_header().map_err(ioerr("read-header"))?;
    let mut log = vec![var::header_key(&h)];
    for rec in r.records() {
        let rec = rec.map_err(ioerr("read-record"))?;
        log.push(var::record_key(&h, &rec).map_err(ioerr("decode-record"))?);
    }
    cmp_logs(&DOCS.var_log, &log)
}

fn verify_vcf(bytes: &[u8]) -> Result<(), String> {
    verify_vcf_inner(vcf::io::Reader::new(bytes))
}

fn verify_vcf_gz(bytes: &[u8]) -> Result<(), String> {
    bgzf_complete(bytes)?;
    verify_vcf_inner(vcf::io::Reader::new(bgzf::io::Reader::new(bytes)))
}

fn verify_bcf_inner<R: io::Read>(mut r: bcf::io::Reader<R>) -> Result<(), String> {
    let h = r.read_header().map_err(ioerr("read-header"))?;
    let mut log = vec![var::header_key(&h)];
    for rec in r.records() {
        let rec = rec.map_err(ioerr("read-record"))?;
        log.push(var::record_key(&h, &rec).map_err(ioerr("decode-record"))?);
    }
    cmp_logs(&DOCS.var_log, &log)
}

fn verify_bcf(bytes: &[u8]) -> Result<(), String> {
    bgzf_complete(bytes)?;
    verify_bcf_inner(bcf::io::Reader::new(bytes))
}

fn verify_bcf_raw(bytes: &[u8]) -> Result<(), String> {
    verify_bcf_inner(bcf::io::Reader::from(bytes))
}

fn verify_fasta(bytes: &[u8]) -> Result<(), String> {
    let mut r = fasta::io::Reader::new(bytes);
    let got: Vec<String> = r
        .records()
        .map(|x| x.map(|rec| format!("{:?} {:?} {:?}", rec.name(), rec.description(), rec.sequence().as_ref())))
        .collect::<io::Result<_>>()
        .map_err(ioerr("read-record"))?;
    let want: Vec<String> = misc::fasta_records()
        .iter()
        .map(|rec| format!("{:?} {:?} {:?}", rec.name(), rec.description(), rec.sequence().as_ref()))
        .collect();
    cmp_logs(&want, &got)
}

fn verify_fastq(bytes: &[u8]) -> Result<(), String> {
    let key = |rec: &fastq::Record| {
        format!("{:?} {:?} {:?} {:?}", rec.name(), rec.description(), rec.sequence(), rec.quality_scores())
    };
    let mut r = fastq::io::Reader::new(bytes);
    let got: Vec<String> = r
        .records()
        .map(|x| x.map(|rec| key(&rec)))
        .collect::<io::Result<_>>()
        .map_err(ioerr("read-record"))?;
    let want: Vec<String> = misc::fastq_records().iter().map(key).collect();
    cmp_logs(&want, &got)
}

fn verify_gff(bytes: &[u8]) -> Result<(), String> {
    // Lazy line API + own rendering. (`line_bufs()` is not used: it returns comments with their
    // leading '#' and directives with untyped values, so `write_line` -> `line_bufs` is not the
    // identity even on a perfect sink; that asymmetry belongs to C18, see NOTES.md.)
    use gff::{LineBuf, feature::RecordBuf};
    let mut r = gff::io::Reader::new(bytes);
    let mut got = Vec::new();
    for line in r.lines() {
        let line = line.map_err(ioerr("read-line"))?;
        if let Some(d) = line.as_directive() {
            got.push(format!("D {} {:?}", d.key(), d.value().map(|v| v.to_string())));
        } else if let Some(c) = line.as_comment() {
            got.push(format!("C {c}"));
        } else if let Some(rec) = line.as_record() {
            let rec = rec.map_err(ioerr("read-record"))?;
            let buf = RecordBuf::try_from_feature_record(&rec).map_err(ioerr("decode-record"))?;
            got.push(format!("R {buf:?}"));
        }
        if got.len() > bytes.len() + 10 {
            return Err("reader-does-not-terminate".into());
        }
    }
    let want: Vec<String> = misc::gff_lines()
        .iter()
        .map(|l| match l {
            // the only directive of the document is `##gff-version 3`
            LineBuf::Directive(d) => format!("D {} {:?}", d.key(), Some("3".to_string())),
            LineBuf::Comment(c) => format!("C {c}"),
            LineBuf::Record(r) => format!("R {r:?}"),
        })
        .collect();
    cmp_logs(&want, &got)
}

fn bed_key<const N: usize, R: bed::feature::Record<N>>(r: &R) -> io::Result<String> {
    let start = r.feature_start()?;
    let end = r.feature_end().transpose()?;
    let name = r.name().map(|n| n.map(|s| s.to_string()));
    let score = r.score().transpose()?;
    let strand = r.strand().transpose()?;
    let other: Vec<String> = r.other_fields().iter().map(|f| format!("{f:?}")).collect();
    Ok(format!(
        "{} {start:?} {end:?} {name:?} {score:?} {strand:?} {other:?}",
        r.reference_sequence_name()
    ))
}

fn verify_bed3(bytes: &[u8]) -> Result<(), String> {
    let mut r = bed::io::Reader::<3, _>::new(bytes);
    let mut rec = bed::Record::<3>::default();
    let mut got = Vec::new();
    while r.read_record(&mut rec).map_err(ioerr("read-record"))? != 0 {
        got.push(bed_key::<3, _>(&rec).map_err(ioerr("decode-record"))?);
        if got.len() > bytes.len() + 10 {
            return Err("reader-does-not-terminate".into());
        }
    }
    let want: Vec<String> =
        misc::bed3_records().iter().map(|r| bed_key::<3, _>(r).unwrap()).collect();
    cmp_logs(&want, &got)
}

fn verify_bed6(bytes: &[u8]) -> Result<(), String> {
    let mut r = bed::io::Reader::<6, _>::new(bytes);
    let mut rec = bed::Record::<6>::default();
    let mut got = Vec::new();
    while r.read_record(&mut rec).map_err(ioerr("read-record"))? != 0 {
        got.push(bed_key::<6, _>(&rec).map_err(ioerr("decode-record"))?);
        if got.len() > bytes.len() + 10 {
            return Err("reader-does-not-terminate".into());
        }
    }
    let want: Vec<String> =
        misc::bed6_records().iter().map(|r| bed_key::<6, _>(r).unwrap()).collect();
    cmp_logs(&want, &got)
}

fn cmp_val<T: PartialEq + std::fmt::Debug>(want: &T, got: &T) -> Result<(), String> {
    if want == got {
        Ok(())
    } else {
        Err(format!("content-differs: expected {want:?} got {got:?}"))
    }
}

fn verify_bai(bytes: &[u8]) -> Result<(), String> {
    let got = bam::bai::io::Reader::new(bytes).read_index().map_err(ioerr("read-index"))?;
    cmp_val(&misc::bai_index(), &got)
}

fn verify_csi(bytes: &[u8]) -> Result<(), String> {
    bgzf_complete(bytes)?;
    let got = csi::io::Reader::new(bytes).read_index().map_err(ioerr("read-index"))?;
    // compared with the index read from the plain run's bytes as well as with the value written:
    // see NOTES.md (CSI writer folds first-record offsets of ancestor bins — D4 is C17's business)
    cmp_val(&*CSI_EXPECTED, &got)
}

static CSI_EXPECTED: LazyLock<csi::Index> = LazyLock::new(|| {
    let mut w = csi::io::Writer::new(Vec::new());
    w.write_index(&misc::csi_index()).expect("csi plain write");
    let bytes = w.into_inner().finish().expect("csi plain finish");
    csi::io::Reader::new(&bytes[..]).read_index().expect("csi plain read")
});

fn verify_tabix(bytes: &[u8]) -> Result<(), String> {
    bgzf_complete(bytes)?;
    let got = tabix::io::Reader::new(bytes).read_index().map_err(ioerr("read-index"))?;
    cmp_val(&misc::tabix_index(), &got)
}

fn verify_gzi(bytes: &[u8]) -> Result<(), String> {
    let got = bgzf::gzi::io::Reader::new(bytes).read_index().map_err(ioerr("read-index"))?;
    cmp_val(&misc::gzi_index(), &got)
}

fn verify_fai(bytes: &[u8]) -> Result<(), String> {
    let got = fasta::fai::io::Reader::new(bytes).read_index().map_err(ioerr("read-index"))?;
    cmp_val(&misc::fai_index(), &got)
}

fn verify_crai(bytes: &[u8]) -> Result<(), String> {
    // independent gzip framing check: one gzip member, CRC32 and ISIZE verified by hand
    if bytes.len() < 18 || bytes[0] != 0x1f || bytes[1] != 0x8b || bytes[2] != 8 {
        return Err("bad-gzip-header: not a gzip member".into());
    }
    if bytes[3] != 0 {
        return Err("bad-gzip-header: unexpected FLG".into());
    }
    let (data, used) = ob::inflate_raw(&bytes[10..], 1 << 20).map_err(|e| format!("inflate: {e}"))?;
    let tail = &bytes[10 + used..];
    if tail.len() != 8 {
        return Err(format!("bad-gzip-trailer: {} bytes after the deflate stream", tail.len()));
    }
    let crc = u32::from_le_bytes(tail[0..4].try_into().unwrap());
    let isize = u32::from_le_bytes(tail[4..8].try_into().unwrap());
    let mut h = vmc_crc();
    h.update(&data);
    if h.finalize() != crc || isize as usize != data.len() {
        return Err("bad-gzip-trailer: CRC32/ISIZE mismatch".into());
    }
    // record by record: `crai::io::Reader::read_index` does not clear its line buffer between
    // records and rejects every index with >= 2 records (a reader defect, C17's business; NOTES.md)
    let mut r = cram::crai::io::Reader::new(bytes);
    let mut rec = cram::crai::Record::default();
    let mut got = Vec::new();
    while r.read_record(&mut rec).map_err(ioerr("read-record"))? != 0 {
        got.push(rec.clone());
        if got.len() > bytes.len() + 10 {
            return Err("reader-does-not-terminate".into());
        }
    }
    cmp_val(&misc::crai_index(), &got)
}

// crc32 by table-free bitwise algorithm (RFC 1952 §8), tiny inputs only
struct Crc(u32);
fn vmc_crc() -> Crc {
    Crc(0xffff_ffff)
}
impl Crc {
    fn update(&mut self, data: &[u8]) {
        for &b in data {
            self.0 ^= b as u32;
            for _ in 0..8 {
                self.0 = if self.0 & 1 != 0 { (self.0 >> 1) ^ 0xedb8_8320 } else { self.0 >> 1 };
            }
        }
    }
    fn finalize(&self) -> u32 {
        !self.0
    }
}

fn verify_fastq_fai(bytes: &[u8]) -> Result<(), String> {
    // naive parse: 6 tab-separated columns per line
    let text = std::str::from_utf8(bytes).map_err(|e| format!("utf8: {e}"))?;
    if !text.is_empty() && !text.ends_with('\n') {
        return Err("truncated: last line has no newline".into());
    }
    let mut got = Vec::new();
    for l in text.lines() {
        let f: Vec<&str> = l.split('\t').collect();
        if f.len() != 6 {
            return Err(format!("bad-line: {l:?}"));
        }
        let n = |s: &str| s.parse::<u64>().map_err(|e| format!("bad-number: {e}"));
        got.push(fastq::fai::Record::new(f[0], n(f[1])?, n(f[2])?, n(f[3])?, n(f[4])?, n(f[5])?));
    }
    cmp_val(&misc::fastq_fai_records(), &got)
}

// ------------------------------------------------------------------------------------------
// protocols

#[derive(Clone, Copy, PartialEq)]
enum End {
    Finish,
    TryFinishThenDrop,
    DropOnly,
    /// `sam::alignment::io::Write::finish(&mut writer, &header)`
    TraitFinish,
}

fn run_bgzf(sink: FaultSink, p: &mut Proto, end: End) {
    let d = &*DOCS;
    let mut w = bgzf::io::Writer::new(sink);
    step!(p, "write_all#0", w.write_all(&d.p1));
    step!(p, "flush", w.flush());
    step!(p, "write_all#1", w.write_all(&d.p2));
    match end {
        End::Finish => step!(p, "finish", w.finish().map(|_| ())),
        End::TryFinishThenDrop => step!(p, "try_finish", w.try_finish()),
        _ => {}
    }
}

fn run_bam(sink: FaultSink, p: &mut Proto, end: End) {
    let d = &*DOCS;
    let h = &d.aln.header;
    let mut w = bam::io::Writer::new(sink);
    step!(p, "write_header", w.write_header(h));
    step!(p, "write_alignment_record#0", w.write_alignment_record(h, &d.aln.records[0]));
    step!(p, "flush", w.get_mut().flush());
    step!(p, "write_alignment_record#1", w.write_alignment_record(h, &d.aln.records[1]));
    step!(p, "write_alignment_record#2", w.write_alignment_record(h, &d.aln.records[2]));
    match end {
        End::TraitFinish => step!(p, "finish", w.finish(h)),
        _ => step!(p, "try_finish", w.try_finish()),
    }
}

fn run_bam_big(sink: FaultSink, p: &mut Proto) {
    let d = &*DOCS;
    let h = &d.aln.header;
    let mut w = bam::io::Writer::new(sink);
    step!(p, "write_header", w.write_header(h));
    step!(p, "write_alignment_record#big", w.write_alignment_record(h, &d.big));
    step!(p, "try_finish", w.try_finish());
}

fn run_util_aln(sink: FaultSink, p: &mut Proto, fmt: AFmt, cm: Option<ACm>) {
    let d = &*DOCS;
    let h = &d.aln.header;
    let built = noodles_util::alignment::io::writer::Builder::default()
        .set_format(fmt)
        .set_compression_method(cm)
        .set_reference_sequence_repository(d.repo.clone())
        .build_from_writer(sink);
    let mut w = match built {
        Ok(w) => w,
        Err(e) => {
            p.call("build_from_writer", || Err(e));
            return;
        }
    };
    step!(p, "write_header", w.write_header(h));
    step!(p, "write_record#0", w.write_record(h, &d.aln.records[0]));
    step!(p, "write_record#1", w.write_record(h, &d.aln.records[1]));
    step!(p, "write_record#2", w.write_record(h, &d.aln.records[2]));
    step!(p, "finish", w.finish(h));
}

fn run_bam_raw(sink: FaultSink, p: &mut Proto) {
    let d = &*DOCS;
    let h = &d.aln.header;
    let mut w = bam::io::Writer::from(sink);
    step!(p, "write_header", w.write_header(h));
    for (i, name) in ["write_alignment_record#0", "write_alignment_record#1", "write_alignment_record#2"]
        .into_iter()
        .enumerate()
    {
        step!(p, name, w.write_alignment_record(h, &d.aln.records[i]));
    }
    step!(p, "finish", w.finish(h));
}

fn run_sam(sink: FaultSink, p: &mut Proto) {
    let d = &*DOCS;
    let h = &d.aln.header;
    let mut w = sam::io::Writer::new(sink);
    step!(p, "write_header", w.write_header(h));
    for (i, name) in ["write_alignment_record#0", "write_alignment_record#1", "write_alignment_record#2"]
        .into_iter()
        .enumerate()
    {
        step!(p, name, w.write_alignment_record(h, &d.aln.records[i]));
    }
    step!(p, "finish", w.finish(h));
}

fn run_sam_gz(sink: FaultSink, p: &mut Proto) {
    let d = &*DOCS;
    let h = &d.aln.header;
    let mut w = sam::io::Writer::new(bgzf::io::Writer::new(sink));
    step!(p, "write_header", w.write_header(h));
    step!(p, "write_alignment_record#0", w.write_alignment_record(h, &d.aln.records[0]));
    step!(p, "flush", w.get_mut().flush());
    step!(p, "write_alignment_record#1", w.write_alignment_record(h, &d.aln.records[1]));
    step!(p, "write_alignment_record#2", w.write_alignment_record(h, &d.aln.records[2]));
    step!(p, "try_finish", w.get_mut().try_finish());
}

fn run_cram(sink: FaultSink, p: &mut Proto, one_record_per_container: bool) {
    let d = &*DOCS;
    let h = &d.aln.header;
    let mut w = cram::io::writer::Builder::default()
        .set_reference_sequence_repository(d.repo.clone())
        .build_from_writer(sink);
    if one_record_per_container {
        // hook H4: containers are emitted from inside write_alignment_record
        w.verif_set_layout(1, 1);
    }
    step!(p, "write_header", w.write_header(h));
    for (i, name) in ["write_alignment_record#0", "write_alignment_record#1", "write_alignment_record#2"]
        .into_iter()
        .enumerate()
    {
        step!(p, name, w.write_alignment_record(h, &d.aln.records[i]));
    }
    step!(p, "try_finish", w.try_finish(h));
}

fn run_vcf(sink: FaultSink, p: &mut Proto) {
    let d = &*DOCS;
    let h = &d.var.header;
    let mut w = vcf::io::Writer::new(sink);
    step!(p, "write_header", w.write_header(h));
    for (i, name) in ["write_variant_record#0", "write_variant_record#1", "write_variant_record#2"]
        .into_iter()
        .enumerate()
    {
        step!(p, name, w.write_variant_record(h, &d.var.records[i]));
    }
}

fn run_vcf_gz(sink: FaultSink, p: &mut Proto) {
    let d = &*DOCS;
    let h = &d.var.header;
    let mut w = vcf::io::Writer::new(bgzf::io::Writer::new(sink));
    step!(p, "write_header", w.write_header(h));
    step!(p, "write_variant_record#0", w.write_variant_record(h, &d.var.records[0]));
    step!(p, "flush", w.get_mut().flush());
    step!(p, "write_variant_record#1", w.write_variant_record(h, &d.var.records[1]));
    step!(p, "write_variant_record#2", w.write_variant_record(h, &d.var.records[2]));
    step!(p, "try_finish", w.get_mut().try_finish());
}

fn run_bcf(sink: FaultSink, p: &mut Proto) {
    let d = &*DOCS;
    let h = &d.var.header;
    let mut w = bcf::io::Writer::new(sink);
    step!(p, "write_header", w.write_header(h));
    step!(p, "write_variant_record#0", w.write_variant_record(h, &d.var.records[0]));
    step!(p, "flush", w.get_mut().flush());
    step!(p, "write_variant_record#1", w.write_variant_record(h, &d.var.records[1]));
    step!(p, "write_variant_record#2", w.write_variant_record(h, &d.var.records[2]));
    step!(p, "try_finish", w.try_finish());
}

fn run_bcf_raw(sink: FaultSink, p: &mut Proto) {
    let d = &*DOCS;
    let h = &d.var.header;
    let mut w = bcf::io::Writer::from(sink);
    step!(p, "write_header", w.write_header(h));
    for (i, name) in ["write_variant_record#0", "write_variant_record#1", "write_variant_record#2"]
        .into_iter()
        .enumerate()
    {
        step!(p, name, w.write_variant_record(h, &d.var.records[i]));
    }
}

fn run_fasta(sink: FaultSink, p: &mut Proto) {
    let recs = misc::fasta_records();
    let mut w = fasta::io::Writer::new(sink);
    step!(p, "write_record#0", w.write_record(&recs[0]));
    step!(p, "write_record#1", w.write_record(&recs[1]));
}

fn run_fastq(sink: FaultSink, p: &mut Proto) {
    let recs = misc::fastq_records();
    let mut w = fastq::io::Writer::new(sink);
    step!(p, "write_record#0", w.write_record(&recs[0]));
    step!(p, "write_record#1", w.write_record(&recs[1]));
    step!(p, "write_record#2", w.write_record(&recs[2]));
}

fn run_gff(sink: FaultSink, p: &mut Proto) {
    let lines = misc::gff_lines();
    let mut w = gff::io::Writer::new(sink);
    step!(p, "write_line#0(directive)", w.write_line(&lines[0]));
    step!(p, "write_line#1(comment)", w.write_line(&lines[1]));
    step!(p, "write_line#2(record)", w.write_line(&lines[2]));
    step!(p, "write_line#3(record)", w.write_line(&lines[3]));
}

fn run_bed3(sink: FaultSink, p: &mut Proto) {
    let recs = misc::bed3_records();
    let mut w = bed::io::Writer::<3, _>::new(sink);
    step!(p, "write_feature_record#0", w.write_feature_record(&recs[0]));
    step!(p, "write_feature_record#1", w.write_feature_record(&recs[1]));
}

fn run_bed6(sink: FaultSink, p: &mut Proto) {
    let recs = misc::bed6_records();
    let mut w = bed::io::Writer::<6, _>::new(sink);
    step!(p, "write_feature_record#0", w.write_feature_record(&recs[0]));
    step!(p, "write_feature_record#1", w.write_feature_record(&recs[1]));
}

fn run_bai(sink: FaultSink, p: &mut Proto) {
    let ix = misc::bai_index();
    let mut w = bam::bai::io::Writer::new(sink);
    step!(p, "write_index", w.write_index(&ix));
}

fn run_csi(sink: FaultSink, p: &mut Proto) {
    let ix = misc::csi_index();
    let mut w = csi::io::Writer::new(sink);
    step!(p, "write_index", w.write_index(&ix));
    step!(p, "finish", w.into_inner().finish().map(|_| ()));
}

fn run_tabix(sink: FaultSink, p: &mut Proto) {
    let ix = misc::tabix_index();
    let mut w = tabix::io::Writer::new(sink);
    step!(p, "write_index", w.write_index(&ix));
    step!(p, "try_finish", w.try_finish());
}

fn run_gzi(sink: FaultSink, p: &mut Proto) {
    let ix = misc::gzi_index();
    let mut w = bgzf::gzi::io::Writer::new(sink);
    step!(p, "write_index", w.write_index(&ix));
}

fn run_fai(sink: FaultSink, p: &mut Proto) {
    let ix = misc::fai_index();
    let mut w = fasta::fai::io::Writer::new(sink);
    step!(p, "write_index", w.write_index(&ix));
}

fn run_crai(sink: FaultSink, p: &mut Proto) {
    let ix = misc::crai_index();
    let mut w = cram::crai::io::Writer::new(sink);
    step!(p, "write_index", w.write_index(&ix));
    step!(p, "finish", w.finish().map(|_| ()));
}

fn run_fastq_fai(sink: FaultSink, p: &mut Proto) {
    let recs = misc::fastq_fai_records();
    let mut w = fastq::fai::io::Writer::new(sink);
    step!(p, "write_record#0", w.write_record(&recs[0]));
    step!(p, "write_record#1", w.write_record(&recs[1]));
}

pub static SCENARIOS: &[Scenario] = &[
    Scenario {
        name: "bgzf/finish",
        protocol: "bgzf::io::Writer::new(sink); write_all(300 B); flush(); write_all(66000 B); finish()",
        run: |s, p| run_bgzf(s, p, End::Finish),
        verify: verify_bgzf,
        complete: true,
        byte_identical: true,
    },
    Scenario {
        name: "bgzf/try_finish+drop",
        protocol: "bgzf::io::Writer::new(sink); write_all(300 B); flush(); write_all(66000 B); try_finish(); drop",
        run: |s, p| run_bgzf(s, p, End::TryFinishThenDrop),
        verify: verify_bgzf,
        complete: true,
        byte_identical: true,
    },
    Scenario {
        name: "bgzf/drop-only",
        protocol: "bgzf::io::Writer::new(sink); write_all(300 B); flush(); write_all(66000 B); drop",
        run: |s, p| run_bgzf(s, p, End::DropOnly),
        verify: verify_bgzf,
        complete: false,
        byte_identical: true,
    },
    Scenario {
        name: "bam/try_finish",
        protocol: "bam::io::Writer::new(sink); write_header; write_alignment_record; get_mut().flush(); write_alignment_record x2; try_finish(); drop",
        run: |s, p| run_bam(s, p, End::TryFinishThenDrop),
        verify: verify_bam,
        complete: true,
        byte_identical: true,
    },
    Scenario {
        name: "bam/trait-finish",
        protocol: "bam::io::Writer::new(sink); write_header; write_alignment_record; get_mut().flush(); write_alignment_record x2; sam::alignment::io::Write::finish(&header); drop",
        run: |s, p| run_bam(s, p, End::TraitFinish),
        verify: verify_bam,
        complete: true,
        byte_identical: true,
    },
    Scenario {
        name: "bam/large-record",
        protocol: "bam::io::Writer::new(sink); write_header; write_alignment_record(70000-base unmapped record: a BGZF block is emitted inside the call); try_finish(); drop",
        run: run_bam_big,
        verify: verify_bam_big,
        complete: true,
        byte_identical: true,
    },
    Scenario {
        name: "bam/raw",
        protocol: "bam::io::Writer::from(sink) (uncompressed); write_header; write_alignment_record x3; finish(&header)",
        run: run_bam_raw,
        verify: verify_bam_raw,
        complete: true,
        byte_identical: true,
    },
    Scenario {
        name: "sam",
        protocol: "sam::io::Writer::new(sink); write_header; write_alignment_record x3; finish(&header)",
        run: run_sam,
        verify: verify_sam,
        complete: true,
        byte_identical: true,
    },
    Scenario {
        name: "sam.gz",
        protocol: "sam::io::Writer::new(bgzf::io::Writer::new(sink)); write_header; write_alignment_record; get_mut().flush(); write_alignment_record x2; get_mut().try_finish(); drop",
        run: run_sam_gz,
        verify: verify_sam_gz,
        complete: true,
        byte_identical: true,
    },
    Scenario {
        name: "cram/default-layout",
        protocol: "cram::io::writer::Builder (repository) build_from_writer(sink); write_header; write_alignment_record x3; try_finish(&header)",
        run: |s, p| run_cram(s, p, false),
        verify: verify_cram,
        complete: true,
        byte_identical: false,
    },
    Scenario {
        name: "cram/1-record-containers",
        protocol: "cram writer with verif_set_layout(1, 1); write_header; write_alignment_record x3 (each emits a container); try_finish(&header)",
        run: |s, p| run_cram(s, p, true),
        verify: verify_cram,
        complete: true,
        byte_identical: false,
    },
    Scenario {
        name: "vcf",
        protocol: "vcf::io::Writer::new(sink); write_header; write_variant_record x3",
        run: run_vcf,
        verify: verify_vcf,
        complete: true,
        byte_identical: true,
    },
    Scenario {
        name: "vcf.gz",
        protocol: "vcf::io::Writer::new(bgzf::io::Writer::new(sink)); write_header; write_variant_record; get_mut().flush(); write_variant_record x2; get_mut().try_finish(); drop",
        run: run_vcf_gz,
        verify: verify_vcf_gz,
        complete: true,
        byte_identical: true,
    },
    Scenario {
        name: "bcf/try_finish",
        protocol: "bcf::io::Writer::new(sink); write_header; write_variant_record; get_mut().flush(); write_variant_record x2; try_finish(); drop",
        run: run_bcf,
        verify: verify_bcf,
        complete: true,
        byte_identical: true,
    },
    Scenario {
        name: "bcf/raw",
        protocol: "bcf::io::Writer::from(sink) (uncompressed); write_header; write_variant_record x3",
        run: run_bcf_raw,
        verify: verify_bcf_raw,
        complete: true,
        byte_identical: true,
    },
    Scenario {
        name: "fasta",
        protocol: "fasta::io::Writer::new(sink); write_record x2 (50 and 170 bases)",
        run: run_fasta,
        verify: verify_fasta,
        complete: true,
        byte_identical: true,
    },
    Scenario {
        name: "fastq",
        protocol: "fastq::io::Writer::new(sink); write_record x3",
        run: run_fastq,
        verify: verify_fastq,
        complete: true,
        byte_identical: true,
    },
    Scenario {
        name: "gff",
        protocol: "gff::io::Writer::new(sink); write_line x4 (directive, comment, 2 records)",
        run: run_gff,
        verify: verify_gff,
        complete: true,
        byte_identical: true,
    },
    Scenario {
        name: "bed3",
        protocol: "bed::io::Writer::<3,_>::new(sink); write_feature_record x2",
        run: run_bed3,
        verify: verify_bed3,
        complete: true,
        byte_identical: true,
    },
    Scenario {
        name: "bed6",
        protocol: "bed::io::Writer::<6,_>::new(sink); write_feature_record x2",
        run: run_bed6,
        verify: verify_bed6,
        complete: true,
        byte_identical: true,
    },
    Scenario {
        name: "bai",
        protocol: "bam::bai::io::Writer::new(sink); write_index",
        run: run_bai,
        verify: verify_bai,
        complete: true,
        byte_identical: true,
    },
    Scenario {
        name: "csi",
        protocol: "csi::io::Writer::new(sink); write_index; into_inner().finish()",
        run: run_csi,
        verify: verify_csi,
        complete: true,
        byte_identical: true,
    },
    Scenario {
        name: "tabix",
        protocol: "tabix::io::Writer::new(sink); write_index; try_finish(); drop",
        run: run_tabix,
        verify: verify_tabix,
        complete: true,
        byte_identical: true,
    },
    Scenario {
        name: "gzi",
        protocol: "bgzf::gzi::io::Writer::new(sink); write_index",
        run: run_gzi,
        verify: verify_gzi,
        complete: true,
        byte_identical: true,
    },
    Scenario {
        name: "fai",
        protocol: "fasta::fai::io::Writer::new(sink); write_index",
        run: run_fai,
        verify: verify_fai,
        complete: true,
        byte_identical: true,
    },
    Scenario {
        name: "crai",
        protocol: "cram::crai::io::Writer::new(sink); write_index; finish()",
        run: run_crai,
        verify: verify_crai,
        complete: true,
        byte_identical: true,
    },
    Scenario {
        name: "fastq-fai",
        protocol: "fastq::fai::io::Writer::new(sink); write_record x2",
        run: run_fastq_fai,
        verify: verify_fastq_fai,
        complete: true,
        byte_identical: true,
    },
    // noodles-util generic alignment writer: `finish(&header)` is its only shutdown call
    Scenario {
        name: "util-alignment/sam",
        protocol: "noodles_util::alignment::io::writer::Builder (Format::Sam, None) build_from_writer(sink); write_header; write_record x3; finish(&header); drop",
        run: |s, p| run_util_aln(s, p, AFmt::Sam, None),
        verify: verify_sam,
        complete: true,
        byte_identical: true,
    },
    Scenario {
        name: "util-alignment/sam.gz",
        protocol: "noodles_util::alignment::io::writer::Builder (Format::Sam, Some(Bgzf)) build_from_writer(sink); write_header; write_record x3; finish(&header); drop",
        run: |s, p| run_util_aln(s, p, AFmt::Sam, Some(ACm::Bgzf)),
        verify: verify_sam_gz,
        complete: true,
        byte_identical: true,
    },
    Scenario {
        name: "util-alignment/bam",
        protocol: "noodles_util::alignment::io::writer::Builder (Format::Bam, Some(Bgzf)) build_from_writer(sink); write_header; write_record x3; finish(&header); drop",
        run: |s, p| run_util_aln(s, p, AFmt::Bam, Some(ACm::Bgzf)),
        verify: verify_bam,
        complete: true,
        byte_identical: true,
    },
    Scenario {
        name: "util-alignment/bam-raw",
        protocol: "noodles_util::alignment::io::writer::Builder (Format::Bam, None) build_from_writer(sink); write_header; write_record x3; finish(&header); drop",
        run: |s, p| run_util_aln(s, p, AFmt::Bam, None),
        verify: verify_bam_raw,
        complete: true,
        byte_identical: true,
    },
    Scenario {
        name: "util-alignment/cram",
        protocol: "noodles_util::alignment::io::writer::Builder (Format::Cram, None, repository) build_from_writer(sink); write_header; write_record x3; finish(&header); drop",
        run: |s, p| run_util_aln(s, p, AFmt::Cram, None),
        verify: verify_cram,
        complete: true,
        byte_identical: false,
    },
];
