//! C14 — writers never hide a sink failure and tolerate short writes.
//!
//! E3, complete over the fault index: every single-threaded writer writes one small document into a
//! `vmc::env::FaultSink`; the fault-free run counts N = sink `write`+`flush` calls; then for every
//! k in 0..N call k fails (kinds Other / BrokenPipe / WriteZero / StorageFull; the sink either stays
//! broken or recovers; the caller either stops at the first error or keeps calling), call k returns
//! `Interrupted`, and three uniform short-write sinks.
//!
//! Oracle (DESIGN.md §4 C14):
//!  * fault inside an explicit noodles call  ⇒ that call or a later explicit call returns an error
//!    carrying the injected marker;
//!  * all explicit calls Ok (only possible when the fault hit a write issued from `Drop`) and the
//!    protocol contained its finishing call ⇒ the accepted bytes decode to what was written (BGZF
//!    files: also well-formed per the independent walker and ending in the EOF marker);
//!  * short / Interrupted sinks ⇒ every call Ok and bytes identical to the plain run (CRAM: equal
//!    decoded content); a dropped BGZF writer ⇒ staged data + EOF.
//!
//! The multithreaded BGZF writer is covered by the vrt-based check (C03/C14-mt), not here.

mod scenarios;

use std::{
    collections::BTreeMap,
    io,
    sync::Mutex,
};

use vmc::{
    Outcome, Violation,
    env::{FaultSink, SinkMode, is_injected},
    json,
};

use scenarios::{SCENARIOS, Scenario};

#[derive(Clone, Copy, Debug, PartialEq, Eq)]
pub enum Discipline {
    /// `?` semantics: the caller stops at the first error and drops the writer.
    Stop,
    /// The caller ignores errors and performs every remaining call of the protocol.
    Continue,
}

#[derive(Clone, Debug)]
pub enum CallResult {
    Ok,
    Err { marker: bool, kind: io::ErrorKind, msg: String },
    Panic { msg: String, file: String },
}

#[derive(Clone, Debug)]
pub struct CallRec {
    pub name: &'static str,
    /// Sink call counter before / after the explicit call.
    pub before: u64,
    pub after: u64,
    pub result: CallResult,
}

/// Records the explicit calls of one protocol run.
pub struct Proto {
    sink: FaultSink,
    discipline: Discipline,
    pub calls: Vec<CallRec>,
}

impl Proto {
    fn new(sink: FaultSink, discipline: Discipline) -> Self {
        Self { sink, discipline, calls: Vec::new() }
    }

    /// Performs one explicit call; returns whether the protocol goes on.
    pub fn call(&mut self, name: &'static str, f: impl FnOnce() -> io::Result<()>) -> bool {
        let before = self.sink.calls();
        let r = vmc::catch(f);
        let after = self.sink.calls();
        let (result, go_on) = match r {
            Ok(Ok(())) => (CallResult::Ok, true),
            Ok(Err(e)) => (
                CallResult::Err { marker: is_injected(&e), kind: e.kind(), msg: e.to_string() },
                self.discipline == Discipline::Continue,
            ),
            Err((msg, file)) => (CallResult::Panic { msg, file }, false),
        };
        self.calls.push(CallRec { name, before, after, result });
        go_on
    }
}

#[derive(Clone, Copy, Debug, PartialEq, Eq)]
enum Short {
    OneByte,
    Half,
    Alternating,
}

#[derive(Clone, Copy, Debug, PartialEq, Eq)]
enum Mode {
    Plain,
    Fail(u64, io::ErrorKind),
    Interrupt(u64),
    Short(Short),
}

#[derive(Clone, Copy, Debug)]
struct Case {
    scn: usize,
    mode: Mode,
    sticky: bool,
    disc: Discipline,
}

fn kind_name(k: io::ErrorKind) -> &'static str {
    match k {
        io::ErrorKind::Other => "Other",
        io::ErrorKind::BrokenPipe => "BrokenPipe",
        io::ErrorKind::WriteZero => "WriteZero",
        io::ErrorKind::StorageFull => "StorageFull",
        io::ErrorKind::Interrupted => "Interrupted",
        _ => "other-kind",
    }
}

fn describe(c: &Case) -> String {
    let s = &SCENARIOS[c.scn];
    let mode = match c.mode {
        Mode::Plain => "FaultSink::plain()".to_string(),
        Mode::Fail(k, kind) => format!(
            "FaultSink::new(SinkMode::FailAt({k}, io::ErrorKind::{}), None){}",
            kind_name(kind),
            if c.sticky { "" } else { ".not_sticky()" }
        ),
        Mode::Interrupt(k) => format!("FaultSink::new(SinkMode::InterruptAt({k}), None)"),
        Mode::Short(s) => format!("FaultSink::new(SinkMode::{s:?}, None)"),
    };
    format!(
        "writer={} sink={mode} caller={:?}; protocol: {}",
        s.name, c.disc, s.protocol
    )
}

struct RunOut {
    calls: Vec<CallRec>,
    bytes: Vec<u8>,
    faulted_at: Option<u64>,
    sink_calls: u64,
}

fn run_case(s: &Scenario, mode: Mode, sticky: bool, disc: Discipline) -> RunOut {
    let sm = match mode {
        Mode::Plain => SinkMode::Plain,
        Mode::Fail(k, kind) => SinkMode::FailAt(k, kind),
        Mode::Interrupt(k) => SinkMode::InterruptAt(k),
        Mode::Short(Short::OneByte) => SinkMode::OneByte,
        Mode::Short(Short::Half) => SinkMode::Half,
        Mode::Short(Short::Alternating) => SinkMode::Alternating,
    };
    let mut sink = FaultSink::new(sm, None);
    if !sticky {
        sink = sink.not_sticky();
    }
    let mut p = Proto::new(sink.clone(), disc);
    // the writer (and with it every Drop-time write) ends inside `run`
    (s.run)(sink.clone(), &mut p);
    let st = sink.state.lock().unwrap();
    RunOut {
        calls: p.calls,
        bytes: st.bytes.clone(),
        faulted_at: st.faulted_at,
        sink_calls: st.calls,
    }
}

fn calls_text(calls: &[CallRec]) -> String {
    let mut s = String::new();
    for c in calls {
        let r = match &c.result {
            CallResult::Ok => "Ok".to_string(),
            CallResult::Err { marker, kind, msg } => {
                format!("Err({kind:?}, {msg:?}{})", if *marker { ", injected" } else { "" })
            }
            CallResult::Panic { msg, file } => format!("PANIC({msg:?} in {file})"),
        };
        s.push_str(&format!("{}[sink calls {}..{}]={r}; ", c.name, c.before, c.after));
    }
    s
}

struct Plain {
    bytes: Vec<u8>,
    /// number of sink `write` + `flush` calls of the fault-free run (incl. those issued from Drop)
    n: u64,
}

#[derive(Default)]
struct ScnStats {
    runs: u64,
    surfaced_same_call: u64,
    surfaced_later_call: u64,
    fault_in_drop_file_complete: u64,
    fault_in_drop_no_finish_call: u64,
    fault_not_reached: u64,
    transparent_runs: u64,
    kind_changed: u64,
}

fn judge(
    case: &Case,
    plain: &Plain,
    out: &RunOut,
    stats: &Mutex<BTreeMap<&'static str, ScnStats>>,
    distinct: &Mutex<std::collections::HashSet<String>>,
) -> Outcome {
    let s = &SCENARIOS[case.scn];
    let viol = |fp: String, expected: &str, observed: String| -> Outcome {
        Err(Violation::new(
            format!("writer={} {fp}", s.name),
            describe(case),
            expected,
            format!("{observed}; calls: {}", calls_text(&out.calls)),
        ))
    };
    let note = |f: &dyn Fn(&mut ScnStats)| {
        let mut g = stats.lock().unwrap();
        let e = g.entry(s.name).or_default();
        e.runs += 1;
        f(e);
    };
    let note_kind = |name: &'static str| {
        stats.lock().unwrap().entry(name).or_default().kind_changed += 1;
    };
    let mode_word = match case.mode {
        Mode::Plain => "plain".to_string(),
        Mode::Fail(..) => "fail".to_string(),
        Mode::Interrupt(_) => "interrupted".to_string(),
        Mode::Short(sh) => format!("short-{sh:?}"),
    };

    // a panic is never acceptable
    if let Some(c) = out.calls.iter().find(|c| matches!(c.result, CallResult::Panic { .. })) {
        let CallResult::Panic { msg, file } = &c.result else { unreachable!() };
        let after_error = out
            .calls
            .iter()
            .take_while(|x| !std::ptr::eq(*x, c))
            .any(|x| matches!(x.result, CallResult::Err { .. }));
        return viol(
            format!(
                "mode={mode_word} call={} symptom=panic{} msg={} file={file}",
                c.name,
                if after_error { "-after-reported-error" } else { "" },
                vmc::normalise_msg(msg)
            ),
            "io::Result",
            format!("panic: {msg}"),
        );
    }

    let first_err = out.calls.iter().position(|c| matches!(c.result, CallResult::Err { .. }));
    let sig = |what: &str| {
        distinct.lock().unwrap().insert(format!("{} {mode_word} {what}", s.name));
    };

    match (case.mode, out.faulted_at) {
        (Mode::Fail(_, kind), Some(f)) => {
            let containing = out.calls.iter().position(|c| c.before <= f && f < c.after);
            match containing {
                Some(ci) => {
                    let surf = out.calls[ci..]
                        .iter()
                        .position(|c| matches!(c.result, CallResult::Err { marker: true, .. }));
                    match surf {
                        Some(d) => {
                            let c = &out.calls[ci + d];
                            // The statement asks for the error to come back, which the marker
                            // in the source chain proves; whether the ErrorKind survives is
                            // recorded, not judged (vcf::io::Writer wraps sink errors as
                            // InvalidInput with the original as source).
                            let kind_changed = matches!(&c.result, CallResult::Err { kind: got, .. } if d == 0 && *got != kind);
                            if kind_changed {
                                note_kind(s.name);
                            }
                            note(&|e| {
                                if d == 0 {
                                    e.surfaced_same_call += 1
                                } else {
                                    e.surfaced_later_call += 1
                                }
                            });
                            sig(&format!(
                                "fault-in={} surfaced-by={}",
                                out.calls[ci].name, c.name
                            ));
                            Ok(())
                        }
                        None => {
                            let any_err = out.calls[ci..]
                                .iter()
                                .any(|c| matches!(c.result, CallResult::Err { .. }));
                            let symptom = if any_err { "error-without-marker" } else { "swallowed" };
                            viol(
                                format!(
                                    "mode={mode_word} call={} symptom={symptom}",
                                    out.calls[ci].name
                                ),
                                "the call containing the failed sink call, or a later explicit call, returns the injected error",
                                format!("sink call {f} failed inside `{}`; no explicit call returned it", out.calls[ci].name),
                            )
                        }
                    }
                }
                None => {
                    // the fault hit a write issued from Drop: nobody can be told
                    if first_err.is_some() {
                        return viol(
                            format!("mode={mode_word} symptom=error-before-any-fault"),
                            "Ok from every call that ran before the fault",
                            "an explicit call failed although the sink had not failed yet".into(),
                        );
                    }
                    if s.complete {
                        if let Err(e) = (s.verify)(&out.bytes) {
                            return viol(
                                format!(
                                    "mode={mode_word} symptom=all-calls-ok-but-file-incomplete fault-in=drop"
                                ),
                                "all explicit calls (incl. the finishing call) returned Ok ⇒ the accepted bytes are a complete file that decodes to what was written",
                                format!("sink call {f} (issued from Drop) failed; accepted {} bytes: {e}", out.bytes.len()),
                            );
                        }
                        note(&|e| e.fault_in_drop_file_complete += 1);
                        sig("fault-in=drop file-complete");
                    } else {
                        note(&|e| e.fault_in_drop_no_finish_call += 1);
                        sig("fault-in=drop no-finish-call");
                    }
                    Ok(())
                }
            }
        }
        (Mode::Fail(..), None) | (Mode::Plain, _) | (Mode::Interrupt(_), _) | (Mode::Short(_), _) => {
            // nothing failed: the run must be indistinguishable from the plain run
            if let Some(i) = first_err {
                let c = &out.calls[i];
                let CallResult::Err { kind, .. } = &c.result else { unreachable!() };
                return viol(
                    format!("mode={mode_word} call={} symptom=spurious-error kind={kind:?}", c.name),
                    "Ok (short writes and Interrupted are retried by write_all)",
                    "an explicit call failed although the sink never failed".into(),
                );
            }
            if matches!(case.mode, Mode::Fail(..)) {
                note(&|e| e.fault_not_reached += 1);
            }
            if s.byte_identical {
                if out.bytes != plain.bytes {
                    return viol(
                        format!("mode={mode_word} symptom=bytes-differ-from-plain-run"),
                        "byte-identical output",
                        vmc::diff_bytes(&plain.bytes, &out.bytes),
                    );
                }
            }
            // the plain bytes were verified once; non-identical (CRAM) output is decoded every time
            if !s.byte_identical || matches!(case.mode, Mode::Plain) {
                if let Err(e) = (s.verify)(&out.bytes) {
                    return viol(
                        format!(
                            "mode={mode_word} symptom=does-not-decode-to-what-was-written what={}",
                            vmc::normalise_msg(e.split(':').next().unwrap_or(""))
                        ),
                        "the accepted bytes decode to exactly what was written",
                        e,
                    );
                }
            }
            note(&|e| e.transparent_runs += 1);
            sig("transparent");
            Ok(())
        }
    }
}

fn main() {
    vmc::run("C14", "fault_enumeration", |ctx| {
        ctx.rule(
            "for every single-threaded writer scenario: fault-free run counts N sink calls; cases = \
             {call k fails, k in 0..N} x ErrorKind x {sink stays broken, sink recovers} x {caller stops at \
             first error, caller keeps calling} + {Interrupted at k, k in 0..N} + {1-byte, half, alternating \
             short-write sinks} + plain; distinct = (writer, mode, explicit call containing the fault, explicit \
             call that reported it / transparent / fault-in-drop) combinations observed",
        );
        ctx.assume("vmc::env::FaultSink implements the std::io::Write contract (never reports more bytes than it stored)");
        ctx.assume("the noodles readers used for decoding are correct on well-formed files (C01, C05-C10, C17, C18 check them); BGZF files are additionally walked by the independent miniz_oxide/crc32fast walker");
        ctx.assume("multithreaded BGZF writer excluded here (controlled-scheduler check)");

        // ---- fault-free reference runs
        let mut plains: Vec<Plain> = Vec::new();
        let mut n_table = BTreeMap::new();
        for s in SCENARIOS.iter() {
            let out = run_case(s, Mode::Plain, true, Discipline::Stop);
            let explicit_end = out.calls.last().map(|c| c.after).unwrap_or(0);
            // N must be reproducible for the case list to be replayable (CRAM hash order!)
            let mut n = out.sink_calls;
            for _ in 0..2 {
                let again = run_case(s, Mode::Plain, true, Discipline::Stop);
                n = n.max(again.sink_calls);
            }
            n_table.insert(
                s.name.to_string(),
                json!({"sink_calls": n, "explicit_calls": out.calls.len(), "sink_calls_from_drop": out.sink_calls - explicit_end, "bytes": out.bytes.len()}),
            );
            plains.push(Plain { bytes: out.bytes, n });
        }
        ctx.extra("scenarios", json!(n_table));

        // ---- the case list
        use io::ErrorKind as K;
        let kinds_all = [K::Other, K::BrokenPipe, K::WriteZero, K::StorageFull];
        let mut cases: Vec<Case> = Vec::new();
        for (i, p) in plains.iter().enumerate() {
            cases.push(Case { scn: i, mode: Mode::Plain, sticky: true, disc: Discipline::Stop });
            for sh in [Short::OneByte, Short::Half, Short::Alternating] {
                cases.push(Case { scn: i, mode: Mode::Short(sh), sticky: true, disc: Discipline::Stop });
            }
            for k in 0..p.n {
                cases.push(Case { scn: i, mode: Mode::Interrupt(k), sticky: true, disc: Discipline::Stop });
                for kind in kinds_all {
                    let selected = ctx.thorough()
                        || kind == K::Other
                        || k == 0
                        || k == p.n / 2
                        || k == p.n - 1;
                    if !selected {
                        continue;
                    }
                    for sticky in [true, false] {
                        for disc in [Discipline::Stop, Discipline::Continue] {
                            cases.push(Case { scn: i, mode: Mode::Fail(k, kind), sticky, disc });
                        }
                    }
                }
            }
        }

        let stats: Mutex<BTreeMap<&'static str, ScnStats>> = Mutex::new(BTreeMap::new());
        let distinct = Mutex::new(std::collections::HashSet::new());
        let name = if ctx.quick() { "fault_index_quick" } else { "fault_index_full" };
        ctx.sweep(
            name,
            cases.len() as u64,
            |i| describe(&cases[i as usize]),
            |i| {
                let c = &cases[i as usize];
                let s = &SCENARIOS[c.scn];
                let out = run_case(s, c.mode, c.sticky, c.disc);
                judge(c, &plains[c.scn], &out, &stats, &distinct)
            },
        );
        let d = distinct.lock().unwrap().len() as u64;
        ctx.add_distinct(d, d);
        let st = stats.lock().unwrap();
        let per: BTreeMap<String, vmc::serde_json::Value> = st
            .iter()
            .map(|(k, v)| {
                (
                    k.to_string(),
                    json!({
                        "runs": v.runs,
                        "fault_surfaced_by_the_failing_call": v.surfaced_same_call,
                        "fault_surfaced_by_a_later_call": v.surfaced_later_call,
                        "fault_in_drop_file_complete": v.fault_in_drop_file_complete,
                        "fault_in_drop_protocol_without_finish": v.fault_in_drop_no_finish_call,
                        "fault_index_not_reached": v.fault_not_reached,
                        "transparent_runs(plain/short/interrupted)": v.transparent_runs,
                        "fault_surfaced_with_a_different_ErrorKind(source_chain_keeps_it)": v.kind_changed,
                    }),
                )
            })
            .collect();
        ctx.extra("per_writer", json!(per));
    });
}
