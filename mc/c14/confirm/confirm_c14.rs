// Standalone confirmation (public API + a 20-line sink; no vmc).
use std::{cell::RefCell, io::{self, Write}, rc::Rc};
use noodles_bam as bam;
use noodles_cram as cram;
use noodles_sam::{self as sam, alignment::io::Write as _, alignment::RecordBuf};

#[derive(Clone, Default)]
struct Sink { bytes: Rc<RefCell<Vec<u8>>>, calls: Rc<RefCell<usize>>, fail_at: Option<usize>, interrupt_at: Option<usize> }
impl Write for Sink {
    fn write(&mut self, buf: &[u8]) -> io::Result<usize> {
        let k = *self.calls.borrow(); *self.calls.borrow_mut() += 1;
        if Some(k) == self.fail_at { return Err(io::Error::new(io::ErrorKind::StorageFull, "disk full")); }
        if Some(k) == self.interrupt_at { return Err(io::Error::from(io::ErrorKind::Interrupted)); }
        self.bytes.borrow_mut().extend_from_slice(buf); Ok(buf.len())
    }
    fn flush(&mut self) -> io::Result<()> { Ok(()) }
}

fn main() -> Result<(), Box<dyn std::error::Error>> {
    let header = sam::Header::default();
    let record = RecordBuf::default();

    // 1. bam::io::Writer through the documented trait protocol ("A call to finish must be made before the writer is dropped")
    let sink = Sink { fail_at: Some(0), ..Default::default() };
    {
        let mut w = bam::io::Writer::new(sink.clone());
        w.write_alignment_header(&header)?;
        w.write_alignment_record(&header, &record)?;
        w.finish(&header)?;                       // Ok(())
    }                                             // <- all writing happens here, error discarded
    println!("bam trait finish: every call Ok; sink holds {} bytes (disk was full)", sink.bytes.borrow().len());

    // 2. noodles-util generic writer, plain SAM: finish() is the only shutdown call it has
    let sink = Sink { fail_at: Some(0), ..Default::default() };
    {
        let mut w = noodles_util::alignment::io::writer::Builder::default()
            .set_format(noodles_util::alignment::io::Format::Sam)
            .build_from_writer(sink.clone())?;
        w.write_header(&header)?;
        w.write_record(&header, &record)?;
        w.finish(&header)?;
    }
    println!("util sam finish: every call Ok; sink holds {} bytes (disk was full)", sink.bytes.borrow().len());

    // 3. crai writer: one EINTR during finish() is fatal (and finish consumed the writer)
    let sink = Sink { interrupt_at: Some(1), ..Default::default() };
    let mut w = cram::crai::io::Writer::new(sink.clone());
    w.write_index(&[cram::crai::Record::default()])?;
    let r = w.finish();
    println!("crai finish with one Interrupted: {:?}; sink holds {} bytes", r.as_ref().map(|_| ()).map_err(|e| e.kind()), sink.bytes.borrow().len());
    Ok(())
}
