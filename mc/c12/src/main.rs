fn main() {
    println!("MACHINERY-ERROR property=C12 check not built yet");
    std::process::exit(2);
}
