//! C12 — decoded content does not depend on how the underlying stream chunks its reads.
//!
//! For every corpus document (vnd::corpus, written at run time by the sync noodles writers) and every
//! reader API, the result log (header, every record rendered with every accessor, virtual positions, error
//! kind / EOF) obtained through an adversarial byte source must equal the log from the plain slice.
//!
//! Harnesses (all E1, all exhaustive within the stated bound):
//! * `choose`   — `ChunkReader` in `ReadMode::Choose`: every read call is a deviation point with the menu
//!   {full, 1 byte, up to / one past / one short of the next structural boundary, half, Interrupted};
//!   all schedules with <= bound deviations. Run on the (doc, api, wrapper) combinations whose fault-free
//!   run issues <= SMALL read calls.
//! * `deviate`  — the same menu at every call index of the combinations with more read calls, enumerated as
//!   free choices (call index, menu entry) through `ReadMode::DeviateAt` — exactly the bound-1 schedule set
//!   of `choose`, without keeping thousands of replay prefixes alive.
//! * `windows`  — `ChunkBufRead` (`fill_buf` windows chosen by the explorer) in `ReadMode::Choose`.
//! * `crlf_twins` — the CRLF twin of every text document (plain and bgzipped), eager and lazy, with a refill
//!   boundary (fill_buf window end / BGZF member end) at every offset of the file, plus BufReader capacities
//!   1..=48 (thorough 4096); must read like the twin in one piece, which must read like the LF document.
//! * `indexed`  — the indexed-access drivers of vnd::query (BAM+BAI, BCF+CSI, VCF.gz / GFF.gz / GTF.gz / BED.gz +
//!   tabix, SAM.gz+CSI, FASTA.gz+fai+gzi, CRAM+crai) over `ChunkReader` (Read + Seek): Interrupted before every
//!   read, Interrupted / a short transfer at exactly the k-th read call for every k, 1-byte and irregular reads;
//!   the driver retries Interrupted as std's helpers do; the log must equal the one over the plain source.
//! * `eof_calls` — Interrupted in place of every read call that observes the end of the input (documents and
//!   indexes, every api, direct and BufReader 1 / 17 / 8192): the transfer menus above only decide calls that
//!   deliver bytes.
//! * `member_layouts` — the BGZF member layout as the adversary: every small BGZF-compressed index (tabix, CSI) and
//!   data document (BAM, BCF, SAM.gz, VCF.gz) re-compressed with a member boundary / an empty member at every
//!   uncompressed offset and with 1-byte members; sync APIs and the async reader; oracle: the single-member log.
//! * `uniform`  — OneByte / InterruptEvery / Irregular / a fixed pattern, over every wrapper, including the
//!   > 64 KiB documents.

use std::{
    collections::HashMap,
    io::{self, BufRead, Read},
    sync::{Arc, Mutex},
};

use vmc::{
    Chooser, Config, Outcome, Violation,
    env::{ChunkBufRead, ChunkReader, ReadMode},
};
use vnd::{Api, Doc, Format, Opts};

const SMALL: usize = 120;
const MAX_CALLS: usize = 6000;

#[derive(Clone, Copy, Debug, PartialEq, Eq, Hash)]
enum Wrap {
    /// The reader sits directly on the adversary (formats whose reader takes a `Read`).
    Direct,
    /// `std::io::BufReader::with_capacity(c, adversary)`.
    Buf(usize),
}

impl Wrap {
    fn name(self) -> String {
        match self {
            Wrap::Direct => "direct".into(),
            Wrap::Buf(c) => format!("bufreader{c}"),
        }
    }
    fn class(self) -> &'static str {
        match self {
            Wrap::Direct => "direct",
            Wrap::Buf(c) if c <= 8 => "bufreader-tiny",
            Wrap::Buf(c) if c <= 64 => "bufreader-small",
            Wrap::Buf(_) => "bufreader-large",
        }
    }
}

fn opts(doc: &Doc, api: Api, wrap: Wrap) -> Opts {
    Opts::for_doc(doc).api(api).capacity(match wrap {
        Wrap::Direct => None,
        Wrap::Buf(c) => Some(c),
    })
}

fn run_reader(doc: &Doc, api: Api, wrap: Wrap, mode: ReadMode, ch: Option<Chooser>) -> (Vec<String>, Vec<usize>) {
    let r = ChunkReader::new(doc.bytes.clone(), mode, ch).with_boundaries(doc.boundaries.clone());
    let env = r.log.clone();
    let log = vnd::read_log(doc.format, r, &opts(doc, api, wrap));
    let env = env.lock().unwrap().clone();
    (log, env)
}

/// A `BufRead` adapter that records the window lengths `fill_buf` exposed and the amounts consumed.
struct LogBuf<R> {
    inner: R,
    log: Arc<Mutex<Vec<usize>>>,
}

impl<R: BufRead> Read for LogBuf<R> {
    fn read(&mut self, buf: &mut [u8]) -> io::Result<usize> {
        let src = self.fill_buf()?;
        let n = src.len().min(buf.len());
        buf[..n].copy_from_slice(&src[..n]);
        self.consume(n);
        Ok(n)
    }
}

impl<R: BufRead> BufRead for LogBuf<R> {
    fn fill_buf(&mut self) -> io::Result<&[u8]> {
        let b = self.inner.fill_buf()?;
        let mut g = self.log.lock().unwrap();
        // record a window when it changes (fill_buf is called repeatedly on the same window)
        if g.last().copied() != Some(b.len()) {
            g.push(b.len());
        }
        Ok(b)
    }
    fn consume(&mut self, amt: usize) {
        self.log.lock().unwrap().push(usize::MAX - amt);
        self.inner.consume(amt)
    }
}

/// A `Read` over a byte slice that answers `Interrupted` (once) in place of chosen end-of-input observations: the
/// `target`-th read call that would return `Ok(0)` for a non-empty buffer (`None`: every one). The vmc adversaries
/// decide only calls that transfer bytes; the calls that detect the end of the input are decided here.
struct EofInterrupt {
    data: Arc<Vec<u8>>,
    pos: usize,
    target: Option<usize>,
    /// `target == None`: number of injections left (a reader that restarts a multi-call step on Interrupted
    /// observes the end again and again: an unbounded "before every observation" would never let it finish).
    budget: usize,
    /// End-of-input observations delivered so far (calls that returned Ok(0)).
    eof_seen: usize,
    just_injected: bool,
    /// One entry per read call: bytes transferred, 0 = Ok(0) at the end, usize::MAX = Interrupted.
    log: Arc<Mutex<Vec<usize>>>,
}

impl EofInterrupt {
    fn new(data: Arc<Vec<u8>>, target: Option<usize>) -> Self {
        Self { data, pos: 0, target, budget: 0, eof_seen: 0, just_injected: false, log: Arc::new(Mutex::new(Vec::new())) }
    }
}

impl Read for EofInterrupt {
    fn read(&mut self, buf: &mut [u8]) -> io::Result<usize> {
        if buf.is_empty() {
            return Ok(0);
        }
        let n = (self.data.len() - self.pos).min(buf.len());
        if n > 0 {
            buf[..n].copy_from_slice(&self.data[self.pos..self.pos + n]);
            self.pos += n;
            self.log.lock().unwrap().push(n);
            return Ok(n);
        }
        let inject = !self.just_injected
            && match self.target {
                None => self.budget > 0,
                Some(t) => t == self.eof_seen,
            };
        if inject {
            self.budget = self.budget.saturating_sub(1);
            self.just_injected = true;
            self.log.lock().unwrap().push(usize::MAX);
            return Err(io::Error::from(io::ErrorKind::Interrupted));
        }
        self.just_injected = false;
        self.eof_seen += 1;
        self.log.lock().unwrap().push(0);
        Ok(0)
    }
}

fn line_kind(l: &str) -> &str {
    let k = l.split([':', '[']).next().unwrap_or("?");
    if k.len() > 12 { "?" } else { k }
}

fn short(s: &str) -> String {
    if s.len() > 300 {
        let mut e = 300;
        while !s.is_char_boundary(e) {
            e -= 1;
        }
        format!("{}…", &s[..e])
    } else {
        s.to_string()
    }
}

/// Compares a log with the specification log; `None` when equal.
fn compare(spec: &[String], got: &[String]) -> Option<(String, String, String)> {
    if spec == got {
        return None;
    }
    let i = spec.iter().zip(got.iter()).position(|(a, b)| a != b).unwrap_or(spec.len().min(got.len()));
    let a = spec.get(i).map(|s| s.as_str()).unwrap_or("<nothing>");
    let b = got.get(i).map(|s| s.as_str()).unwrap_or("<nothing>");
    let kind = |l: &str| l.split("kind=").nth(1).and_then(|r| r.split(' ').next()).unwrap_or("?").to_string();
    let symptom = if vnd::is_end_eof(b) && !vnd::is_end_eof(a) {
        format!("premature-eof-at-{}", line_kind(a))
    } else if vnd::is_end_err(b) && !vnd::is_end_err(a) {
        format!("error-at-{} kind={}", line_kind(a), kind(b))
    } else if vnd::is_end_err(b) && vnd::is_end_err(a) {
        format!("different-error kind={}", kind(b))
    } else if vnd::is_end_err(a) || vnd::is_end_eof(a) {
        format!("continues-past-end-with-{}", line_kind(b))
    } else {
        format!("{}-differs", line_kind(a))
    };
    Some((symptom, format!("item {i}: {}", short(a)), format!("item {i}: {}", short(b))))
}

fn env_summary(env: &[usize]) -> String {
    let mut s = String::new();
    let mut i = 0;
    while i < env.len() && s.len() < 400 {
        let mut j = i;
        while j < env.len() && env[j] == env[i] {
            j += 1;
        }
        let v = if env[i] == 0 { "I".to_string() } else { env[i].to_string() };
        if j - i > 1 {
            s.push_str(&format!("{v}x{} ", j - i));
        } else {
            s.push_str(&format!("{v} "));
        }
        i = j;
    }
    if i < env.len() {
        s.push('…');
    }
    s
}

fn violation(doc: &Doc, api: Api, wrap: &str, wrap_class: &str, adversary: &str, env: &[usize], d: (String, String, String)) -> Violation {
    let (symptom, exp, obs) = d;
    Violation::new(
        format!("format={} api={api:?} symptom={symptom}", doc.format),
        format!(
            "doc={} ({} bytes, set {}) api={api:?} wrap={wrap} ({wrap_class}) adversary={adversary} read sizes delivered (I = Interrupted): {}; bytes (hex): {}",
            doc.name,
            doc.bytes.len(),
            doc.set,
            env_summary(env),
            if doc.bytes.len() <= 1600 { hex_full(&doc.bytes) } else { format!("{}… (regenerate with vnd::corpus)", vmc::hex(&doc.bytes)) }
        ),
        format!("same log as from the plain slice; {exp}"),
        obs,
    )
}

fn hex_full(b: &[u8]) -> String {
    b.iter().map(|x| format!("{x:02x}")).collect()
}

/// Size of `ChunkReader`'s menu for a transfer of at most `n` bytes at `pos` (not directly after an
/// `Interrupted`). Mirrors `vmc::env::ChunkReader::menu`; used only to avoid enumerating duplicate entries.
fn menu_len(pos: usize, n: usize, boundaries: &[usize]) -> usize {
    let mut m: Vec<Option<usize>> = vec![Some(n)];
    let mut push = |k: usize| {
        if k >= 1 && k <= n && !m.contains(&Some(k)) {
            m.push(Some(k));
        }
    };
    push(1);
    let i = boundaries.partition_point(|&b| b <= pos);
    if let Some(&b) = boundaries.get(i) {
        let d = b - pos;
        push(d);
        push(d + 1);
        if d > 1 {
            push(d - 1);
        }
    }
    push(n / 2);
    m.len() + 1
}

struct Combo {
    doc: usize,
    api: Api,
    wrap: Wrap,
    /// Sizes delivered in the fault-free (Full) run.
    sizes: Vec<usize>,
}

fn main() {
    vmc::run("C12", "fault_enumeration", |ctx| {
        let n_corpus = vnd::corpus(ctx.thorough()).len();
        let mut docs = vnd::corpus(ctx.thorough());
        // hand-built legal layouts that noodles does not write itself, and bgzipped indexed text (see vnd::extra)
        docs.extend(vnd::extra(ctx.thorough()));
        let all_caps: Vec<usize> = vec![1, 2, 3, 5, 8, 17, 64, 8192, 65536];
        let quick_caps: Vec<usize> = vec![1, 2, 3, 5, 8, 17, 64, 8192, 65536];
        let caps = ctx.by_tier(quick_caps, all_caps);
        ctx.rule(format!(
            "corpus documents x reader APIs x wrappers (direct, BufReader capacities {caps:?}, ChunkBufRead windows) x delivery schedules: every schedule with <= bound deviations from full transfers over the read calls of a run at every call index (menu: 1 byte / to, past, short of the next structural boundary / half / Interrupted), plus uniform adversaries; distinct = distinct sequences of transfer sizes the environment delivered"
        ));
        ctx.assume("the plain-slice run of the same sync noodles reader is the specification (the property is about independence from delivery, not about decoding correctness)");
        ctx.assume("std::io::BufReader is correct");
        ctx.assume("CRAM documents differ byte-wise between processes (std RandomState in the CRAM writer): replay by choice index addresses the same structural position, not necessarily the same byte values");

        // by-path producers of the corpus (sam::fs::index over File + BGZF windows): a valid document the producer
        // rejects although it accepts the same uncompressed stream re-blocked as ONE BGZF member is a delivery
        // dependence (recorded by vnd::corpus instead of stopping the run; see vnd::ByPathFailure)
        {
            let fails = vnd::by_path_failures();
            let n = fails.len().max(1) as u64;
            let f2 = fails.clone();
            ctx.sweep(
                "by_path",
                n,
                move |i| f2.get(i as usize).map(|f| format!("{} on {}", f.producer, f.doc)).unwrap_or_else(|| "all by-path producers accepted every corpus document".into()),
                move |i| match fails.get(i as usize) {
                    None => Ok(()),
                    Some(f) => Err(Violation::new(
                        format!("api=by-path producer={} symptom=rejected-as-written-accepted-as-one-member", f.producer),
                        format!("corpus document {} (valid, written by the noodles writer, header flushed into its own BGZF member) through {} by path", f.doc, f.producer),
                        "the same result as for the same uncompressed stream in a single BGZF member (Ok)".to_string(),
                        format!("Err({})", f.error),
                    )),
                },
            );
        }

        // specification logs
        let mut spec: HashMap<(usize, Api), Arc<Vec<String>>> = HashMap::new();
        let mut spec_layout: Vec<(String, String, String, String)> = Vec::new();
        for (i, d) in docs.iter().enumerate() {
            for &api in Api::all_for(d.format) {
                let log = vnd::read_log(d.format, &d.bytes[..], &Opts::for_doc(d).api(api));
                let last = log.last().cloned().unwrap_or_default();
                let crai_eager = d.format == Format::Crai && api == Api::Eager;
                if !vnd::is_end_eof(&last) && !crai_eager && i < n_corpus {
                    // a valid document written by the noodles writer that its reader rejects: a machinery error,
                    // unless the reader accepts the SAME uncompressed stream as a single BGZF member -- then the
                    // outcome depends on the member layout, i.e. on how the bytes are delivered
                    let relaid = d.inner.as_ref().and_then(|inner| {
                        use std::io::Write as _;
                        let mut w = noodles_bgzf::io::Writer::new(Vec::new());
                        w.write_all(&inner.bytes).ok()?;
                        let one = w.finish().ok()?;
                        let log2 = vnd::read_log(d.format, &one[..], &Opts::for_doc(d).api(api));
                        log2.last().filter(|l| vnd::is_end_eof(l)).map(|_| ())
                    });
                    if relaid.is_none() {
                        vmc::machinery(format!("corpus document {} does not read cleanly from a plain slice with {api:?}: {last}", d.name));
                    }
                    spec_layout.push((d.name.clone(), format!("{}", d.format), format!("{api:?}"), last.clone()));
                }
                spec.insert((i, api), Arc::new(log));
            }
        }
        {
            let n = spec_layout.len().max(1) as u64;
            let (a, b) = (spec_layout.clone(), spec_layout.clone());
            ctx.sweep(
                "written_layout",
                n,
                move |i| a.get(i as usize).map(|f| format!("{} with {}", f.0, f.2)).unwrap_or_else(|| "every corpus document reads cleanly in the member layout it was written in".into()),
                move |i| match b.get(i as usize) {
                    None => Ok(()),
                    Some(f) => Err(Violation::new(
                        format!("format={} api={} symptom=rejected-as-written-accepted-as-one-member", f.1, f.2),
                        format!("corpus document {} (valid, written by the noodles writer with flushes between header and records) read from a plain slice", f.0),
                        "end: EOF, as for the same uncompressed stream in a single BGZF member".to_string(),
                        f.3.clone(),
                    )),
                },
            );
            if !spec_layout.is_empty() {
                // the specification logs of these documents are unusable; the verdict above stands on its own
                return;
            }
        }

        // combinations and their fault-free call sequences
        let mut combos: Vec<Combo> = Vec::new();
        for (i, d) in docs.iter().enumerate() {
            let mut wraps: Vec<Wrap> = Vec::new();
            if !d.format.needs_bufread() {
                wraps.push(Wrap::Direct);
            }
            for &c in &caps {
                if d.big && c < 64 {
                    continue;
                }
                wraps.push(Wrap::Buf(c));
            }
            for &api in Api::all_for(d.format) {
                for &w in &wraps {
                    let (log, env) = run_reader(d, api, w, ReadMode::Full, None);
                    // a difference here is a capacity dependence; it is reported by the `uniform` harness (mode full)
                    let _ = log;
                    combos.push(Combo { doc: i, api, wrap: w, sizes: env });
                }
            }
        }
        let small: Vec<usize> = (0..combos.len()).filter(|&i| combos[i].sizes.len() <= SMALL).collect();
        let large: Vec<usize> = (0..combos.len()).filter(|&i| combos[i].sizes.len() > SMALL && combos[i].sizes.len() <= MAX_CALLS).collect();
        let skipped: Vec<String> = combos
            .iter()
            .filter(|c| c.sizes.len() > MAX_CALLS)
            .map(|c| format!("{}/{:?}/{}({} calls)", docs[c.doc].name, c.api, c.wrap.name(), c.sizes.len()))
            .collect();
        ctx.extra("combinations", vmc::json!({
            "total": combos.len(), "choose(<=120 calls)": small.len(), "deviate(>120 calls)": large.len(),
            "only_uniform(>6000 calls)": skipped,
            "read_calls_per_run_max": combos.iter().map(|c| c.sizes.len()).max(),
            "documents": docs.len(),
        }));

        // ---- layouts: a hand-built legal layout reads (from the plain slice) like the noodles-written document
        //      with the same content (virtual positions aside)
        {
            let (docs, spec) = (&docs, &spec);
            let hand: Vec<usize> = (n_corpus..docs.len()).collect();
            let hand = &hand;
            ctx.harness(Config::new("layouts", 0), move |ch: &Chooser| -> Outcome {
                let di = *ch.pick_free("doc", hand);
                let d = &docs[di];
                let api = *ch.pick_free("api", Api::all_for(d.format));
                ch.desc(|| format!("doc={} api={api:?} equivalent-of={:?}", d.name, d.equiv_of));
                let got = &spec[&(di, api)];
                ch.obs_hash((di, api, got.len()));
                let strip = |l: &String| -> String {
                    // BGZF payload lines carry "vpos=c:u" in the middle
                    if let Some(p) = l.find(" vpos=") {
                        let rest = &l[p + 6..];
                        let n = rest.bytes().take_while(|c| c.is_ascii_digit() || *c == b':').count();
                        return format!("{}{}", &l[..p], &rest[n..]);
                    }
                    match l.rfind(" @") {
                        Some(p) if l[p + 2..].bytes().all(|c| c.is_ascii_digit() || c == b':') => l[..p].to_string(),
                        _ => l.clone(),
                    }
                };
                let last = got.last().cloned().unwrap_or_default();
                if !vnd::is_end_eof(&last) && !(d.format == Format::Crai && api == Api::Eager) {
                    return Err(violation(d, api, "plain-slice", "plain-slice", "none", &[], ("legal-layout-not-read".into(), "end: EOF".into(), short(&last))));
                }
                if let Some(base) = d.equiv_of.as_ref().and_then(|n| docs.iter().position(|x| &x.name == n)) {
                    let want: Vec<String> = spec[&(base, api)].iter().map(strip).collect();
                    let have: Vec<String> = got.iter().map(strip).collect();
                    if let Some(diff) = compare(&want, &have) {
                        let (sym, e, o) = diff;
                        return Err(violation(d, api, "plain-slice", "plain-slice", "none", &[], (format!("legal-layout-{sym}"), e, o)));
                    }
                }
                Ok(())
            });
        }

        // ---- adapters: the public raw sub-reader adapters (header_reader() of SAM / VCF / BAM / BCF / CRAM readers)
        //      pulled through Read::read with fixed destination sizes, read_to_end and the BufRead side, under the
        //      adversaries (uniform + one deviation at every call); the raw bytes must equal the header text of the
        //      document (independent structural parse) and the records read afterwards must be the document's records
        {
            use vnd::adapter::{self, How, RefHeader};
            #[derive(Clone, Copy, Debug, PartialEq, Eq, Hash)]
            enum AWrap {
                Buf(usize),
                Windows,
            }
            struct ACombo {
                doc: usize,
                how: How,
                wrap: AWrap,
                sizes: Vec<usize>,
            }
            let quick_docs = ["sam-mapped", "sam-full-crlf", "vcf-sites", "vcf-two-samples-crlf", "samgz-mapped-f2", "vcfgz-sites-f2", "bam-mapped-f2", "bam-padded64-split", "bamraw-padded64", "bcf-sites-f2", "bcfraw-padded64", "cram-mapped-rps3", "sam-mapped-no-final-newline", "vcf-sites-no-final-newline"];
            let mut adocs: Vec<(usize, RefHeader, Vec<String>)> = Vec::new();
            for (i, d) in docs.iter().enumerate() {
                if !adapter::has_adapter(d) || d.big || d.name.starts_with("eng-") || (ctx.quick() && !quick_docs.contains(&d.name.as_str())) {
                    continue;
                }
                let (Some(text), Ok(h)) = (adapter::expected_header_text(d), adapter::reference_header(d)) else { continue };
                let mut o = Opts::for_doc(d).api(Api::Eager);
                o.vpos = false;
                let spec = vnd::read_log(d.format, &d.bytes[..], &o);
                let mut want = vec![adapter::raw_line(&text)];
                if d.format == Format::Bam {
                    if let RefHeader::Sam(sh) = &h {
                        want.push(format!("refs: n={} [{}]", sh.reference_sequences().len(), sh.reference_sequences().keys().map(|k| vnd::esc(k)).collect::<Vec<_>>().join(",")));
                    }
                }
                want.extend(spec.iter().skip(1).cloned());
                adocs.push((i, h, want));
            }
            let run_adapter = |d: &Doc, h: &RefHeader, how: How, wrap: AWrap, mode: ReadMode| -> (Vec<String>, Vec<usize>) {
                let mut o = Opts::for_doc(d).api(Api::Eager);
                o.vpos = false;
                match wrap {
                    AWrap::Buf(c) => {
                        let r = ChunkReader::new(d.bytes.clone(), mode, None).with_boundaries(d.boundaries.clone());
                        let env = r.log.clone();
                        let log = adapter::adapter_log(d.format, d.raw, io::BufReader::with_capacity(c, r), &o, how, h);
                        let env = env.lock().unwrap().clone();
                        (log, env)
                    }
                    AWrap::Windows => {
                        let inner = ChunkBufRead::new(d.bytes.clone(), mode, None).with_boundaries(d.boundaries.clone());
                        let wl = Arc::new(Mutex::new(Vec::new()));
                        let log = adapter::adapter_log(d.format, d.raw, LogBuf { inner, log: wl.clone() }, &o, how, h);
                        let env: Vec<usize> = wl.lock().unwrap().iter().copied().filter(|&x| x < usize::MAX / 2).collect();
                        (log, env)
                    }
                }
            };
            let mut acombos: Vec<ACombo> = Vec::new();
            for (ai, (i, h, _)) in adocs.iter().enumerate() {
                let d = &docs[*i];
                let text = adapter::expected_header_text(d).unwrap_or_default();
                let mut lens: Vec<usize> = text.split_inclusive(|&c| c == b'\n').map(|l| l.len()).collect();
                lens.sort_unstable();
                lens.dedup();
                let lmax = lens.last().copied().unwrap_or(10);
                let lmin = lens.first().copied().unwrap_or(10);
                let mut hows = vec![How::Read(1), How::Read(3), How::Read(lmax + 1), How::Read(8192), How::Read(8193), How::ReadToEnd, How::FillBuf];
                if ctx.thorough() {
                    for n in [2, lmin.saturating_sub(1).max(1), lmin, lmin + 1, lmax.saturating_sub(1).max(1), lmax, 8191] {
                        if !hows.contains(&How::Read(n)) {
                            hows.push(How::Read(n));
                        }
                    }
                }
                let wraps: Vec<AWrap> = if d.format.needs_bufread() {
                    let mut w = vec![AWrap::Buf(3), AWrap::Buf(17), AWrap::Buf(64), AWrap::Buf(8192), AWrap::Windows];
                    if ctx.thorough() {
                        w.push(AWrap::Buf(1));
                    }
                    w
                } else {
                    // capacity 0 = every read goes straight to the adversary
                    vec![AWrap::Buf(0), AWrap::Buf(64), AWrap::Buf(8192)]
                };
                for &how in &hows {
                    for &wrap in &wraps {
                        let (_, sizes) = run_adapter(d, h, how, wrap, ReadMode::Full);
                        acombos.push(ACombo { doc: ai, how, wrap, sizes });
                    }
                }
            }
            let fixed: Vec<(ReadMode, &'static str)> = vec![
                (ReadMode::Full, "full-transfers"),
                (ReadMode::OneByte, "one-byte"),
                (ReadMode::InterruptEvery, "interrupt-every"),
                (ReadMode::Irregular, "irregular"),
                (ReadMode::Pattern(vec![18, 1, 8, 0, 4096]), "pattern"),
                (ReadMode::Pattern(vec![64, 0, 64, 64, 0, 1]), "pattern"),
            ];
            let (docs, adocs, acombos, fixed, run_adapter) = (&docs, &adocs, &acombos, &fixed, &run_adapter);
            let all: Vec<usize> = (0..acombos.len()).collect();
            let all = &all;
            ctx.harness(Config::new("adapters", 0), move |ch: &Chooser| -> Outcome {
                let c = &acombos[*ch.pick_free("combo", all)];
                let (di, h, want) = &adocs[c.doc];
                let d = &docs[*di];
                let n_dev = if c.sizes.len() <= 1500 { c.sizes.len() } else { 0 };
                let m = ch.free("adversary", fixed.len() + n_dev);
                let (mode, name) = if m < fixed.len() {
                    fixed[m].clone()
                } else {
                    let k = m - fixed.len();
                    let alt = match c.wrap {
                        AWrap::Buf(_) => {
                            let pos: usize = c.sizes[..k].iter().sum();
                            1 + ch.free("alt", menu_len(pos, c.sizes[k].max(1), &d.boundaries) - 1)
                        }
                        AWrap::Windows => 1 + ch.free("alt", 5),
                    };
                    (ReadMode::DeviateAt(k as u64, alt), "deviate-at-one-call")
                };
                ch.desc(|| format!("doc={} adapter pulled with {:?} over {:?}, adversary={mode:?}", d.name, c.how, c.wrap));
                let (log, env) = run_adapter(d, h, c.how, c.wrap, mode);
                ch.obs_hash((c.doc, c.how, c.wrap, &env));
                ch.steps(env.len() as u64);
                if env.contains(&0) {
                    ch.tag("Interrupted delivered");
                }
                match compare(want, &log) {
                    None => Ok(()),
                    Some((symptom, exp, obs)) => {
                        let how = match c.how {
                            How::Read(_) => "read",
                            How::ReadToEnd => "read_to_end",
                            How::FillBuf => "fill_buf",
                        };
                        Err(Violation::new(
                            format!("format={} api=header_reader({how}) symptom={symptom}", d.format),
                            format!(
                                "doc={} ({} bytes): header_reader() adapter pulled with {:?}, source = {:?} over the adversary ({name}); read sizes delivered (I = Interrupted): {}; bytes (hex): {}",
                                d.name,
                                d.bytes.len(),
                                c.how,
                                c.wrap,
                                env_summary(&env),
                                if d.bytes.len() <= 1600 { hex_full(&d.bytes) } else { vmc::hex(&d.bytes) }
                            ),
                            format!("raw bytes = the header text of the document, then the document's records; {exp}"),
                            obs,
                        ))
                    }
                }
            });
        }

        // ---- reuse: one record buffer reused across the whole document vs a fresh buffer per record (plain slice)
        {
            let docs = &docs;
            let all: Vec<usize> = (0..docs.len()).collect();
            let all = &all;
            ctx.harness(Config::new("reuse", 0), move |ch: &Chooser| -> Outcome {
                let di = *ch.pick_free("doc", all);
                let d = &docs[di];
                let api = *ch.pick_free("api", Api::all_for(d.format));
                ch.desc(|| format!("doc={} api={api:?} reused vs fresh record buffer", d.name));
                ch.obs_hash((di, api));
                match vnd::drive::reuse_check(d.format, &d.bytes, &Opts::for_doc(d).api(api)) {
                    None => Ok(()),
                    Some((i, reused, fresh)) => Err(violation(
                        d,
                        api,
                        "plain-slice",
                        "plain-slice",
                        "none",
                        &[],
                        ("reused-record-buffer-differs".into(), format!("(fresh buffer) item {i}: {}", short(&fresh)), format!("(reused buffer) item {i}: {}", short(&reused))),
                    )),
                }
            });
        }

        // ---- large_reads: the payload of every BGZF-framed document pulled with caller buffers >= 64 KiB (the
        //      reader's direct-to-caller-buffer path), under every adversary; oracle = the payload found by the
        //      independent walker (not the plain-slice run: that path is the same for a slice)
        {
            let docs = &docs;
            let bg: Vec<usize> = (0..docs.len()).filter(|&i| docs[i].format.is_bgzf() && docs[i].inner.is_some()).collect();
            let bg = &bg;
            let sizes = [65536usize, 131072, 70000];
            let fixed: Vec<(ReadMode, &'static str)> = vec![
                (ReadMode::Full, "full-transfers"),
                (ReadMode::OneByte, "one-byte"),
                (ReadMode::InterruptEvery, "interrupt-every"),
                (ReadMode::Irregular, "irregular"),
                (ReadMode::Pattern(vec![18, 1, 8, 0, 4096]), "pattern"),
            ];
            let fixed = &fixed;
            ctx.harness(Config::new("large_reads", 0), move |ch: &Chooser| -> Outcome {
                let di = *ch.pick_free("doc", bg);
                let d = &docs[di];
                let size = *ch.pick_free("buffer", &sizes);
                let payload = &d.inner.as_ref().unwrap().bytes;
                // 0..fixed.len(): uniform adversaries; beyond: one deviation at call k (every call of the full run)
                let run = |mode: ReadMode| {
                    let r = ChunkReader::new(d.bytes.clone(), mode, None).with_boundaries(d.boundaries.clone());
                    let env = r.log.clone();
                    let (data, calls, res) = vnd::drive::bgzf_read_all(r, vnd::BgzfRead::Read(size), payload.len() + d.bytes.len() + 1000, payload.len() + 200_000);
                    let env = env.lock().unwrap().clone();
                    (data, calls.len(), res, env)
                };
                let full_env = if d.big { Vec::new() } else { run(ReadMode::Full).3 };
                let m = ch.free("adversary", fixed.len() + full_env.len());
                let (mode, name) = if m < fixed.len() {
                    fixed[m].clone()
                } else {
                    let k = m - fixed.len();
                    let pos: usize = full_env[..k].iter().sum();
                    let ml = menu_len(pos, full_env[k].max(1), &d.boundaries);
                    let alt = 1 + ch.free("alt", ml - 1);
                    (ReadMode::DeviateAt(k as u64, alt), "deviate-at-one-call")
                };
                ch.desc(|| format!("doc={} read({size}) adversary={mode:?}", d.name));
                let (data, n_calls, res, env) = run(mode);
                ch.obs_hash((di, size, &env));
                ch.steps(env.len() as u64);
                if d.item_ends.len() > 1 && d.inner.as_ref().unwrap().member_starts.windows(2).any(|w| w[0] == w[1]) {
                    ch.tag("empty member before the last one");
                }
                let symptom = if &data == &**payload && res.is_ok() {
                    return Ok(());
                } else if let Err(Some(e)) = &res {
                    format!("error kind={:?}", e.kind())
                } else if res.is_err() {
                    "non-termination".to_string()
                } else if data.len() < payload.len() && payload.starts_with(&data) {
                    "premature-eof".to_string()
                } else {
                    "bytes-differ".to_string()
                };
                Err(Violation::new(
                    format!("format=bgzf api=read(>=64KiB) symptom={symptom}"),
                    format!(
                        "doc={} ({} bytes, members end at {:?}, payload {} bytes): bgzf::io::Reader::new(src).read(&mut [0; {size}]) until Ok(0); adversary={name}; read sizes delivered: {}; file (hex): {}",
                        d.name,
                        d.bytes.len(),
                        d.item_ends,
                        payload.len(),
                        env_summary(&env),
                        if d.bytes.len() <= 1600 { hex_full(&d.bytes) } else { vmc::hex(&d.bytes) }
                    ),
                    format!("the {} payload bytes found by the independent BGZF walker, then Ok(0)", payload.len()),
                    format!("{} bytes in {n_calls} calls; outcome {:?}", data.len(), res.as_ref().map_err(|e| e.as_ref().map(|e| e.kind()))),
                ))
            });
        }

        // ---- choose: ReadMode::Choose, deviation bounded
        let bound = ctx.by_tier(1, 2);
        {
            let (docs, combos, spec, small) = (&docs, &combos, &spec, &small);
            ctx.harness(Config::new("choose", bound), move |ch: &Chooser| -> Outcome {
                let c = &combos[*ch.pick_free("combo", small)];
                let d = &docs[c.doc];
                ch.desc(|| format!("doc={} api={:?} wrap={}", d.name, c.api, c.wrap.name()));
                let (log, env) = run_reader(d, c.api, c.wrap, ReadMode::Choose, Some(ch.clone()));
                ch.obs_hash((c.doc, c.api, c.wrap, &env));
                ch.steps(env.len() as u64);
                tags(ch, d, &env);
                match compare(&spec[&(c.doc, c.api)], &log) {
                    None => Ok(()),
                    Some(diff) => Err(violation(d, c.api, &c.wrap.name(), c.wrap.class(), "choose", &env, diff)),
                }
            });
        }

        // ---- deviate: the bound-1 schedule set for runs with many read calls, as free choices
        {
            let (docs, combos, spec, large) = (&docs, &combos, &spec, &large);
            ctx.harness(Config::new("deviate", 0), move |ch: &Chooser| -> Outcome {
                let c = &combos[*ch.pick_free("combo", large)];
                let d = &docs[c.doc];
                let k = ch.free("call", c.sizes.len());
                let pos: usize = c.sizes[..k].iter().sum();
                let ml = menu_len(pos, c.sizes[k], &d.boundaries);
                let alt = 1 + ch.free("alt", ml - 1);
                ch.desc(|| format!("doc={} api={:?} wrap={} call={k} menu-entry={alt}", d.name, c.api, c.wrap.name()));
                let (log, env) = run_reader(d, c.api, c.wrap, ReadMode::DeviateAt(k as u64, alt), None);
                ch.obs_hash((c.doc, c.api, c.wrap, &env));
                ch.steps(env.len() as u64);
                tags(ch, d, &env);
                match compare(&spec[&(c.doc, c.api)], &log) {
                    None => Ok(()),
                    Some(diff) => Err(violation(d, c.api, &c.wrap.name(), c.wrap.class(), "deviate-at-one-call", &env, diff)),
                }
            });
        }

        // ---- windows: ChunkBufRead
        {
            let (docs, spec) = (&docs, &spec);
            let wbound = ctx.by_tier(2, 3);
            let idx: Vec<usize> = (0..docs.len()).filter(|&i| !docs[i].big).collect();
            let modes = [ReadMode::Choose, ReadMode::OneByte, ReadMode::Irregular, ReadMode::Pattern(vec![2, 1, 5, 3]), ReadMode::Pattern(vec![17, 1])];
            let idx = &idx;
            let modes = &modes;
            ctx.harness(Config::new("windows", wbound), move |ch: &Chooser| -> Outcome {
                let di = *ch.pick_free("doc", idx);
                let d = &docs[di];
                let api = *ch.pick_free("api", Api::all_for(d.format));
                let mode = ch.pick_free("mode", modes).clone();
                ch.desc(|| format!("doc={} api={api:?} windows={mode:?}", d.name));
                let chooser = if matches!(mode, ReadMode::Choose) { Some(ch.clone()) } else { None };
                let adversary = match &mode {
                    ReadMode::Choose => "choose",
                    ReadMode::OneByte => "one-byte",
                    ReadMode::Irregular => "irregular",
                    _ => "pattern",
                };
                let inner = ChunkBufRead::new(d.bytes.clone(), mode.clone(), chooser).with_boundaries(d.boundaries.clone());
                let wl = Arc::new(Mutex::new(Vec::new()));
                let r = LogBuf { inner, log: wl.clone() };
                let log = vnd::read_log_bufread(d.format, r, &Opts::for_doc(d).api(api));
                let env = wl.lock().unwrap().clone();
                ch.obs_hash((di, api, &env));
                ch.steps(env.len() as u64);
                let windows: Vec<usize> = env.iter().copied().filter(|&x| x < usize::MAX / 2).collect();
                match compare(&spec[&(di, api)], &log) {
                    None => Ok(()),
                    Some(diff) => Err(violation(d, api, "ChunkBufRead", "fill_buf-windows", adversary, &windows, diff)),
                }
            });
        }

        // ---- crlf_twins: the CRLF twin of every text document (plain and bgzipped), read eagerly and lazily, with a
        //      refill boundary at EVERY offset of the file: fill_buf windows [0..k) [k..) for every k (bgzipped: a
        //      BGZF member boundary at uncompressed offset k), and BufReader capacities 1..=c_max (periodic
        //      boundaries). Oracle: the log of the twin read in one piece — which itself must be the log of the LF
        //      document (line lengths and the FASTA index's line width aside).
        {
            struct Twin {
                doc: usize,
                /// The text with CRLF line ends (the document itself when it already has them).
                text: Arc<Vec<u8>>,
                bgz: bool,
                made: bool,
            }
            fn strip_sizes(log: &[String]) -> Vec<String> {
                // "rec[i]: n=12 ..." / "rec[i]: bs=12 ...": byte counts include the line terminator
                log.iter()
                    .map(|l| match l.split_once("]: ") {
                        Some((a, b)) => {
                            let b = match b.split_once(' ') {
                                Some((t, rest)) if (t.starts_with("n=") || t.starts_with("bs=")) && t[t.find('=').unwrap() + 1..].bytes().all(|c| c.is_ascii_digit()) => rest,
                                _ => b,
                            };
                            format!("{a}]: {b}")
                        }
                        None => l.clone(),
                    })
                    .collect()
            }
            fn bgz_split(text: &[u8], k: usize) -> Vec<u8> {
                let mut out = Vec::new();
                for part in [&text[..k], &text[k..]] {
                    for c in part.chunks(65280) {
                        out.extend(vmc::oracle::bgzf::make_block(c, 1));
                    }
                }
                out.extend_from_slice(&vmc::oracle::bgzf::EOF);
                out
            }
            let topts = |d: &Doc, api: Api, len: usize| {
                let mut o = Opts::for_doc(d).api(api);
                o.input_len = o.input_len.max(len);
                o.vpos = false;
                o
            };
            let mut twins: Vec<Twin> = Vec::new();
            for (i, d) in docs.iter().enumerate() {
                if d.big || d.raw {
                    continue;
                }
                let plain = matches!(d.format, Format::Sam | Format::Vcf | Format::Bed | Format::Gff | Format::Gtf | Format::Fasta | Format::FastaIndexer | Format::Fastq | Format::Fai);
                // (bgzipped GFF / GTF / BED / FASTA / FASTQ: the plain twins below are also read through a
                // bgzf::io::Reader with a member boundary at every offset)
                let bgz = matches!(d.format, Format::SamGz | Format::VcfGz);
                if !plain && !bgz {
                    continue;
                }
                let text: &[u8] = if bgz { &d.inner.as_ref().unwrap().bytes } else { &d.bytes };
                let has_cr = text.contains(&b'\r');
                let mut t = Vec::with_capacity(text.len() + text.len() / 20);
                for &c in text {
                    if c == b'\n' && !has_cr {
                        t.push(b'\r');
                    }
                    t.push(c);
                }
                twins.push(Twin { doc: i, text: Arc::new(t), bgz, made: !has_cr });
            }
            let c_max = ctx.by_tier(48usize, 4096usize);
            // (twin, api, one-piece log of the twin, number of cases)
            let mut rows: Vec<(usize, Api, Arc<Vec<String>>, usize)> = Vec::new();
            let mut one_piece_diffs: Vec<(usize, Api, (String, String, String))> = Vec::new();
            for (ti, t) in twins.iter().enumerate() {
                let d = &docs[t.doc];
                for &api in Api::all_for(d.format) {
                    let whole = if t.bgz { bgz_split(&t.text, t.text.len()) } else { t.text.to_vec() };
                    let log = vnd::read_log(d.format, &whole[..], &topts(d, api, whole.len()));
                    if t.made && d.format != Format::FastaIndexer {
                        let lf = vnd::read_log(d.format, &d.bytes[..], &topts(d, api, 0));
                        if let Some(diff) = compare(&strip_sizes(&lf), &strip_sizes(&log)) {
                            one_piece_diffs.push((ti, api, diff));
                        }
                    }
                    // native bgzipped: member boundary at every k; plain: fill_buf windows at every k, the same text
                    // through a bgzf::io::Reader with a member boundary at every k, and the capacities
                    let n = t.text.len().saturating_sub(1) * if t.bgz { 1 } else { 2 } + if t.bgz { 0 } else { c_max.min(t.text.len()) };
                    rows.push((ti, api, Arc::new(log), n));
                }
            }
            let mut starts = Vec::new();
            let mut total = 0usize;
            for r in &rows {
                starts.push(total);
                total += r.3;
            }
            ctx.extra("crlf_twins", vmc::json!({"documents": twins.len(), "made_from_lf_documents": twins.iter().filter(|t| t.made).count(), "bgzipped": twins.iter().filter(|t| t.bgz).count(), "cases": total}));
            let (docs, twins, rows, starts, one_piece_diffs) = (&docs, &twins, &rows, &starts, &one_piece_diffs);
            ctx.harness(Config::new("crlf_twins", 0), move |ch: &Chooser| -> Outcome {
                // the twin in one piece against the LF document
                if ch.free("part", 2) == 0 {
                    if one_piece_diffs.is_empty() {
                        ch.desc(|| "every CRLF twin read in one piece gives the log of its LF document".to_string());
                        return Ok(());
                    }
                    let (ti, api, diff) = &one_piece_diffs[ch.free("twin", one_piece_diffs.len())];
                    let d = &docs[twins[*ti].doc];
                    let (symptom, exp, obs) = diff.clone();
                    return Err(Violation::new(
                        format!("format={} api={api:?} layout=crlf-twin-in-one-piece symptom={symptom}", d.format),
                        format!("doc={} with every LF replaced by CRLF{}, read from a plain slice with {api:?}; text (hex): {}", d.name, if twins[*ti].bgz { " (uncompressed text; one BGZF member + EOF)" } else { "" }, hex_full(&twins[*ti].text)),
                        format!("the log of the LF document (byte counts aside); {exp}"),
                        obs,
                    ));
                }
                let i = ch.free("case", total);
                let r = starts.partition_point(|&s| s <= i) - 1;
                let (ti, api, spec, _) = &rows[r];
                let t = &twins[*ti];
                let d = &docs[t.doc];
                let j = i - starts[r];
                let len = t.text.len();
                let splits = len.saturating_sub(1);
                let (log, how, class) = if !t.bgz && j >= splits && j < 2 * splits {
                    let k = j - splits + 1;
                    let file = bgz_split(&t.text, k);
                    let src = noodles_bgzf::io::Reader::new(&file[..]);
                    (vnd::read_log_bufread(d.format, src, &topts(d, *api, len)), format!("bgzipped (two BGZF members, the first ends at uncompressed offset {k}) and read through bgzf::io::Reader as the BufRead"), "bgzf-member-boundary")
                } else if j < splits {
                    let k = j + 1;
                    if t.bgz {
                        let file = bgz_split(&t.text, k);
                        (vnd::read_log(d.format, &file[..], &topts(d, *api, file.len())), format!("two BGZF members, the first ends at uncompressed offset {k}"), "bgzf-member-boundary")
                    } else {
                        let src = ChunkBufRead::new(t.text.clone(), ReadMode::Pattern(vec![k, usize::MAX / 4]), None);
                        (vnd::read_log_bufread(d.format, src, &topts(d, *api, len)), format!("fill_buf windows [0..{k}) [{k}..{len})"), "fill_buf-windows")
                    }
                } else {
                    let c = j - splits * if t.bgz { 1 } else { 2 } + 1;
                    let src = ChunkReader::new(t.text.clone(), ReadMode::Full, None);
                    (vnd::read_log(d.format, src, &topts(d, *api, len).capacity(Some(c))), format!("BufReader with capacity {c} over full transfers"), "bufreader-capacity")
                };
                ch.desc(|| format!("doc={} (crlf twin) api={api:?} {how}", d.name));
                ch.obs_hash((t.doc, *api, j));
                let kk = if j < splits { j } else if !t.bgz && j < 2 * splits { j - splits } else { usize::MAX - 1 };
                let at_cr = kk + 1 < len && t.text[kk] == b'\r' && t.text[kk + 1] == b'\n';
                if at_cr {
                    ch.tag("refill boundary between CR and LF");
                }
                match compare(spec, &log) {
                    None => Ok(()),
                    Some((symptom, exp, obs)) => Err(Violation::new(
                        format!("format={} api={api:?} layout=crlf-twin boundary={class} symptom={symptom}", d.format),
                        format!(
                            "doc={}{} ({} bytes of text) api={api:?}: {how}{}; text (hex): {}",
                            d.name,
                            if t.made { " with every LF replaced by CRLF" } else { "" },
                            len,
                            if at_cr { " — the boundary falls between CR and LF" } else { "" },
                            if len <= 1600 { hex_full(&t.text) } else { vmc::hex(&t.text) }
                        ),
                        format!("the log of the same bytes read in one piece; {exp}"),
                        obs,
                    )),
                }
            });
        }

        // ---- indexed: the indexed-access drivers (vnd::query: one reader, header, a sequence of region queries and
        //      query_unmapped) over the read adversaries, the driver retrying ErrorKind::Interrupted as std's helpers
        //      do (a failed call / iterator item is tried again). Oracle: the query log over the plain source.
        {
            struct Pair {
                data: usize,
                index: usize,
                gzi: Option<usize>,
                spec: Vec<String>,
                /// Largest number of read calls any source instance of the fault-free run received.
                calls: usize,
            }
            let run = |docs: &[Doc], p: (usize, usize, Option<usize>), mode: ReadMode| -> (Vec<String>, Vec<Vec<usize>>) {
                let d = &docs[p.0];
                let logs: Arc<Mutex<Vec<Arc<Mutex<Vec<usize>>>>>> = Arc::new(Mutex::new(Vec::new()));
                let mk = || {
                    let r = ChunkReader::new(d.bytes.clone(), mode.clone(), None).with_boundaries(d.boundaries.clone());
                    logs.lock().unwrap().push(r.log.clone());
                    r
                };
                let log = match p.2 {
                    Some(g) => vnd::query::fasta_gz_query_log_over(mk(), &docs[p.1].bytes, &docs[g].bytes),
                    None => vnd::query::query_log_over(d.format, &d.set, &mk, d.bytes.len(), docs[p.1].format, &docs[p.1].bytes),
                };
                let env = logs.lock().unwrap().iter().map(|l| l.lock().unwrap().clone()).collect();
                (log, env)
            };
            let mut pairs: Vec<Pair> = Vec::new();
            for (i, d) in docs.iter().enumerate() {
                if d.big || d.raw || d.index_of.is_some() || d.name.starts_with("eng-") {
                    continue;
                }
                let text_gz = d.format == Format::Bgzf && d.set.ends_with(".gz");
                if !(text_gz || matches!(d.format, Format::Bam | Format::Bcf | Format::VcfGz | Format::SamGz | Format::Cram)) {
                    continue;
                }
                let Some(index) = docs.iter().position(|x| x.index_of.as_deref() == Some(d.name.as_str()) && !x.name.contains("n_no_coor")) else { continue };
                let gzi = docs.iter().position(|x| x.name == format!("gzi-of-{}", d.name));
                if d.set == "fasta.gz" && gzi.is_none() {
                    continue;
                }
                let gzi = if d.set == "fasta.gz" { gzi } else { None };
                let (spec, env) = run(&docs, (i, index, gzi), ReadMode::Full);
                pairs.push(Pair { data: i, index, gzi, spec, calls: env.iter().map(|e| e.len()).max().unwrap_or(0) });
            }
            let uniform: Vec<(ReadMode, &'static str)> = vec![
                (ReadMode::InterruptEvery, "interrupt-before-every-read"),
                (ReadMode::OneByte, "one-byte"),
                (ReadMode::Irregular, "irregular"),
                (ReadMode::Pattern(vec![1, 0, 2, 3, 0, 7, 64, 1]), "pattern"),
                (ReadMode::Pattern(vec![18, 1, 8, 0, 4096]), "pattern"),
            ];
            // menu entries of one deviating call: the short transfers (1 byte, to / past / short of the next structural
            // boundary, half; clamped to the menu) and Interrupted (the menu's last entry)
            const ALTS: [usize; 6] = [1, 2, 3, 4, 5, usize::MAX];
            let mut starts = Vec::new();
            let mut total = 0usize;
            for p in &pairs {
                starts.push(total);
                total += uniform.len() + p.calls * ALTS.len();
            }
            ctx.extra("indexed", vmc::json!({
                "pairs": pairs.iter().map(|p| format!("{}+{}{} ({} read calls)", docs[p.data].name, docs[p.index].name, p.gzi.map(|g| format!("+{}", docs[g].name)).unwrap_or_default(), p.calls)).collect::<Vec<_>>(),
                "cases": total,
            }));
            let (docs, pairs, starts, uniform, run) = (&docs, &pairs, &starts, &uniform, &run);
            ctx.harness(Config::new("indexed", 0), move |ch: &Chooser| -> Outcome {
                if total == 0 {
                    return Ok(());
                }
                let i = ch.free("case", total);
                let r = starts.partition_point(|&s| s <= i) - 1;
                let p = &pairs[r];
                let j = i - starts[r];
                let (mode, name, class) = if j < uniform.len() {
                    (uniform[j].0.clone(), uniform[j].1.to_string(), uniform[j].1)
                } else {
                    let k = (j - uniform.len()) / ALTS.len();
                    let alt = ALTS[(j - uniform.len()) % ALTS.len()];
                    if alt == usize::MAX {
                        (ReadMode::DeviateAt(k as u64, alt), format!("Interrupted at exactly read call {k} of every source instance, full transfers otherwise"), "interrupted-at-one-call")
                    } else {
                        (ReadMode::DeviateAt(k as u64, alt), format!("read call {k} deviates with menu entry {alt} (short transfer), full transfers otherwise"), "short-transfer-at-one-call")
                    }
                };
                let d = &docs[p.data];
                ch.desc(|| format!("data={} index={} adversary={name}", d.name, docs[p.index].name));
                let (log, env) = run(docs, (p.data, p.index, p.gzi), mode);
                ch.obs_hash((p.data, &env));
                ch.steps(env.iter().map(|e| e.len() as u64).sum());
                if env.iter().any(|e| e.contains(&0)) {
                    ch.tag("Interrupted delivered");
                }
                if log == p.spec {
                    return Ok(());
                }
                let at = p.spec.iter().zip(log.iter()).position(|(a, b)| a != b).unwrap_or(p.spec.len().min(log.len()));
                let a = p.spec.get(at).map(|s| s.as_str()).unwrap_or("<nothing>");
                let b = log.get(at).map(|s| s.as_str()).unwrap_or("<nothing>");
                let symptom = if b.contains(": done n=") && a.contains(" rec[") {
                    "fewer-records-clean-end".to_string()
                } else if b.contains(" rec[") && a.contains(": done n=") {
                    "more-records".to_string()
                } else if b.contains("Err(") && !a.contains("Err(") {
                    format!("error kind={}", b.split("kind=").nth(1).and_then(|x| x.split(' ').next()).unwrap_or("?"))
                } else if a.contains(" rec[") && b.contains(" rec[") {
                    "record-differs".to_string()
                } else {
                    "log-differs".to_string()
                };
                let fmt = if d.format == Format::Bgzf { d.set.clone() } else { d.format.to_string() };
                Err(Violation::new(
                    format!("format={fmt} index={} api=indexed-query adversary={class} symptom={symptom}", docs[p.index].format),
                    format!(
                        "data={} ({} bytes) index={}{}: vnd::query::query_log_over (one reader: read_header, region queries, query_unmapped; Interrupted is retried by the driver) over ChunkReader: {name}; read sizes delivered per source instance (I = Interrupted): {}; data (hex): {}; index (hex): {}",
                        d.name,
                        d.bytes.len(),
                        docs[p.index].name,
                        p.gzi.map(|g| format!(" + {}", docs[g].name)).unwrap_or_default(),
                        env.iter().map(|e| format!("[{}]", env_summary(e))).collect::<Vec<_>>().join(" "),
                        if d.bytes.len() <= 1600 { hex_full(&d.bytes) } else { vmc::hex(&d.bytes) },
                        hex_full(&docs[p.index].bytes)
                    ),
                    format!("the query log over the plain source; line {at}: {}", short(a)),
                    format!("line {at}: {}", short(b)),
                ))
            });
        }

        // ---- eof_calls: Interrupted at the read calls that OBSERVE THE END of the input (the call that returns 0,
        //      and every later probe), which the byte-transfer menus of choose / deviate never reach: for every
        //      document and index, api and wrapper {direct, BufReader 1 / 17 / 8192}, Interrupted in place of the
        //      e-th end-of-input observation for every e of the fault-free run, and before every one of them.
        {
            struct Row {
                doc: usize,
                api: Api,
                wrap: Wrap,
                n_eof: usize,
            }
            let mut rows: Vec<Row> = Vec::new();
            for (i, d) in docs.iter().enumerate() {
                if d.big {
                    continue;
                }
                let mut wraps = vec![Wrap::Buf(1), Wrap::Buf(17), Wrap::Buf(8192)];
                if !d.format.needs_bufread() {
                    wraps.insert(0, Wrap::Direct);
                }
                for &api in Api::all_for(d.format) {
                    for &w in &wraps {
                        let src = EofInterrupt::new(d.bytes.clone(), Some(usize::MAX));
                        let log = src.log.clone();
                        let _ = vnd::read_log(d.format, src, &opts(d, api, w));
                        let n_eof = log.lock().unwrap().iter().filter(|&&x| x == 0).count();
                        rows.push(Row { doc: i, api, wrap: w, n_eof });
                    }
                }
            }
            let mut starts = Vec::new();
            let mut total = 0usize;
            for r in &rows {
                starts.push(total);
                total += r.n_eof + 1;
            }
            ctx.extra("eof_calls", vmc::json!({"rows": rows.len(), "cases": total, "max_end_of_input_observations_per_run": rows.iter().map(|r| r.n_eof).max(), "runs_without_an_end_of_input_observation": rows.iter().filter(|r| r.n_eof == 0).count()}));
            let (docs, rows, starts, spec) = (&docs, &rows, &starts, &spec);
            ctx.harness(Config::new("eof_calls", 0), move |ch: &Chooser| -> Outcome {
                let i = ch.free("case", total);
                let r = starts.partition_point(|&s| s <= i) - 1;
                let row = &rows[r];
                let j = i - starts[r];
                let d = &docs[row.doc];
                let target = if j < row.n_eof { Some(j) } else { None };
                let name = match target {
                    Some(e) => format!("Interrupted in place of end-of-input observation {e} (of {} in the fault-free run), then the call is answered normally", row.n_eof),
                    None => format!("Interrupted before each of the first {} end-of-input observations", row.n_eof),
                };
                ch.desc(|| format!("doc={} api={:?} wrap={} {name}", d.name, row.api, row.wrap.name()));
                if std::env::var_os("C12_TRACE").is_some() {
                    eprintln!("[eof] start {i} doc={} api={:?} wrap={} {target:?}", d.name, row.api, row.wrap.name());
                }
                let mut src = EofInterrupt::new(d.bytes.clone(), target);
                src.budget = row.n_eof;
                let env = src.log.clone();
                let log = vnd::read_log(d.format, src, &opts(d, row.api, row.wrap));
                let env = env.lock().unwrap().clone();
                if std::env::var_os("C12_TRACE").is_some() {
                    eprintln!("[eof] done {i}");
                }
                ch.obs_hash((row.doc, row.api, row.wrap, &env));
                ch.steps(env.len() as u64);
                if env.contains(&usize::MAX) {
                    ch.tag("Interrupted delivered at an end-of-input observation");
                }
                match compare(&spec[&(row.doc, row.api)], &log) {
                    None => Ok(()),
                    Some((symptom, exp, obs)) => {
                        let calls: Vec<String> = env.iter().rev().take(6).rev().map(|&x| if x == usize::MAX { "I".to_string() } else { x.to_string() }).collect();
                        Err(Violation::new(
                            format!("format={} api={:?} adversary=interrupted-at-end-of-input symptom={symptom}", d.format, row.api),
                            format!(
                                "doc={} ({} bytes, set {}) api={:?} wrap={} ({}): {name}; last read calls (bytes, 0 = end of input, I = Interrupted): … {}; bytes (hex): {}",
                                d.name,
                                d.bytes.len(),
                                d.set,
                                row.api,
                                row.wrap.name(),
                                row.wrap.class(),
                                calls.join(" "),
                                if d.bytes.len() <= 1600 { hex_full(&d.bytes) } else { vmc::hex(&d.bytes) }
                            ),
                            format!("same log as from the plain slice (Interrupted means: call again); {exp}"),
                            obs,
                        ))
                    }
                }
            });
        }

        // ---- member_layouts: the BGZF member layout as the adversary. Re-chunking the compressed file (all harnesses
        //      above) never moves a member boundary, and one read() of bgzf::io::Reader stops at it. Every small
        //      BGZF-compressed index (tabix, CSI) and data document (BAM, BCF, SAM.gz, VCF.gz) is re-compressed from
        //      its uncompressed stream with (a) two members split at every offset k, (b) an empty member at every k,
        //      (c) 1-byte members for the first 64 bytes; every sync API and the async reader; oracle: the log of the
        //      single-member file (virtual positions aside).
        {
            struct MRow {
                doc: usize,
                /// None: the async reader (vnd::adrive).
                api: Option<Api>,
                spec: Vec<String>,
                n: usize,
            }
            fn members(parts: &[&[u8]]) -> Vec<u8> {
                let mut out = Vec::new();
                for p in parts {
                    if p.is_empty() {
                        out.extend(vmc::oracle::bgzf::make_block(&[], 1));
                    }
                    for c in p.chunks(65280) {
                        out.extend(vmc::oracle::bgzf::make_block(c, 1));
                    }
                }
                out.extend_from_slice(&vmc::oracle::bgzf::EOF);
                out
            }
            let mopts = |d: &Doc, api: Api, len: usize| {
                let mut o = Opts::for_doc(d).api(api);
                o.input_len = o.input_len.max(len);
                o.vpos = false;
                o
            };
            let read = |d: &Doc, api: Option<Api>, file: &[u8]| -> Vec<String> {
                match api {
                    Some(a) => vnd::read_log(d.format, file, &mopts(d, a, file.len())),
                    None => vnd::adrive::read_log_async(d.format, file, &mopts(d, Api::Eager, file.len())).unwrap_or_default(),
                }
            };
            let thorough = ctx.thorough();
            let mut rows: Vec<MRow> = Vec::new();
            for (i, d) in docs.iter().enumerate() {
                let is_index = matches!(d.format, Format::Csi | Format::Tbi);
                if d.big || d.raw || !(is_index || matches!(d.format, Format::Bam | Format::Bcf | Format::SamGz | Format::VcfGz)) {
                    continue;
                }
                let Some(inner) = d.inner.as_ref() else { continue };
                // quick: the indexes, and the data documents that are not themselves layout variants, up to 2 KiB
                let variant = ["-split", "empty-members", "padded", "eng-", "reuse-", "no-n_no_coor", "-idx"].iter().any(|w| d.name.contains(w));
                if !thorough && !is_index && (variant || inner.bytes.len() > 2048) {
                    continue;
                }
                let len = inner.bytes.len();
                let n = 2 * len.saturating_sub(1) + 1;
                let single = members(&[&inner.bytes[..]]);
                for &api in Api::all_for(d.format) {
                    rows.push(MRow { doc: i, api: Some(api), spec: read(d, Some(api), &single), n });
                }
                if vnd::adrive::has_async(d.format) && (thorough || is_index) {
                    rows.push(MRow { doc: i, api: None, spec: read(d, None, &single), n });
                }
            }
            let mut starts = Vec::new();
            let mut total = 0usize;
            for r in &rows {
                starts.push(total);
                total += r.n;
            }
            ctx.extra("member_layouts", vmc::json!({"rows": rows.len(), "cases": total, "documents": rows.iter().map(|r| docs[r.doc].name.clone()).collect::<std::collections::BTreeSet<_>>()}));
            let (docs, rows, starts, read) = (&docs, &rows, &starts, &read);
            ctx.harness(Config::new("member_layouts", 0), move |ch: &Chooser| -> Outcome {
                if total == 0 {
                    return Ok(());
                }
                let i = ch.free("case", total);
                let r = starts.partition_point(|&s| s <= i) - 1;
                let row = &rows[r];
                let d = &docs[row.doc];
                let b = &d.inner.as_ref().unwrap().bytes;
                let len = b.len();
                let j = i - starts[r];
                let splits = len.saturating_sub(1);
                let (file, how, class) = if j < splits {
                    let k = j + 1;
                    (members(&[&b[..k], &b[k..]]), format!("two members, the first ends at uncompressed offset {k}"), "two-members")
                } else if j < 2 * splits {
                    let k = j - splits + 1;
                    (members(&[&b[..k], &[], &b[k..]]), format!("an empty member at uncompressed offset {k}"), "empty-member-inside")
                } else {
                    let m = 64.min(len);
                    let mut parts: Vec<&[u8]> = (0..m).map(|x| &b[x..x + 1]).collect();
                    parts.push(&b[m..]);
                    (members(&parts), format!("1-byte members for the first {m} bytes"), "one-byte-members")
                };
                let api = row.api.map(|a| format!("{a:?}")).unwrap_or_else(|| "Async".into());
                ch.desc(|| format!("doc={} api={api} {how}", d.name));
                let log = read(d, row.api, &file);
                ch.obs_hash((row.doc, &api, j));
                match compare(&row.spec, &log) {
                    None => Ok(()),
                    Some((symptom, exp, obs)) => Err(Violation::new(
                        format!("format={} api={api} layout={class} symptom={symptom}", d.format),
                        format!(
                            "doc={}: its uncompressed stream ({len} bytes) re-compressed as {how} (+ EOF marker), read with {api}; uncompressed stream (hex): {}",
                            d.name,
                            if len <= 1600 { hex_full(b) } else { vmc::hex(b) }
                        ),
                        format!("the log of the same stream in a single member; {exp}"),
                        obs,
                    )),
                }
            });
        }

        // ---- uniform adversaries
        {
            let (docs, combos, spec) = (&docs, &combos, &spec);
            let modes = [
                (ReadMode::Full, "full-transfers"),
                (ReadMode::OneByte, "one-byte"),
                (ReadMode::InterruptEvery, "interrupt-every"),
                (ReadMode::Irregular, "irregular"),
                (ReadMode::Pattern(vec![1, 0, 2, 3, 0, 7, 64, 1]), "pattern"),
                (ReadMode::Pattern(vec![18, 1, 8, 0, 4096]), "pattern"),
            ];
            let modes = &modes;
            let all: Vec<usize> = (0..combos.len()).collect();
            let all = &all;
            ctx.harness(Config::new("uniform", 0), move |ch: &Chooser| -> Outcome {
                let c = &combos[*ch.pick_free("combo", all)];
                let d = &docs[c.doc];
                let (mode, name) = ch.pick_free("mode", modes).clone();
                ch.desc(|| format!("doc={} api={:?} wrap={} adversary={mode:?}", d.name, c.api, c.wrap.name()));
                let (log, env) = run_reader(d, c.api, c.wrap, mode, None);
                ch.obs_hash((c.doc, c.api, c.wrap, &env));
                ch.steps(env.len() as u64);
                if d.big {
                    ch.tag("document > 64 KiB");
                }
                match compare(&spec[&(c.doc, c.api)], &log) {
                    None => Ok(()),
                    Some(diff) => Err(violation(d, c.api, &c.wrap.name(), c.wrap.class(), name, &env, diff)),
                }
            });
        }
    });
}

fn tags(ch: &Chooser, d: &Doc, env: &[usize]) {
    if env.contains(&0) {
        ch.tag("Interrupted delivered");
    }
    // a transfer that ended exactly on / one past / one short of a structural boundary
    let mut pos = 0usize;
    for &n in env {
        pos += n;
        if n > 0 {
            if d.boundaries.binary_search(&pos).is_ok() {
                ch.tag("transfer ends on a structural boundary");
            } else if pos > 0 && d.boundaries.binary_search(&(pos - 1)).is_ok() {
                ch.tag("transfer ends one past a boundary");
            } else if d.boundaries.binary_search(&(pos + 1)).is_ok() {
                ch.tag("transfer ends one short of a boundary");
            }
        }
    }
}
