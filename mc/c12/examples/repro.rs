//! Standalone reproduction of the C12 findings through the public API only (no harness code).
use std::io::{self, BufReader, Read};

/// Delivers `chunk` bytes per call and returns `Interrupted` before every successful call.
struct Src<'a> {
    data: &'a [u8],
    chunk: usize,
    interrupt: bool,
    flip: bool,
}
impl Read for Src<'_> {
    fn read(&mut self, buf: &mut [u8]) -> io::Result<usize> {
        if self.interrupt {
            self.flip = !self.flip;
            if self.flip {
                return Err(io::ErrorKind::Interrupted.into());
            }
        }
        let n = self.chunk.min(buf.len()).min(self.data.len());
        buf[..n].copy_from_slice(&self.data[..n]);
        self.data = &self.data[n..];
        Ok(n)
    }
}
fn interrupting(data: &[u8]) -> BufReader<Src<'_>> {
    BufReader::new(Src { data, chunk: usize::MAX, interrupt: true, flip: false })
}

fn main() {
    // (1) spurious Interrupted surfaces from lazy / line readers that call fill_buf() directly
    let vcf = b"##fileformat=VCFv4.3\n#CHROM\tPOS\tID\tREF\tALT\tQUAL\tFILTER\tINFO\nsq0\t1\t.\tA\t.\t.\t.\t.\n";
    let mut r = noodles_vcf::io::Reader::new(interrupting(vcf));
    let header = r.read_header().unwrap();
    let mut rec = noodles_vcf::Record::default();
    println!("vcf lazy  read_record     -> {:?}", r.read_record(&mut rec).map_err(|e| e.kind()));
    let mut r = noodles_vcf::io::Reader::new(interrupting(vcf));
    r.read_header().unwrap();
    let mut buf = noodles_vcf::variant::RecordBuf::default();
    println!("vcf eager read_record_buf -> {:?}   (fine)", r.read_record_buf(&header, &mut buf).map_err(|e| e.kind()));

    let sam = b"@HD\tVN:1.6\nr0\t4\t*\t0\t0\t*\t*\t0\t0\tA\tI\n";
    let mut r = noodles_sam::io::Reader::new(interrupting(sam));
    r.read_header().unwrap();
    let mut rec = noodles_sam::Record::default();
    println!("sam lazy  read_record     -> {:?}", r.read_record(&mut rec).map_err(|e| e.kind()));

    let mut r = noodles_bed::io::Reader::<3, _>::new(interrupting(b"sq0\t0\t10\n"));
    let mut rec = noodles_bed::Record::<3>::default();
    println!("bed       read_record     -> {:?}", r.read_record(&mut rec).map_err(|e| e.kind()));

    let mut r = noodles_fastq::io::Reader::new(BufReader::new(Src { data: b"@r0\nA\n+\nI\n", chunk: 2, interrupt: true, flip: false }));
    let mut rec = noodles_fastq::Record::default();
    println!("fastq     read_record     -> {:?}", r.read_record(&mut rec).map_err(|e| e.kind()));

    let mut ix = noodles_fasta::io::Indexer::new(interrupting(b">sq0\nACGT\n"));
    println!("fasta     index_record    -> {:?}", ix.index_record().map(|r| r.map(|r| r.length())).map_err(|e| io::Error::from(e).kind()));

    // (2) FASTQ CRLF: the CR of a definition line is kept when CR and LF arrive in different fill_buf windows
    let fq = b"@r1\r\nN\r\n+\r\n!\r\n";
    for cap in [8192usize, 4, 1] {
        let mut r = noodles_fastq::io::Reader::new(BufReader::with_capacity(cap, &fq[..]));
        let mut rec = noodles_fastq::Record::default();
        r.read_record(&mut rec).unwrap();
        println!("fastq CRLF, BufReader capacity {cap:4}: name = {:?}", rec.name());
    }
}
