//! Standalone reproductions of every defect C09/C10 report, through the noodles public API only
//! (no gvcf code is used). Run: cargo run --release --offline -p gvcf --example repro
use std::io::Write as _;

use noodles_bcf as bcf;
use noodles_core::Position;
use noodles_vcf::{
    self as vcf,
    variant::{
        Record as _, RecordBuf,
        io::Write as _,
        record::samples::series::value::genotype::Phasing,
        record_buf::{
            Samples,
            info::field::Value as IV,
            samples::sample::{
                Value as SV,
                value::{Genotype, genotype::Allele},
            },
        },
    },
};

const HEADER: &str = "##fileformat=VCFv4.3\n\
##INFO=<ID=XS1,Number=1,Type=String,Description=\"\">\n\
##INFO=<ID=XSU,Number=.,Type=String,Description=\"\">\n\
##INFO=<ID=XC1,Number=1,Type=Character,Description=\"\">\n\
##INFO=<ID=XIU,Number=.,Type=Integer,Description=\"\">\n\
##INFO=<ID=XFU,Number=.,Type=Float,Description=\"\">\n\
##INFO=<ID=END,Number=1,Type=Integer,Description=\"\">\n\
##FORMAT=<ID=GT,Number=1,Type=String,Description=\"\">\n\
##FORMAT=<ID=YIU,Number=.,Type=Integer,Description=\"\">\n\
##FORMAT=<ID=YFU,Number=.,Type=Float,Description=\"\">\n\
##FORMAT=<ID=YF1,Number=1,Type=Float,Description=\"\">\n\
##FORMAT=<ID=YS1,Number=1,Type=String,Description=\"\">\n\
##FORMAT=<ID=YSU,Number=.,Type=String,Description=\"\">\n\
##contig=<ID=sq0>\n\
#CHROM\tPOS\tID\tREF\tALT\tQUAL\tFILTER\tINFO\tFORMAT\ts0\ts1\n";

fn gt(a: &[(Option<usize>, bool)]) -> Option<SV> {
    Some(SV::Genotype(
        a.iter().map(|(p, ph)| Allele::new(*p, if *ph { Phasing::Phased } else { Phasing::Unphased })).collect::<Genotype>(),
    ))
}

fn rec(info: Vec<(&str, Option<IV>)>, keys: &[&str], samples: Vec<Vec<Option<SV>>>) -> RecordBuf {
    RecordBuf::builder()
        .set_reference_sequence_name("sq0")
        .set_variant_start(Position::MIN)
        .set_reference_bases("A")
        .set_info(info.into_iter().map(|(k, v)| (k.to_string(), v)).collect())
        .set_samples(Samples::new(keys.iter().map(|s| s.to_string()).collect(), samples))
        .build()
}

fn vcf_line(h: &vcf::Header, r: &dyn vcf::variant::Record) -> Result<String, String> {
    let mut w = vcf::io::Writer::new(Vec::new());
    w.write_variant_record(h, r).map_err(|e| e.to_string())?;
    Ok(String::from_utf8(w.into_inner()).unwrap())
}

fn vcf_parse(h: &vcf::Header, line: &str) -> Result<RecordBuf, String> {
    let mut r = vcf::io::Reader::new(line.as_bytes());
    let mut rb = RecordBuf::default();
    r.read_record_buf(h, &mut rb).map_err(|e| format!("{e}: {:?}", e.get_ref().map(|x| x.to_string())))?;
    Ok(rb)
}

fn bcf_bytes(h: &vcf::Header, r: &dyn vcf::variant::Record) -> Result<Vec<u8>, String> {
    let mut w = bcf::io::Writer::from(Vec::new());
    w.write_header(h).map_err(|e| e.to_string())?;
    w.write_variant_record(h, r).map_err(|e| e.to_string())?;
    Ok(w.into_inner())
}

fn bcf_back(bytes: &[u8]) -> Result<(vcf::Header, RecordBuf), String> {
    let mut r = bcf::io::Reader::from(bytes);
    let h = r.read_header().map_err(|e| format!("read_header: {e}"))?;
    let mut rb = RecordBuf::default();
    r.read_record_buf(&h, &mut rb).map_err(|e| format!("read_record_buf: {e}"))?;
    Ok((h, rb))
}

fn bcf_lazy(bytes: &[u8]) -> Result<(vcf::Header, bcf::Record), String> {
    let mut r = bcf::io::Reader::from(bytes);
    let h = r.read_header().map_err(|e| format!("read_header: {e}"))?;
    let mut rec = bcf::Record::default();
    r.read_record(&mut rec).map_err(|e| format!("read_record: {e}"))?;
    Ok((h, rec))
}

fn caught<T>(f: impl FnOnce() -> T + std::panic::UnwindSafe) -> Result<T, String> {
    std::panic::catch_unwind(f).map_err(|p| {
        p.downcast_ref::<String>().cloned().or_else(|| p.downcast_ref::<&str>().map(|s| s.to_string())).unwrap_or_default()
    })
}

fn main() {
    std::panic::set_hook(Box::new(|_| {}));
    let h: vcf::Header = HEADER.parse().unwrap();
    let g01 = || gt(&[(Some(0), false), (Some(1), false)]);
    let out = std::io::stdout();
    let mut o = out.lock();
    macro_rules! say { ($($a:tt)*) => { writeln!(o, $($a)*).unwrap() } }

    say!("== D10 (C09) sample without values → empty column, own reader rejects");
    let r = rec(vec![], &["GT"], vec![vec![], vec![g01()]]);
    let line = vcf_line(&h, &r).unwrap();
    say!("   line {line:?} → {:?}", vcf_parse(&h, &line).map(|_| "ok"));

    say!("== D11 (C09) percent-encoded Character rejected by the eager reader only");
    let r = rec(vec![("XC1", Some(IV::Character(';')))], &["GT"], vec![vec![g01()], vec![g01()]]);
    let line = vcf_line(&h, &r).unwrap();
    say!("   line {line:?} → eager {:?}", vcf_parse(&h, &line).map(|_| "ok"));
    let lazy = vcf::Record::try_from(line.as_bytes()).unwrap();
    say!("   lazy info XC1 = {:?}", lazy.info().get(&h, "XC1").map(|r| r.map(|v| format!("{v:?}"))));

    say!("== V1 header writer drops IDX (C09: parse(write(h)) != h; C10: dictionary mismatch)");
    let hi: vcf::Header = "##fileformat=VCFv4.3\n##INFO=<ID=A,Number=1,Type=Integer,Description=\"\",IDX=2>\n##INFO=<ID=B,Number=1,Type=Integer,Description=\"\",IDX=1>\n##contig=<ID=sq0>\n#CHROM\tPOS\tID\tREF\tALT\tQUAL\tFILTER\tINFO\n".parse().unwrap();
    let mut w = vcf::io::Writer::new(Vec::new());
    w.write_header(&hi).unwrap();
    let text = String::from_utf8(w.into_inner()).unwrap();
    say!("   written: {:?}", text.lines().nth(1).unwrap());
    let back: vcf::Header = text.parse().unwrap();
    say!("   idx before {:?} after {:?}; equal: {}", hi.infos()["A"].idx(), back.infos()["A"].idx(), hi == back);
    let r = RecordBuf::builder()
        .set_reference_sequence_name("sq0")
        .set_reference_bases("A")
        .set_info([("A".to_string(), Some(IV::Integer(7)))].into_iter().collect())
        .build();
    let bytes = bcf_bytes(&hi, &r).unwrap();
    match bcf_back(&bytes) {
        Ok((_, rb)) => say!("   BCF: wrote A=7, read back info {:?}", rb.info()),
        Err(e) => say!("   BCF: wrote A=7, read back Err({e})"),
    }

    say!("== V2 variant_span panics (overflow-checks) when END < POS");
    let rb = vcf_parse(&h, "sq0\t100\t.\tA\t.\t.\t.\tEND=99\tGT\t0/1\t0/1\n").unwrap();
    let hh = h.clone();
    say!("   variant_span: {:?}", caught(move || rb.variant_span(&hh).map_err(|e| e.to_string())));

    say!("== D12 (C10) missing INFO value → todo!() in the BCF encoder");
    let r = rec(vec![("XS1", None)], &["GT"], vec![vec![g01()], vec![g01()]]);
    let hh = h.clone();
    say!("   {:?}", caught(move || bcf_bytes(&hh, &r).map(|_| "ok")));

    say!("== D13 (C10) BCF strings are comma-joined / '.'-coded without escaping");
    let r = rec(
        vec![("XSU", Some(IV::from(vec![Some("a,b".to_string()), Some("c".to_string())])))],
        &["GT", "YS1"],
        vec![vec![g01(), Some(SV::from("."))], vec![g01(), Some(SV::from("x"))]],
    );
    let (_, rb) = bcf_back(&bcf_bytes(&h, &r).unwrap()).unwrap();
    say!("   XSU [\"a,b\",\"c\"] → {:?}; YS1 \".\" → {:?}", rb.info().get("XSU"), rb.samples().values().next().unwrap().values()[1]);

    say!("== D13b lazy bcf::Record percent-decodes string vectors, the eager reader does not");
    let r = rec(vec![("XSU", Some(IV::from(vec![Some("%3B".to_string()), Some("x".to_string())])))], &["GT"], vec![vec![g01()], vec![g01()]]);
    let bytes = bcf_bytes(&h, &r).unwrap();
    let (h2, rb) = bcf_back(&bytes).unwrap();
    let (_, lz) = bcf_lazy(&bytes).unwrap();
    say!("   eager {:?}", rb.info().get("XSU"));
    say!("   lazy  {:?}", lz.info().get(&h2, "XSU").map(|r| r.map(|v| format!("{v:?}"))));

    say!("== V3 genotypes of unequal ploidy → malformed record (padding written after every allele)");
    let r = rec(vec![], &["GT"], vec![vec![gt(&[(Some(0), false), (Some(1), false), (Some(1), false)])], vec![g01()]]);
    let bytes = bcf_bytes(&h, &r).unwrap();
    say!("   0/1/1 + 0/1: indiv bytes {:02x?} → {:?}", &bytes[bytes.len() - 10..], bcf_back(&bytes).map(|x| format!("{:?}", x.1.samples())));
    let r = rec(vec![], &["GT"], vec![vec![Some(SV::Genotype(Genotype::default()))], vec![g01()]]);
    let bytes = bcf_bytes(&h, &r).unwrap();
    say!("   (no alleles) + 0/1 → {:?}", bcf_back(&bytes).map(|x| format!("{:?}", x.1.samples().values().map(|s| format!("{:?}", s.values())).collect::<Vec<_>>())));

    say!("== V4 phasing of a missing allele is lost (0|. → 0/.)");
    let r = rec(vec![], &["GT"], vec![vec![gt(&[(Some(0), true), (None, true)])], vec![g01()]]);
    let (h2, rb) = bcf_back(&bcf_bytes(&h, &r).unwrap()).unwrap();
    say!("   VCF of input {:?}", vcf_line(&h, &r).unwrap());
    say!("   VCF of BCF   {:?}", vcf_line(&h2, &rb).unwrap());

    say!("== V5 integer-vector FORMAT column missing in every sample → malformed record");
    let r = rec(vec![], &["GT", "YIU"], vec![vec![g01(), None], vec![g01(), None]]);
    let bytes = bcf_bytes(&h, &r).unwrap();
    say!("   indiv tail {:02x?} → {:?}", &bytes[bytes.len() - 6..], bcf_back(&bytes).map(|_| "ok"));

    say!("== V6 reserved NaN payloads are not rejected");
    let eov = f32::from_bits(0x7f80_0002);
    let r = rec(vec![("XFU", Some(IV::from(vec![Some(1.0), Some(eov), Some(2.0)])))], &["GT"], vec![vec![g01()], vec![g01()]]);
    let hh = h.clone();
    say!("   INFO float vector: {:?}", caught(move || bcf_bytes(&hh, &r).map(|_| "ok")));
    let r = rec(vec![], &["GT", "YFU"], vec![vec![g01(), Some(SV::from(vec![Some(1.0), Some(eov), Some(2.0)]))], vec![g01(), Some(SV::from(vec![Some(3.0)]))]]);
    match bcf_bytes(&h, &r) {
        Ok(b) => {
            let (_, rb) = bcf_back(&b).unwrap();
            say!("   FORMAT float vector [1, NaN(0x7f800002), 2] → {:?}", rb.samples().values().next().unwrap().values()[1]);
        }
        Err(e) => say!("   FORMAT float vector [1, NaN(0x7f800002), 2]: writer → Err({e}) (fixed)"),
    }
    let r = rec(vec![], &["GT", "YF1"], vec![vec![g01(), Some(SV::from(eov))], vec![g01(), Some(SV::from(1.0f32))]]);
    match bcf_bytes(&h, &r) {
        Ok(bytes) => say!("   FORMAT float scalar: reader → {:?}", caught(move || bcf_back(&bytes).map(|_| "ok"))),
        Err(e) => say!("   FORMAT float scalar: writer → Err({e}) (fixed)"),
    }

    say!("== V7 allele index 127 → arithmetic overflow panic in the GT encoder");
    let r = rec(vec![], &["GT"], vec![vec![gt(&[(Some(0), false), (Some(127), false)])], vec![g01()]]);
    let hh = h.clone();
    say!("   {:?}", caught(move || bcf_bytes(&hh, &r).map(|_| "ok")));

    say!("== V8 lazy per-sample vectors: len() counts the end-of-vector padding");
    let r = rec(vec![], &["GT", "YIU"], vec![vec![g01(), Some(SV::from(vec![Some(1), Some(2), Some(3)]))], vec![g01(), Some(SV::from(vec![Some(4)]))]]);
    let bytes = bcf_bytes(&h, &r).unwrap();
    let (h2, lz) = bcf_lazy(&bytes).unwrap();
    {
        use vcf::variant::record::samples::series::{Value, value::Array};
        let samples = lz.samples().unwrap();
        let s1 = vcf::variant::record::Samples::iter(&samples).nth(1).unwrap();
        if let Some(Ok(Some(Value::Array(Array::Integer(v))))) = s1.get_index(&h2, 1) {
            say!("   sample 1 YIU=[4]: len() = {}, iter().count() = {}", v.len(), v.iter().count());
        }
    }
    let again = bcf_bytes(&h2, &lz).unwrap();
    say!("   re-encoding the lazy record: {:?}", bcf_back(&again).map(|x| format!("{:?}", x.1.samples().values().map(|s| format!("{:?}", s.values()[1])).collect::<Vec<_>>())));

    say!("== V9 lazy INFO: a one-element Int16/Int32 vector is returned as a scalar");
    let r = rec(vec![("XIU", Some(IV::from(vec![Some(5000)])))], &["GT"], vec![vec![g01()], vec![g01()]]);
    let bytes = bcf_bytes(&h, &r).unwrap();
    let (h2, rb) = bcf_back(&bytes).unwrap();
    let (_, lz) = bcf_lazy(&bytes).unwrap();
    say!("   eager {:?}", rb.info().get("XIU"));
    say!("   lazy  {:?}", lz.info().get(&h2, "XIU").map(|r| r.map(|v| format!("{v:?}"))));

    say!("== V11 (C09) a record the VCF writer rejects leaves a partial line in the output");
    {
        let ok = rec(vec![("XS1", Some(IV::from("ok")))], &["GT"], vec![vec![g01()], vec![g01()]]);
        let bad = rec(vec![("XS1", Some(IV::from("x"))), ("XIU", Some(IV::from(vec![Some(i32::MIN)])))], &["GT"], vec![vec![g01()], vec![g01()]]);
        let mut w = vcf::io::Writer::new(Vec::new());
        let r1 = w.write_variant_record(&h, &ok).is_ok();
        let r2 = w.write_variant_record(&h, &bad).map_err(|e| e.to_string());
        let r3 = w.write_variant_record(&h, &ok).is_ok();
        say!("   write ok={r1}, rejected={r2:?}, ok={r3}; output: {:?}", String::from_utf8(w.into_inner()).unwrap());
    }

    say!("== V12 (C09) header_reader() as BufRead: a partial consume truncates the raw header");
    {
        use std::io::{BufRead, Read};
        let text = b"##fileformat=VCFv4.3\n#CHROM\tPOS\tID\tREF\tALT\tQUAL\tFILTER\tINFO\nsq0\t1\t.\tA\t.\t.\t.\t.\n";
        let mut r = vcf::io::Reader::new(&text[..]);
        let mut hr = r.header_reader();
        let mut key = Vec::new();
        hr.read_until(b'=', &mut key).unwrap();
        let mut rest = String::new();
        hr.read_to_string(&mut rest).unwrap();
        say!("   read_until(b'=') → {:?}; then read_to_string → {:?} (expected the remaining 47 header bytes)", String::from_utf8_lossy(&key), rest);
    }

    say!("== V13 (C10) partial IDX + regrouped header lines: two ids share a dictionary index after a rewrite");
    {
        let text = "##fileformat=VCFv4.3\n##FORMAT=<ID=GT,Number=1,Type=String,Description=\"\">\n##INFO=<ID=U,Number=1,Type=Integer,Description=\"\",IDX=51>\n##INFO=<ID=A,Number=1,Type=Integer,Description=\"\">\n##FORMAT=<ID=Y2,Number=.,Type=Integer,Description=\"\",IDX=53>\n##INFO=<ID=B,Number=1,Type=Float,Description=\"\">\n##contig=<ID=sq0>\n#CHROM\tPOS\tID\tREF\tALT\tQUAL\tFILTER\tINFO\tFORMAT\ts0\ts1\nsq0\t1\t.\tA\t.\t.\t.\tB=0.5\tGT\t0/1\t0/1\n";
        let mut r = vcf::io::Reader::new(text.as_bytes());
        let hh = r.read_header().unwrap();
        let recs: Vec<RecordBuf> = r.record_bufs(&hh).collect::<Result<_, _>>().unwrap();
        let mut w = bcf::io::Writer::from(Vec::new());
        match w.write_header(&hh) {
            Ok(()) => {
                w.write_variant_record(&hh, &recs[0]).unwrap();
                say!("   rewritten; read back: {:?}", bcf_back(&w.into_inner()).map(|x| format!("{:?}", x.1.info())));
            }
            Err(e) => say!("   write_header → Err({e}) (fixed)"),
        }
    }

    say!("== V10 bcf::Record::end() on a telomeric record (POS 0) → todo!()");
    let mut r = rec(vec![], &["GT"], vec![vec![g01()], vec![g01()]]);
    *r.variant_start_mut() = None;
    let bytes = bcf_bytes(&h, &r).unwrap();
    let (_, lz) = bcf_lazy(&bytes).unwrap();
    say!("   {:?}", caught(move || lz.end().map(|p| p.get()).map_err(|e| e.to_string())));
}
