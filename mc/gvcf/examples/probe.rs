//! Calibration probe (not a check): prints what noodles does with a handful of records.
use gvcf::{
    cmp::{FloatMode, diff_rec},
    gen_::{Env, IdxMode, Purpose, base_record},
    io,
    model::{Rec, Val},
};

fn show(tag: &str, env: &Env, rec: &Rec) {
    println!("--- {tag}: {}", rec.show());
    let rb = rec.to_record_buf();
    match io::vcf_write_record(&env.header, &rb) {
        Ok(line) => {
            println!("  vcf text: {:?}", String::from_utf8_lossy(&line));
            match io::vcf_read_record_buf(&env.header, &line) {
                Ok(back) => {
                    let got = Rec::from_record_buf(&back);
                    match diff_rec(rec, &got, FloatMode::NanEq) {
                        None => println!("  vcf eager: equal"),
                        Some(d) => println!("  vcf eager: DIFF {} {}", d.fp(), d.detail),
                    }
                }
                Err(e) => println!("  vcf eager read: {}", e.text()),
            }
            match io::vcf_read_lazy(&line) {
                Ok(lz) => match Rec::from_variant(&env.header, &lz) {
                    Ok(got) => match diff_rec(rec, &got, FloatMode::NanEq) {
                        None => println!("  vcf lazy: equal"),
                        Some(d) => println!("  vcf lazy: DIFF {} {}", d.fp(), d.detail),
                    },
                    Err(e) => println!("  vcf lazy accessors: {e}"),
                },
                Err(e) => println!("  vcf lazy read: {}", e.text()),
            }
        }
        Err(e) => println!("  vcf write: {}", e.text()),
    }
    match io::bcf_write(&env.header, std::slice::from_ref(&rb)) {
        Ok(bytes) => {
            match gvcf::bcfraw::parse_stream(&bytes) {
                Ok(st) => {
                    let d = gvcf::bcfraw::dict_from_text(&st.header_text).unwrap();
                    match gvcf::bcfraw::decode(&st.records[0], &d, &env.hdr) {
                        Ok(got) => match diff_rec(rec, &got, FloatMode::Bits) {
                            None => println!("  bcf raw: equal"),
                            Some(d) => println!("  bcf raw: DIFF {} {}", d.fp(), d.detail),
                        },
                        Err(e) => println!("  bcf raw decode: {e}"),
                    }
                }
                Err(e) => println!("  bcf raw parse: {e}"),
            }
            match io::bcf_read(&bytes, 1) {
                Ok((_h, recs)) => {
                    let got = Rec::from_record_buf(&recs[0]);
                    match diff_rec(rec, &got, FloatMode::Bits) {
                        None => println!("  bcf eager: equal"),
                        Some(d) => println!("  bcf eager: DIFF {} {}", d.fp(), d.detail),
                    }
                }
                Err(e) => println!("  bcf eager read: {}", e.text()),
            }
            match io::bcf_read_lazy(&bytes, 1) {
                Ok((h, recs)) => match io::guard(|| Rec::from_variant(&h, &recs[0])) {
                    Ok(got) => match diff_rec(rec, &got, FloatMode::Bits) {
                        None => println!("  bcf lazy: equal"),
                        Some(d) => println!("  bcf lazy: DIFF {} {}", d.fp(), d.detail),
                    },
                    Err(e) => println!("  bcf lazy accessors: {}", e.text()),
                },
                Err(e) => println!("  bcf lazy read: {}", e.text()),
            }
        }
        Err(e) => println!("  bcf write: {}", e.text()),
    }
}

fn main() {
    for idx in [IdxMode::Implicit, IdxMode::Natural, IdxMode::Permuted, IdxMode::Sparse] {
        let env = Env::new((4, 3), 2, idx, Purpose::Bcf, false);
        show(&format!("base1 idx={idx:?}"), &env, &base_record(1, (4, 3)));
    }
    let env3 = Env::new((4, 4), 3, IdxMode::Implicit, Purpose::Bcf, false);
    show("base3", &env3, &base_record(3, (4, 4)));
    let env = Env::new((4, 3), 2, IdxMode::Implicit, Purpose::Bcf, false);
    let b1 = base_record(1, (4, 3));
    // D10
    let mut r = b1.clone();
    r.samples[0].clear();
    show("D10 sample without values", &env, &r);
    // D11
    let mut r = b1.clone();
    r.info.push(("XC1".into(), Some(Val::Char(';'))));
    show("D11 char ;", &env, &r);
    // D12
    let mut r = b1.clone();
    r.info.push(("XS1".into(), None));
    show("D12 missing string", &env, &r);
    let mut r = b1.clone();
    r.info.push(("XI1".into(), None));
    show("D12b missing int", &env, &r);
    // D13
    let mut r = b1.clone();
    r.info.push(("XSU".into(), Some(Val::sa(&[Some("a,b"), Some("c")]))));
    show("D13 comma", &env, &r);
    let mut r = b1.clone();
    r.info.push(("XS1".into(), Some(Val::s("."))));
    show("D13 dot", &env, &r);
    // mixed ploidy
    let mut r = b1.clone();
    r.samples[0][0] = Some(Val::Gt(vec![(Some(0), false), (Some(1), false), (Some(2), false)]));
    show("mixed ploidy 3/2", &env, &r);
    let mut r = b1.clone();
    r.samples[0][0] = Some(Val::Gt(vec![(Some(0), false), (None, true)]));
    show("0|.", &env, &r);
    let mut r = b1.clone();
    r.samples[0][0] = Some(Val::Gt(vec![(Some(0), false), (Some(63), false)]));
    show("0/63", &env, &r);
    // all-missing int array column
    let mut r = b1.clone();
    r.format.push("YIU".into());
    r.samples[0].push(None);
    r.samples[1].push(None);
    show("all-missing YIU column", &env, &r);
    // telomere
    let mut r = b1.clone();
    r.pos = 0;
    show("pos 0", &env, &r);
    // END < POS
    let mut r = b1.clone();
    r.pos = 100;
    r.info.push(("END".into(), Some(Val::Int(99))));
    show("END<POS", &env, &r);
    // float reserved
    let mut r = b1.clone();
    r.info.push(("XFU".into(), Some(Val::FloatA(vec![Some(1f32.to_bits()), Some(0x7f800002), Some(2f32.to_bits())]))));
    show("float EOV in array", &env, &r);
    let mut r = b1.clone();
    r.info.push(("XF1".into(), Some(Val::Float(0x7f800001))));
    show("float missing-NaN scalar", &env, &r);
}
