//! Multi-record files for the buffer-reuse class: a small record set spanning everything-present /
//! everything-missing / one-field-missing (or shorter) variants, and the ordered sequences (all
//! pairs + a few triples) in which consecutive records differ in field presence in both directions.
//! All records are valid under `gen_::rich_header(ff, 2 samples)` and stay clear of the D13 family
//! (no `,`, lone `.` or `%` in strings), so every one of them must round-trip exactly.

use crate::model::{Rec, Val};

fn gt(a: &[(Option<usize>, bool)]) -> Option<Val> {
    // canonical first flag (phased iff every later separator is `|`), valid for every fileformat
    let mut g = a.to_vec();
    if !g.is_empty() {
        g[0].1 = g[1..].iter().all(|x| x.1);
    }
    Some(Val::Gt(g))
}

pub fn full(ff: (u32, u32)) -> Rec {
    let mut info = vec![
        ("XI1".to_string(), Some(Val::Int(7))),
        ("XF".to_string(), Some(Val::Flag)),
        ("XIU".to_string(), Some(Val::IntA(vec![Some(1), Some(40000), Some(3)]))),
        ("XFR".to_string(), Some(Val::fa(&[Some(0.5), None, Some(0.25)]))),
        ("XS1".to_string(), Some(Val::s("str"))),
        ("XSU".to_string(), Some(Val::sa(&[Some("x"), Some("y"), Some("z")]))),
        ("XC1".to_string(), Some(Val::Char('c'))),
        ("XCU".to_string(), Some(Val::CharA(vec![Some('a'), Some('b')]))),
    ];
    if ff < (4, 5) {
        info.push(("END".to_string(), Some(Val::Int(30))));
    } else {
        info.push(("SVLEN".to_string(), Some(Val::IntA(vec![Some(21), None]))));
    }
    Rec {
        chrom: "sq0".into(),
        pos: 10,
        ids: vec!["a".into(), "b".into()],
        refb: "AC".into(),
        alts: vec!["C".into(), "G".into()],
        qual: Some(12.5f32.to_bits()),
        filters: vec!["q10".into(), "s50".into()],
        info,
        format: ["GT", "YI1", "YIU", "YFU", "YS1", "YSU", "YC1"].iter().map(|s| s.to_string()).collect(),
        samples: vec![
            vec![
                gt(&[(Some(0), false), (Some(1), false), (Some(2), false)]),
                Some(Val::Int(5)),
                Some(Val::IntA(vec![Some(1), Some(2), Some(300)])),
                Some(Val::fa(&[Some(1.0), Some(2.0)])),
                Some(Val::s("abc")),
                Some(Val::sa(&[Some("p"), Some("q"), Some("r")])),
                Some(Val::Char('k')),
            ],
            vec![
                gt(&[(Some(1), true), (Some(1), true), (Some(0), true)]),
                Some(Val::Int(7)),
                Some(Val::IntA(vec![Some(4), Some(5), Some(6)])),
                Some(Val::fa(&[Some(3.0), Some(4.0)])),
                Some(Val::s("defg")),
                Some(Val::sa(&[Some("s"), Some("t"), Some("u")])),
                Some(Val::Char('m')),
            ],
        ],
    }
}

/// The record set: (name, record). Index 0 is everything-present, index 1 everything-missing.
pub fn record_set(ff: (u32, u32)) -> Vec<(String, Rec)> {
    record_set_for(ff, false)
}

/// `bcf`: also the records only BCF can hold under a header with samples — a sites-only record
/// (no FORMAT at all: `n_fmt = 0`, `l_indiv = 0`), with and without INFO.
pub fn record_set_for(ff: (u32, u32), bcf: bool) -> Vec<(String, Rec)> {
    let mut out = record_set_inner(ff);
    if bcf {
        let f = full(ff);
        let mut v = f.clone();
        v.format.clear();
        v.samples.clear();
        out.push(("sites-only".to_string(), v));
        out.push((
            "sites-only-empty".to_string(),
            Rec { chrom: "sq1".into(), pos: 33, refb: "G".into(), ..Rec::default() },
        ));
    }
    out
}

fn record_set_inner(ff: (u32, u32)) -> Vec<(String, Rec)> {
    let f = full(ff);
    let mut out: Vec<(String, Rec)> = Vec::new();
    let mut add = |name: &str, r: Rec| out.push((name.to_string(), r));
    add("full", f.clone());
    add(
        "empty",
        Rec {
            chrom: "sq0".into(),
            pos: 20,
            refb: "N".into(),
            format: vec!["GT".into()],
            samples: vec![vec![gt(&[(Some(0), false)])], vec![gt(&[(Some(1), false)])]],
            ..Rec::default()
        },
    );
    add(
        "empty-sample-values",
        Rec {
            chrom: "sq1".into(),
            pos: 21,
            refb: "T".into(),
            format: vec!["YI1".into()],
            samples: vec![vec![None], vec![None]],
            ..Rec::default()
        },
    );
    let mut v = f.clone();
    v.ids.clear();
    add("no-ids", v);
    let mut v = f.clone();
    v.ids = vec!["z".into()];
    add("one-id", v);
    let mut v = f.clone();
    v.alts.clear();
    add("no-alt", v);
    let mut v = f.clone();
    v.alts = vec!["T".into()];
    add("one-alt", v);
    let mut v = f.clone();
    v.qual = None;
    add("no-qual", v);
    let mut v = f.clone();
    v.filters.clear();
    add("no-filter", v);
    let mut v = f.clone();
    v.filters = vec!["PASS".into()];
    add("filter-pass", v);
    let mut v = f.clone();
    v.filters = vec!["s50".into()];
    add("one-filter", v);
    let mut v = f.clone();
    v.pos = 0;
    add("telomere", v);
    let mut v = f.clone();
    v.refb = "A".into();
    add("short-ref", v);
    let mut v = f.clone();
    v.info.clear();
    add("no-info", v);
    for i in 0..f.info.len() {
        let mut v = f.clone();
        let k = v.info.remove(i).0;
        add(&format!("info-without-{k}"), v);
    }
    let mut v = f.clone();
    v.info.retain(|(k, _)| k == "XF");
    add("info-flag-only", v);
    let mut v = f.clone();
    for (k, val) in v.info.iter_mut() {
        match k.as_str() {
            "XIU" => *val = Some(Val::IntA(vec![Some(9)])),
            "XFR" => *val = Some(Val::fa(&[Some(8.0)])),
            "XSU" => *val = Some(Val::sa(&[Some("w")])),
            "XCU" => *val = Some(Val::CharA(vec![Some('z')])),
            "XS1" => *val = Some(Val::s("s")),
            _ => {}
        }
    }
    add("info-shorter-values", v);
    let mut v = f.clone();
    for (k, val) in v.info.iter_mut() {
        if matches!(k.as_str(), "XIU" | "XS1" | "XI1" | "XFR") {
            *val = None;
        }
    }
    add("info-missing-values", v);
    for j in 1..f.format.len() {
        let mut v = f.clone();
        let k = v.format.remove(j);
        for s in &mut v.samples {
            s.remove(j);
        }
        add(&format!("format-without-{k}"), v);
    }
    let mut v = f.clone();
    v.format.truncate(1);
    for s in &mut v.samples {
        s.truncate(1);
    }
    add("format-gt-only", v);
    let mut v = f.clone();
    v.format.remove(0);
    for s in &mut v.samples {
        s.remove(0);
    }
    add("format-without-GT", v);
    let mut v = f.clone();
    for s in &mut v.samples {
        s[2] = Some(Val::IntA(vec![Some(9)]));
        s[3] = Some(Val::fa(&[Some(9.5)]));
        s[4] = Some(Val::s("a"));
        s[5] = Some(Val::sa(&[Some("w")]));
    }
    add("samples-shorter-values", v);
    let mut v = f.clone();
    v.samples[0][1] = None;
    v.samples[0][2] = None;
    v.samples[1][4] = None;
    v.samples[1][5] = None;
    add("samples-missing-values", v);
    let mut v = f.clone();
    v.samples[1].truncate(1);
    add("sample-trailing-dropped", v);
    let mut v = f.clone();
    v.samples[0][0] = gt(&[(Some(0), false), (Some(1), false)]);
    v.samples[1][0] = gt(&[(Some(1), true), (Some(1), true)]);
    add("diploid", v);
    let mut v = f.clone();
    v.samples[0][0] = gt(&[(Some(1), false)]);
    v.samples[1][0] = gt(&[(None, false)]);
    add("haploid", v);
    let mut v = f.clone();
    v.samples[0][0] = gt(&[(Some(0), false), (Some(1), false), (Some(2), false), (Some(1), false)]);
    v.samples[1][0] = gt(&[(Some(0), true), (None, true), (Some(2), true), (Some(1), true)]);
    add("tetraploid", v);
    out
}

/// All ordered pairs (i ≠ j and i = j) plus triples full/X/full, empty/X/empty, X/empty/X.
pub fn sequences(n: usize) -> Vec<Vec<usize>> {
    let mut out = Vec::new();
    for i in 0..n {
        for j in 0..n {
            out.push(vec![i, j]);
        }
    }
    for x in 0..n {
        out.push(vec![0, x, 0]);
        out.push(vec![1, x, 1]);
        out.push(vec![x, 1, x]);
        out.push(vec![x, 0, x]);
    }
    out
}

/// Records each writer must reject (one poisoned field in the everything-present record), by the
/// rejection reasons the model knows. `bcf`: reasons of the BCF writer, else of the VCF text writer.
/// All are relative to `gen_::rich_header(ff, 2 samples)`.
pub fn rejects(ff: (u32, u32), bcf: bool) -> Vec<(String, Rec)> {
    let f = full(ff);
    let mut out: Vec<(String, Rec)> = Vec::new();
    let mut add = |name: &str, r: Rec| out.push((name.to_string(), r));
    let set_info = |r: &mut Rec, k: &str, v: Option<Val>| {
        if let Some(e) = r.info.iter_mut().find(|(x, _)| x == k) {
            e.1 = v;
        } else {
            r.info.push((k.to_string(), v));
        }
    };
    let mut v = f.clone();
    set_info(&mut v, "XI1", Some(Val::Int(i32::MIN + 3)));
    add("info-reserved-int", v);
    let mut v = f.clone();
    set_info(&mut v, "XIU", Some(Val::IntA(vec![Some(1), Some(i32::MIN)])));
    add("info-vector-reserved-int", v);
    let mut v = f.clone();
    v.samples[1][1] = Some(Val::Int(i32::MIN + 7));
    add("format-reserved-int", v);
    let mut v = f.clone();
    v.samples[1][2] = Some(Val::IntA(vec![Some(1), Some(i32::MIN + 1)]));
    add("format-vector-reserved-int", v);
    if !bcf {
        let mut v = f.clone();
        v.info.push(("9X".into(), Some(Val::Int(1))));
        add("invalid-info-key", v);
        let mut v = f.clone();
        v.format.push("9Y".into());
        for s in &mut v.samples {
            s.push(Some(Val::Int(1)));
        }
        add("invalid-format-key", v);
        let mut v = f.clone();
        v.format.swap(0, 1);
        for s in &mut v.samples {
            s.swap(0, 1);
        }
        add("gt-not-first", v);
        let mut v = f.clone();
        v.ids = vec!["a b".into()];
        add("invalid-id", v);
        let mut v = f.clone();
        v.alts = vec!["A,C".into()];
        add("invalid-alt", v);
        let mut v = f.clone();
        v.filters = vec!["q 10".into()];
        add("invalid-filter", v);
        let mut v = f.clone();
        v.chrom = "a b".into();
        add("invalid-chrom", v);
        let mut v = f.clone();
        v.refb = "AZ".into();
        add("invalid-ref-base", v);
    } else {
        let mut v = f.clone();
        v.info.push(("ZZ9".into(), Some(Val::Int(1))));
        add("unknown-info-key", v);
        let mut v = f.clone();
        v.format.push("ZY9".into());
        for s in &mut v.samples {
            s.push(Some(Val::Int(1)));
        }
        add("unknown-format-key", v);
        let mut v = f.clone();
        v.filters = vec!["q10".into(), "nope".into()];
        add("unknown-filter", v);
        let mut v = f.clone();
        v.chrom = "sq9".into();
        add("unknown-contig", v);
        let mut v = f.clone();
        v.samples[1][0] = None;
        add("gt-missing", v);
        let mut v = f.clone();
        v.samples[1][0] = gt(&[(Some(0), false), (Some(63), false), (Some(1), false)]);
        add("gt-allele-63", v);
        let mut v = f.clone();
        set_info(&mut v, "XFR", Some(Val::FloatA(vec![Some(1f32.to_bits()), Some(0x7f80_0002)])));
        add("info-reserved-nan", v);
        let mut v = f.clone();
        v.samples[1][3] = Some(Val::FloatA(vec![Some(0x7f80_0001), Some(2f32.to_bits())]));
        add("format-reserved-nan", v);
        let mut v = f.clone();
        v.samples[1][1] = Some(Val::s("not-an-integer"));
        add("format-type-mismatch", v);
        let mut v = f.clone();
        set_info(&mut v, "XIU", Some(Val::IntA(vec![])));
        add("info-empty-vector", v);
        if ff < (4, 5) {
            let mut v = f.clone();
            set_info(&mut v, "END", Some(Val::Int(3)));
            add("end-before-pos", v);
        }
    }
    out
}
