//! Record comparison honouring the calibrated domain rules.
//!
//! * floats: equal bit patterns; in `NanEq` mode any NaN equals any NaN (VCF text writes `NaN`);
//! * per-sample value lists compare modulo trailing missing values (VCF §1.6.2, BCF pads);
//! * an array consisting of one missing element is the same thing as a missing value
//!   (`K=.` in text, a one-element vector holding the missing code in BCF).

use crate::model::{Rec, Val, show_val};

#[derive(Clone, Copy, Debug, PartialEq, Eq)]
pub enum FloatMode {
    /// bit patterns must be identical
    Bits,
    /// identical bits, or both NaN
    NanEq,
    /// identical bits; an *expected* BCF-reserved NaN (0x7f800001..=0x7f800007) may come back as
    /// any NaN or as missing (the statement exempts the reserved NaNs from bit preservation);
    /// every other element must be intact
    BitsReservedLenient,
}

pub fn is_reserved_nan(b: u32) -> bool {
    (0x7f80_0001..=0x7f80_0007).contains(&b)
}

#[derive(Clone, Debug)]
pub struct Diff {
    /// chrom / pos / ids / ref / alt / qual / filter / info / format / sample
    pub field: &'static str,
    /// value kind of the *expected* side (int, string-array, genotype, …) or `-`
    pub kind: &'static str,
    /// how: value-differs / missing-vs-value / length-differs / keys-differ / count-differs
    pub how: &'static str,
    /// key as used by the generator's shape table: "info:XS1", "sample:YIA", "qual", …
    pub key: String,
    pub detail: String,
}

impl Diff {
    pub fn fp(&self) -> String {
        format!("field={} kind={} symptom={}", self.field, self.kind, self.how)
    }
}

fn feq(a: u32, b: u32, m: FloatMode) -> bool {
    a == b
        || (m == FloatMode::NanEq && f32::from_bits(a).is_nan() && f32::from_bits(b).is_nan())
        || (m == FloatMode::BitsReservedLenient && is_reserved_nan(a) && f32::from_bits(b).is_nan())
}

pub fn val_eq(a: &Val, b: &Val, m: FloatMode) -> bool {
    match (a, b) {
        (Val::Float(x), Val::Float(y)) => feq(*x, *y, m),
        (Val::FloatA(x), Val::FloatA(y)) => {
            x.len() == y.len()
                && x.iter().zip(y).all(|(p, q)| match (p, q) {
                    (None, None) => true,
                    (Some(p), Some(q)) => feq(*p, *q, m),
                    (Some(p), None) => m == FloatMode::BitsReservedLenient && is_reserved_nan(*p),
                    _ => false,
                })
        }
        _ => a == b,
    }
}

fn norm(v: &Option<Val>) -> Option<&Val> {
    match v {
        Some(x) if x.is_single_missing() => None,
        Some(x) => Some(x),
        None => None,
    }
}

fn how(a: Option<&Val>, b: Option<&Val>) -> &'static str {
    match (a, b) {
        (Some(_), None) => "value-became-missing",
        (None, Some(_)) => "missing-became-value",
        (Some(x), Some(y)) => {
            if x.kind() != y.kind() {
                "type-differs"
            } else {
                let len = |v: &Val| match v {
                    Val::IntA(v) => Some(v.len()),
                    Val::FloatA(v) => Some(v.len()),
                    Val::CharA(v) => Some(v.len()),
                    Val::StrA(v) => Some(v.len()),
                    Val::Gt(v) => Some(v.len()),
                    _ => None,
                };
                if len(x) != len(y) { "length-differs" } else { "value-differs" }
            }
        }
        (None, None) => "none",
    }
}

pub fn opt_val_eq(a: &Option<Val>, b: &Option<Val>, m: FloatMode) -> bool {
    match (norm(a), norm(b)) {
        (None, None) => true,
        (Some(x), Some(y)) => val_eq(x, y, m),
        (Some(Val::Float(p)), None) => m == FloatMode::BitsReservedLenient && is_reserved_nan(*p),
        _ => false,
    }
}

/// `exp` is the expected (input) record, `got` what came back.
pub fn diff_rec(exp: &Rec, got: &Rec, m: FloatMode) -> Option<Diff> {
    let d = |field: &'static str, kind, how, detail: String| Some(Diff { field, kind, how, key: field.to_string(), detail });
    if exp.chrom != got.chrom {
        return d("chrom", "-", "value-differs", format!("{:?} vs {:?}", exp.chrom, got.chrom));
    }
    if exp.pos != got.pos {
        return d("pos", "-", "value-differs", format!("{} vs {}", exp.pos, got.pos));
    }
    if exp.ids != got.ids {
        return d("ids", "-", "value-differs", format!("{:?} vs {:?}", exp.ids, got.ids));
    }
    if exp.refb != got.refb {
        return d("ref", "-", "value-differs", format!("{:?} vs {:?}", exp.refb, got.refb));
    }
    if exp.alts != got.alts {
        return d("alt", "-", "value-differs", format!("{:?} vs {:?}", exp.alts, got.alts));
    }
    match (exp.qual, got.qual) {
        (None, None) => {}
        (Some(a), Some(b)) if feq(a, b, m) => {}
        (a, b) => {
            let h = match (a, b) {
                (Some(_), None) => "value-became-missing",
                (None, Some(_)) => "missing-became-value",
                _ => "value-differs",
            };
            return d("qual", "float", h, format!("{:x?} vs {:x?}", a, b));
        }
    }
    if exp.filters != got.filters {
        return d("filter", "-", "value-differs", format!("{:?} vs {:?}", exp.filters, got.filters));
    }
    if exp.info.len() != got.info.len()
        || exp.info.iter().zip(&got.info).any(|(a, b)| a.0 != b.0)
    {
        let ka: Vec<&str> = exp.info.iter().map(|x| x.0.as_str()).collect();
        let kb: Vec<&str> = got.info.iter().map(|x| x.0.as_str()).collect();
        return d("info", "-", "keys-differ", format!("{ka:?} vs {kb:?}"));
    }
    for ((k, a), (_, b)) in exp.info.iter().zip(&got.info) {
        if !opt_val_eq(a, b, m) {
            let kind = a.as_ref().or(b.as_ref()).map(Val::kind).unwrap_or("-");
            return Some(Diff {
                field: "info",
                kind,
                how: how(norm(a), norm(b)),
                key: format!("info:{k}"),
                detail: format!("{k}: {} vs {}", show_val(a.as_ref()), show_val(b.as_ref())),
            });
        }
    }
    if exp.format != got.format {
        return d("format", "-", "keys-differ", format!("{:?} vs {:?}", exp.format, got.format));
    }
    // no FORMAT keys at all: a sites-only record; BCF readers hand back one empty value list per
    // sample of the header, which is the same thing
    let no_values = |r: &Rec| r.format.is_empty() && r.samples.iter().all(|s| s.iter().all(|v| v.is_none()));
    if no_values(exp) && no_values(got) {
        return None;
    }
    if exp.samples.len() != got.samples.len() {
        return d("sample", "-", "count-differs", format!("{} vs {}", exp.samples.len(), got.samples.len()));
    }
    for (i, (a, b)) in exp.samples.iter().zip(&got.samples).enumerate() {
        let n = a.len().max(b.len());
        for j in 0..n {
            let x = a.get(j).cloned().flatten();
            let y = b.get(j).cloned().flatten();
            if !opt_val_eq(&x, &y, m) {
                let kind = x.as_ref().or(y.as_ref()).map(Val::kind).unwrap_or("-");
                let kname = exp.format.get(j).map(String::as_str).unwrap_or("?");
                return Some(Diff {
                    field: "sample",
                    kind,
                    how: how(norm(&x), norm(&y)),
                    key: format!("sample:{kname}"),
                    detail: format!("sample {i} key {kname}: {} vs {}", show_val(x.as_ref()), show_val(y.as_ref())),
                });
            }
        }
    }
    None
}
