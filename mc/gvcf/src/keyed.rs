//! Keyed-lookup family: records whose INFO / FORMAT keys are substrings, prefixes or suffixes of
//! EARLIER keys and of earlier VALUES in the same column (END after CIEND, AF after MAF, DP after
//! NOTE=lowDP, a key equal to a whole earlier value, GQ after XGQ …), in every order. A lazy
//! `get(key)` / `select(key)` that searches for the key text instead of tokenising finds the wrong
//! field. The oracles live in `Rec::from_variant` (get == iter for every key) and in the span check.

use crate::model::{ContigDef, FieldDef, FilterDef, Hdr, Num, Rec, Ty, Val};

pub fn keyed_header(ff: (u32, u32)) -> Hdr {
    let mut h = Hdr::new(ff);
    let svlen = crate::gen_::svlen_num(ff);
    for (id, num, ty) in [
        // Number=2 up to 4.3, Number=. from 4.4 (the header parser checks reserved keys)
        ("CIEND", if ff >= (4, 4) { Num::Unknown } else { Num::Count(2) }, Ty::Integer),
        ("END", Num::Count(1), Ty::Integer),
        ("ENDX", Num::Count(1), Ty::Integer),
        ("EN", Num::Count(1), Ty::String),
        ("MAF", Num::Count(1), Ty::Float),
        ("AF", Num::A, Ty::Float),
        ("NOTE", Num::Count(1), Ty::String),
        ("DP", Num::Count(1), Ty::Integer),
        ("lowDP", Num::Count(0), Ty::Flag),
        ("XSVLEN", Num::Count(1), Ty::Integer),
        ("SVLEN", svlen, Ty::Integer),
        ("F", Num::Count(0), Ty::Flag),
    ] {
        h.infos.push(FieldDef::new(id, num, ty));
    }
    h.filters.push(FilterDef { id: "q10".into(), desc: "q".into(), idx: None, other: vec![] });
    for (id, num, ty) in [
        ("GT", Num::Count(1), Ty::String),
        ("XGQ", Num::Count(1), Ty::Integer),
        ("GQ", Num::Count(1), Ty::Integer),
        ("XAD", Num::Unknown, Ty::Integer),
        ("AD", Num::R, Ty::Integer),
        ("DPX", Num::Count(1), Ty::Integer),
        ("DP", Num::Count(1), Ty::Integer),
        ("TAG", Num::Count(1), Ty::String),
        ("LEN", Num::Count(1), Ty::Integer),
        ("XLEN", Num::Count(1), Ty::Integer),
    ] {
        h.formats.push(FieldDef::new(id, num, ty));
    }
    h.contigs.push(ContigDef { id: "sq0".into(), length: Some(100000), ..Default::default() });
    h.samples = vec!["s0".into(), "s1".into()];
    h
}

fn info_value(key: &str) -> Option<Val> {
    Some(match key {
        "CIEND" => Val::IntA(vec![Some(-10), Some(62)]),
        "END" => Val::Int(100),
        "ENDX" => Val::Int(7),
        "EN" => Val::s("END"),
        "MAF" => Val::f(0.25),
        "AF" => Val::fa(&[Some(0.75)]),
        "NOTE" => Val::s("lowDP"),
        "DP" => Val::Int(13),
        "lowDP" | "F" => Val::Flag,
        "XSVLEN" => Val::Int(3),
        "SVLEN" => Val::IntA(vec![Some(91)]),
        _ => return None,
    })
}

fn fmt_values(key: &str) -> [Option<Val>; 2] {
    match key {
        "XGQ" => [Some(Val::Int(1)), Some(Val::Int(2))],
        "GQ" => [Some(Val::Int(30)), Some(Val::Int(40))],
        "XAD" => [Some(Val::IntA(vec![Some(9), Some(8), Some(7)])), Some(Val::IntA(vec![Some(6)]))],
        "AD" => [Some(Val::IntA(vec![Some(10), Some(20)])), Some(Val::IntA(vec![Some(30), Some(40)]))],
        "DPX" => [Some(Val::Int(111)), None],
        "DP" => [Some(Val::Int(13)), Some(Val::Int(14))],
        "TAG" => [Some(Val::s("DP")), Some(Val::s("GQ"))],
        "LEN" => [Some(Val::Int(55)), Some(Val::Int(5))],
        "XLEN" => [Some(Val::Int(2)), Some(Val::Int(3))],
        _ => [None, None],
    }
}

fn base() -> Rec {
    Rec {
        chrom: "sq0".into(),
        pos: 10,
        refb: "A".into(),
        alts: vec!["<DEL>".into()],
        format: vec!["GT".into()],
        samples: vec![
            vec![Some(Val::Gt(vec![(Some(0), false), (Some(1), false)]))],
            vec![Some(Val::Gt(vec![(Some(1), true), (Some(1), true)]))],
        ],
        ..Rec::default()
    }
}

/// Every ordered pair and triple of the INFO keys, every ordered pair and triple of the FORMAT keys
/// (after GT and without GT), and the full sets in every rotation.
pub fn documents() -> Vec<(String, Rec)> {
    let ik = ["CIEND", "END", "ENDX", "EN", "MAF", "AF", "NOTE", "DP", "lowDP", "XSVLEN", "SVLEN", "F"];
    let fk = ["XGQ", "GQ", "XAD", "AD", "DPX", "DP", "TAG", "LEN", "XLEN"];
    let mut out: Vec<(String, Rec)> = Vec::new();
    let with_info = |keys: &[&str]| {
        let mut r = base();
        r.info = keys.iter().map(|k| (k.to_string(), info_value(k))).collect();
        r
    };
    let with_fmt = |keys: &[&str], gt: bool| {
        let mut r = base();
        if !gt {
            r.format.clear();
            for s in &mut r.samples {
                s.clear();
            }
        }
        for k in keys {
            r.format.push(k.to_string());
            let v = fmt_values(k);
            r.samples[0].push(v[0].clone());
            r.samples[1].push(v[1].clone());
        }
        r
    };
    for a in ik {
        for b in ik {
            if a == b {
                continue;
            }
            out.push((format!("info[{a},{b}]"), with_info(&[a, b])));
            for c in ik {
                if c == a || c == b {
                    continue;
                }
                out.push((format!("info[{a},{b},{c}]"), with_info(&[a, b, c])));
            }
        }
    }
    for rot in 0..ik.len() {
        let mut keys: Vec<&str> = ik.to_vec();
        keys.rotate_left(rot);
        out.push((format!("info-all-rot{rot}"), with_info(&keys)));
        keys.reverse();
        out.push((format!("info-all-rev-rot{rot}"), with_info(&keys)));
    }
    for a in fk {
        for b in fk {
            if a == b {
                continue;
            }
            out.push((format!("format[GT,{a},{b}]"), with_fmt(&[a, b], true)));
            out.push((format!("format[{a},{b}]"), with_fmt(&[a, b], false)));
            for c in fk {
                if c == a || c == b {
                    continue;
                }
                out.push((format!("format[GT,{a},{b},{c}]"), with_fmt(&[a, b, c], true)));
            }
        }
    }
    for rot in 0..fk.len() {
        let mut keys: Vec<&str> = fk.to_vec();
        keys.rotate_left(rot);
        out.push((format!("format-all-rot{rot}"), with_fmt(&keys, true)));
        keys.reverse();
        let mut r = with_fmt(&keys, true);
        r.info = ["CIEND", "END", "NOTE", "DP", "XSVLEN", "SVLEN"].iter().map(|k| (k.to_string(), info_value(k))).collect();
        out.push((format!("format-all-rev-rot{rot}+info"), r));
    }
    out
}
