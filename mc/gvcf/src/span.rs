//! Variant end / span written from the rule the property states
//! ("INFO END before 4.5; max(REF length, INFO SVLEN, FORMAT LEN) from 4.5"), on the model record.
//!
//! Note (observation, not judged): VCF 4.5 §3 measures symbolic SV alleles from the base *after*
//! POS (`END = POS + SVLEN` for `<DEL>`), takes |SVLEN|, and ignores SVLEN of `<INS>`; the rule in
//! the property statement (and in noodles' documentation) is the plain maximum used here. The
//! statement only requires lazy ≡ eager; this function pins the documented rule.

use crate::model::{Rec, Val};

#[derive(Clone, Copy, Debug, PartialEq, Eq)]
pub enum Span {
    /// 1-based inclusive end, and span = end − start + 1
    Ok { end: usize, span: usize },
    /// the rule has no answer (negative length, END < POS, END ≤ 0, wrongly typed field):
    /// the implementation may return `Err`; it must not panic and both views must agree
    Undefined(&'static str),
}

pub fn spec_span(ff: (u32, u32), rec: &Rec) -> Span {
    let start = if rec.pos == 0 { 1 } else { rec.pos };
    if rec.refb.is_empty() {
        return Span::Undefined("empty-ref");
    }
    let ref_len = rec.refb.len();
    let end = if ff < (4, 5) {
        match rec.info.iter().find(|(k, _)| k == "END") {
            Some((_, Some(Val::Int(n)))) => {
                if *n < 1 {
                    return Span::Undefined("end-not-positive");
                }
                *n as usize
            }
            Some((_, Some(_))) => return Span::Undefined("end-not-integer"),
            Some((_, None)) | None => start + ref_len - 1,
        }
    } else {
        let mut len = ref_len;
        match rec.info.iter().find(|(k, _)| k == "SVLEN") {
            Some((_, Some(Val::IntA(v)))) => {
                for n in v.iter().flatten() {
                    if *n < 0 {
                        return Span::Undefined("svlen-negative");
                    }
                    len = len.max(*n as usize);
                }
            }
            Some((_, Some(_))) => return Span::Undefined("svlen-not-integer-array"),
            Some((_, None)) | None => {}
        }
        if let Some(j) = rec.format.iter().position(|k| k == "LEN") {
            for s in &rec.samples {
                match s.get(j) {
                    Some(Some(Val::Int(n))) => {
                        if *n < 0 {
                            return Span::Undefined("len-negative");
                        }
                        len = len.max(*n as usize);
                    }
                    Some(Some(_)) => return Span::Undefined("len-not-integer"),
                    _ => {}
                }
            }
        }
        if len == 0 {
            return Span::Undefined("zero-length");
        }
        start + len - 1
    };
    if end < start {
        return Span::Undefined("end-before-start");
    }
    Span::Ok { end, span: end - start + 1 }
}
