//! "Foreign header layouts through a rewrite": header texts rendered by hand the way other tools may
//! write them — interleaved line kinds, no / partial / permuted IDX, an explicit PASS line that is
//! not first, contig lines between INFO lines — as VCF text and as BCF sources (the BCF record
//! bytes carry the dictionary the foreign TEXT implies).

use crate::{
    bcfraw::{Dict, dict_from_text},
    model::{ContigDef, FieldDef, FilterDef, Hdr, Num, Rec, Ty, Val},
};

#[derive(Clone, Debug, PartialEq)]
pub enum Line {
    Info(&'static str),
    Filter(&'static str),
    Format(&'static str),
    Contig(&'static str),
}

#[derive(Clone, Copy, Debug, PartialEq)]
pub enum IdxStyle {
    None,
    /// every second dictionary line carries an explicit IDX (50, 51, …), the others none
    Partial,
    /// all explicit, in the reverse of the order of appearance
    Permuted,
    /// all explicit, in the order of appearance
    Natural,
}

#[derive(Clone, Copy, Debug, PartialEq)]
pub enum Pass {
    Absent,
    Middle,
    Last,
}

pub const FF: (u32, u32) = (4, 3);

/// Field definitions shared by every layout (name → Number/Type): the model used for decoding.
pub fn model() -> Hdr {
    let mut h = Hdr::new(FF);
    h.infos.push(FieldDef::new("A", Num::Count(1), Ty::Integer));
    h.infos.push(FieldDef::new("B", Num::Count(1), Ty::Float));
    h.infos.push(FieldDef::new("C", Num::Count(0), Ty::Flag));
    h.infos.push(FieldDef::new("UNUSED", Num::Count(1), Ty::Integer));
    h.infos.push(FieldDef::new("NEW", Num::Unknown, Ty::Integer));
    h.filters.push(FilterDef { id: "q10".into(), desc: "q10".into(), idx: None, other: vec![] });
    h.filters.push(FilterDef { id: "s50".into(), desc: "s50".into(), idx: None, other: vec![] });
    h.formats.push(FieldDef::new("GT", Num::Count(1), Ty::String));
    h.formats.push(FieldDef::new("Y1", Num::Count(1), Ty::Integer));
    h.formats.push(FieldDef::new("Y2", Num::Unknown, Ty::Integer));
    h.contigs.push(ContigDef { id: "c0".into(), length: Some(1000), ..Default::default() });
    h.contigs.push(ContigDef { id: "c1".into(), ..Default::default() });
    h.samples = vec!["s0".into(), "s1".into()];
    h
}

pub fn layouts() -> Vec<(&'static str, Vec<Line>)> {
    use Line::*;
    vec![
        (
            "canonical",
            vec![Info("A"), Info("B"), Info("C"), Info("UNUSED"), Filter("q10"), Filter("s50"), Format("GT"), Format("Y1"), Format("Y2"), Contig("c0"), Contig("c1")],
        ),
        (
            "interleaved",
            vec![Info("A"), Filter("q10"), Info("B"), Format("GT"), Info("C"), Filter("s50"), Format("Y1"), Contig("c0"), Info("UNUSED"), Format("Y2"), Contig("c1")],
        ),
        (
            "kinds-reversed",
            vec![Contig("c1"), Contig("c0"), Format("Y2"), Format("Y1"), Format("GT"), Filter("s50"), Filter("q10"), Info("UNUSED"), Info("C"), Info("B"), Info("A")],
        ),
        (
            "contig-between-info-format-first",
            vec![Format("GT"), Info("UNUSED"), Contig("c0"), Info("A"), Format("Y2"), Contig("c1"), Info("B"), Filter("s50"), Info("C"), Format("Y1"), Filter("q10")],
        ),
    ]
}

/// Renders the header text by hand.
pub fn render(lines: &[Line], idx: IdxStyle, pass: Pass) -> String {
    let m = model();
    let mut lines: Vec<Option<Line>> = lines.iter().cloned().map(Some).collect();
    // `None` stands for the explicit PASS line
    match pass {
        Pass::Absent => {}
        Pass::Middle => lines.insert(lines.len() / 2, None),
        Pass::Last => lines.push(None),
    }
    let n_dict = lines.iter().filter(|l| !matches!(l, Some(Line::Contig(_)))).count();
    let n_contig = lines.iter().filter(|l| matches!(l, Some(Line::Contig(_)))).count();
    let mut text = format!("##fileformat=VCFv{}.{}\n", FF.0, FF.1);
    let (mut di, mut ci) = (0usize, 0usize);
    for l in &lines {
        let is_contig = matches!(l, Some(Line::Contig(_)));
        let is_pass = l.is_none();
        let (k, n) = if is_contig { (ci, n_contig) } else { (di, n_dict) };
        let idx_s = match idx {
            _ if is_pass && idx != IdxStyle::None => ",IDX=0".to_string(),
            IdxStyle::None => String::new(),
            IdxStyle::Partial => {
                if k % 2 == 1 {
                    format!(",IDX={}", if is_contig { 10 + k } else { 50 + k })
                } else {
                    String::new()
                }
            }
            // contigs are 0-based; strings start at 1 (PASS is 0)
            IdxStyle::Permuted => format!(",IDX={}", if is_contig { n - 1 - k } else { n - k }),
            IdxStyle::Natural => format!(",IDX={}", if is_contig { k } else { k + 1 }),
        };
        match l {
            None => text.push_str(&format!("##FILTER=<ID=PASS,Description=\"All filters passed\"{idx_s}>\n")),
            Some(Line::Info(id)) => {
                let d = m.info(id).unwrap();
                text.push_str(&format!("##INFO=<ID={id},Number={},Type={},Description=\"{id}\"{idx_s}>\n", d.num.code(), d.ty.code()));
            }
            Some(Line::Filter(id)) => text.push_str(&format!("##FILTER=<ID={id},Description=\"{id}\"{idx_s}>\n")),
            Some(Line::Format(id)) => {
                let d = m.format(id).unwrap();
                text.push_str(&format!("##FORMAT=<ID={id},Number={},Type={},Description=\"{id}\"{idx_s}>\n", d.num.code(), d.ty.code()));
            }
            Some(Line::Contig(id)) => {
                let c = m.contigs.iter().find(|c| c.id == *id).unwrap();
                match c.length {
                    Some(len) => text.push_str(&format!("##contig=<ID={id},length={len}{idx_s}>\n")),
                    None => text.push_str(&format!("##contig=<ID={id}{idx_s}>\n")),
                }
            }
        }
        if is_contig {
            ci += 1;
        } else if !is_pass {
            // the PASS line counts in `n_dict` (permutation arithmetic) but has its own fixed IDX
            di += 1;
        }
    }
    text.push_str("#CHROM\tPOS\tID\tREF\tALT\tQUAL\tFILTER\tINFO\tFORMAT\ts0\ts1\n");
    text
}

/// The model header with every IDX made explicit as the foreign text implies it (so that the
/// noodles writer, which honours IDX, encodes records under exactly that dictionary).
pub fn model_with_dict(d: &Dict) -> Hdr {
    let mut h = model();
    h.infos.retain(|x| x.id != "NEW");
    let si = |id: &str| d.strings.iter().position(|e| e.as_deref() == Some(id));
    for x in &mut h.infos {
        x.idx = si(&x.id);
    }
    for x in &mut h.filters {
        x.idx = si(&x.id);
    }
    for x in &mut h.formats {
        x.idx = si(&x.id);
    }
    for c in &mut h.contigs {
        c.idx = d.contigs.iter().position(|e| e.as_deref() == Some(c.id.as_str()));
    }
    h
}

pub fn records() -> Vec<(&'static str, Rec)> {
    let g = |a: usize, b: usize, ph: bool| Some(Val::Gt(vec![(Some(a), ph), (Some(b), ph)]));
    vec![
        (
            "all-keys",
            Rec {
                chrom: "c0".into(),
                pos: 5,
                refb: "A".into(),
                alts: vec!["C".into()],
                filters: vec!["q10".into(), "s50".into()],
                info: vec![("A".into(), Some(Val::Int(5))), ("B".into(), Some(Val::f(0.5))), ("C".into(), Some(Val::Flag))],
                format: vec!["GT".into(), "Y1".into(), "Y2".into()],
                samples: vec![
                    vec![g(0, 1, false), Some(Val::Int(7)), Some(Val::IntA(vec![Some(1), Some(2)]))],
                    vec![g(1, 1, true), Some(Val::Int(300)), Some(Val::IntA(vec![Some(3)]))],
                ],
                ..Rec::default()
            },
        ),
        (
            "pass-b-only",
            Rec {
                chrom: "c1".into(),
                pos: 9,
                refb: "G".into(),
                filters: vec!["PASS".into()],
                info: vec![("B".into(), Some(Val::f(-1.25)))],
                format: vec!["GT".into()],
                samples: vec![vec![g(0, 0, false)], vec![g(0, 1, false)]],
                ..Rec::default()
            },
        ),
        (
            "s50-c-a-gt-y2",
            Rec {
                chrom: "c0".into(),
                pos: 11,
                refb: "T".into(),
                alts: vec!["A".into(), "G".into()],
                filters: vec!["s50".into()],
                info: vec![("C".into(), Some(Val::Flag)), ("A".into(), Some(Val::Int(-40000)))],
                format: vec!["GT".into(), "Y2".into()],
                samples: vec![vec![g(1, 2, true), Some(Val::IntA(vec![Some(9), None, Some(7)]))], vec![g(2, 2, false), None]],
                ..Rec::default()
            },
        ),
        (
            "sites-only",
            Rec {
                chrom: "c1".into(),
                pos: 20,
                refb: "C".into(),
                filters: vec!["q10".into()],
                info: vec![("A".into(), Some(Val::Int(1)))],
                ..Rec::default()
            },
        ),
    ]
}

pub fn dict_of(text: &str) -> Dict {
    dict_from_text(text).expect("foreign header text has a consistent dictionary")
}

/// "Header edited between read and write": removes the unused INFO definition and puts a new one
/// in front of all others.
pub fn edit_header(h: &mut noodles_vcf::Header) {
    use noodles_vcf::header::record::value::{
        Map,
        map::{Info, info},
    };
    h.infos_mut().shift_remove("UNUSED");
    let mut new = Map::<Info>::new(info::Number::Unknown, info::Type::Integer, "NEW");
    // a header that uses explicit IDX needs one for the new line too (an unused slot)
    let explicit = h.infos().values().any(|m| m.idx().is_some())
        || h.filters().values().any(|m| m.idx().is_some())
        || h.formats().values().any(|m| m.idx().is_some());
    if explicit {
        *new.idx_mut() = Some(90);
    }
    h.infos_mut().shift_insert(0, "NEW".to_string(), new);
}

/// A BCF stream made by hand: magic, the given header text, the given record bytes.
pub fn assemble_bcf(text: &str, record_bytes: &[u8]) -> Vec<u8> {
    let mut out = b"BCF\x02\x02".to_vec();
    out.extend_from_slice(&((text.len() + 1) as u32).to_le_bytes());
    out.extend_from_slice(text.as_bytes());
    out.push(0);
    out.extend_from_slice(record_bytes);
    out
}
