//! "Large dictionary" family: headers whose string dictionary (PASS + INFO + FILTER + FORMAT ids)
//! or contig dictionary has 127 / 128 / 129 / 140 / 300 entries, in natural order and with explicit
//! permuted IDX, and records that reference the entries at dictionary indices 1, 126, 127, 128, 129
//! and last — as INFO key, FORMAT key, single FILTER and multi-FILTER lists in ascending, descending
//! and mixed index order. (Int8 holds indices up to 127: 128 needs Int16.)

use crate::{
    bcfraw::dict_from_model,
    gen_::{IdxMode, apply_idx},
    model::{ContigDef, FieldDef, FilterDef, Hdr, Num, Rec, Ty, Val},
};

#[derive(Clone, Copy, Debug, PartialEq, Eq)]
pub enum Zone {
    Info,
    Filter,
    Format,
    Contig,
}

pub const SIZES: [usize; 5] = [127, 128, 129, 140, 300];
pub const ZONES: [Zone; 4] = [Zone::Info, Zone::Filter, Zone::Format, Zone::Contig];

/// A header whose dictionary (strings, or contigs for `Zone::Contig`) has exactly `total` entries.
pub fn big_header(ff: (u32, u32), total: usize, zone: Zone, idx: IdxMode) -> Hdr {
    let mut h = Hdr::new(ff);
    let ids = total - 1; // PASS is entry 0
    let (n_info, n_filter, n_format, n_contig) = match zone {
        Zone::Info => (ids - 5, 3, 2, 2),
        Zone::Filter => (5, ids - 5, 0, 2),
        Zone::Format => (5, 5, ids - 10, 2),
        Zone::Contig => (2, 2, 2, total),
    };
    for i in 0..n_info {
        h.infos.push(FieldDef::new(&format!("K{i:03}"), Num::Count(1), Ty::Integer));
    }
    for i in 0..n_filter {
        h.filters.push(FilterDef { id: format!("f{i:03}"), desc: format!("filter {i}"), idx: None, other: vec![] });
    }
    for i in 0..n_format {
        if i == 0 {
            h.formats.push(FieldDef::new("GT", Num::Count(1), Ty::String));
        } else {
            h.formats.push(FieldDef::new(&format!("Y{i:03}"), Num::Count(1), Ty::Integer));
        }
    }
    for i in 0..n_contig {
        h.contigs.push(ContigDef { id: format!("c{i:03}"), length: Some(1000 + i), ..Default::default() });
    }
    if n_format > 0 {
        h.samples = vec!["s0".into(), "s1".into()];
    }
    apply_idx(&mut h, idx);
    h
}

fn base(h: &Hdr) -> Rec {
    let mut r = Rec { chrom: h.contigs[0].id.clone(), pos: 7, refb: "A".into(), alts: vec!["C".into()], ..Rec::default() };
    if !h.samples.is_empty() {
        r.format = vec!["GT".into()];
        let g = Some(Val::Gt(vec![(Some(0), false), (Some(1), false)]));
        r.samples = vec![vec![g.clone()], vec![g]];
    }
    r
}

/// Records referencing the dictionary entries at the interesting indices of `h`.
pub fn big_records(h: &Hdr) -> Vec<(String, Rec)> {
    let d = dict_from_model(h).expect("dictionary");
    let mut out: Vec<(String, Rec)> = Vec::new();
    let last = d.strings.len() - 1;
    let mut want: Vec<usize> = vec![1, 2, 126, 127, 128, 129, last.saturating_sub(1), last];
    want.retain(|&i| i >= 1 && i <= last);
    want.sort();
    want.dedup();
    let mut filters_at: Vec<(usize, String)> = Vec::new();
    for &i in &want {
        let Some(name) = d.strings[i].clone() else { continue };
        if h.infos.iter().any(|x| x.id == name) {
            let mut r = base(h);
            r.info = vec![(name.clone(), Some(Val::Int(5)))];
            out.push((format!("info-key@{i}"), r));
            // together with the entry at the lowest index
            if let Some(first) = h.infos.iter().map(|x| x.id.clone()).find(|x| *x != name) {
                let mut r = base(h);
                r.info = vec![(name.clone(), Some(Val::Int(-3))), (first, Some(Val::Int(300)))];
                out.push((format!("info-keys@{i}+other"), r));
            }
        } else if h.filters.iter().any(|x| x.id == name) {
            let mut r = base(h);
            r.filters = vec![name.clone()];
            out.push((format!("filter@{i}"), r));
            filters_at.push((i, name));
        } else if name != "GT" && h.formats.iter().any(|x| x.id == name) {
            let mut r = base(h);
            r.format.push(name.clone());
            r.samples[0].push(Some(Val::Int(5)));
            r.samples[1].push(Some(Val::Int(-200)));
            out.push((format!("format-key@{i}"), r));
        }
    }
    // multi-FILTER lists in every order over the interesting filters (indices ascend in `filters_at`)
    if filters_at.len() >= 2 {
        let lo = filters_at.first().unwrap().clone();
        let hi = filters_at.last().unwrap().clone();
        let mut lists: Vec<(String, Vec<String>)> = vec![
            ("ascending".into(), vec![lo.1.clone(), hi.1.clone()]),
            ("descending".into(), vec![hi.1.clone(), lo.1.clone()]),
        ];
        if filters_at.len() >= 3 {
            let mid = filters_at[filters_at.len() / 2].clone();
            lists.push(("mixed-hi-lo-mid".into(), vec![hi.1.clone(), lo.1.clone(), mid.1.clone()]));
            lists.push(("mixed-mid-hi-lo".into(), vec![mid.1.clone(), hi.1.clone(), lo.1.clone()]));
            lists.push(("mixed-lo-hi-mid".into(), vec![lo.1.clone(), hi.1.clone(), mid.1.clone()]));
        }
        let all_asc: Vec<String> = filters_at.iter().map(|x| x.1.clone()).collect();
        let mut all_desc = all_asc.clone();
        all_desc.reverse();
        lists.push(("all-ascending".into(), all_asc));
        lists.push(("all-descending".into(), all_desc));
        for (n, l) in lists {
            let mut r = base(h);
            r.filters = l;
            out.push((format!("filters-{n}[{}..{}]", lo.0, hi.0), r));
        }
    }
    // contigs
    let lastc = d.contigs.len() - 1;
    let mut wantc: Vec<usize> = vec![0, 1, 126, 127, 128, 129, lastc];
    wantc.retain(|&i| i <= lastc);
    wantc.sort();
    wantc.dedup();
    for i in wantc {
        if let Some(name) = d.contigs[i].clone() {
            let mut r = base(h);
            r.chrom = name;
            out.push((format!("contig@{i}"), r));
        }
    }
    out
}

/// Sparse IDX assignments at every boundary of the typed-integer widths used for dictionary
/// indices (Int8 holds ≤ 127, Int16 ≤ 32767, above that Int32).
pub const SPARSE_IDX: [usize; 8] = [127, 128, 255, 256, 32767, 32768, 40000, 70000];

/// A header whose `zone` ids (8 of them) sit at `SPARSE_IDX`; every other id has a small explicit IDX.
pub fn sparse_header(ff: (u32, u32), zone: Zone) -> Hdr {
    let mut h = Hdr::new(ff);
    let mut small = 1usize;
    let mut next_small = || {
        small += 1;
        small - 1
    };
    let n = SPARSE_IDX.len();
    let (n_info, n_filter, n_format) = match zone {
        Zone::Info => (n, 2, 2),
        Zone::Filter => (2, n, 2),
        Zone::Format => (2, 2, n + 1),
        Zone::Contig => (2, 2, 2),
    };
    for i in 0..n_info {
        let idx = if zone == Zone::Info { SPARSE_IDX[i] } else { next_small() };
        h.infos.push(FieldDef::new(&format!("K{i:03}"), Num::Count(1), Ty::Integer).idx(idx));
    }
    for i in 0..n_filter {
        let idx = if zone == Zone::Filter { SPARSE_IDX[i] } else { next_small() };
        h.filters.push(FilterDef { id: format!("f{i:03}"), desc: format!("filter {i}"), idx: Some(idx), other: vec![] });
    }
    for i in 0..n_format {
        if i == 0 {
            h.formats.push(FieldDef::new("GT", Num::Count(1), Ty::String).idx(next_small()));
        } else {
            let idx = if zone == Zone::Format { SPARSE_IDX[i - 1] } else { next_small() };
            h.formats.push(FieldDef::new(&format!("Y{i:03}"), Num::Count(1), Ty::Integer).idx(idx));
        }
    }
    let contig_idx: Vec<usize> = if zone == Zone::Contig { vec![0, 127, 128, 300] } else { vec![0, 1] };
    for (i, ci) in contig_idx.iter().enumerate() {
        h.contigs.push(ContigDef { id: format!("c{i:03}"), length: Some(1000 + i), idx: Some(*ci), ..Default::default() });
    }
    h.samples = vec!["s0".into(), "s1".into()];
    h
}

/// Records using the sparse ids alone (scalar index) and in lists (vector, mixed widths, every order).
pub fn sparse_records(h: &Hdr, zone: Zone) -> Vec<(String, Rec)> {
    let mut out: Vec<(String, Rec)> = Vec::new();
    // orders over positions in SPARSE_IDX
    let lists: Vec<(&str, Vec<usize>)> = vec![
        ("i8+i16", vec![0, 1]),
        ("i16+i8", vec![1, 0]),
        ("i16+i32", vec![4, 5]),
        ("i32+i16", vec![5, 4]),
        ("i8+i32", vec![0, 7]),
        ("i32+i8", vec![7, 0]),
        ("i16+i32+i16", vec![2, 6, 1]),
        ("i32+i32", vec![6, 7]),
        ("i32+i8+i16", vec![5, 0, 3]),
        ("all-ascending", (0..8).collect()),
        ("all-descending", (0..8).rev().collect()),
    ];
    match zone {
        Zone::Filter => {
            for (i, f) in h.filters.iter().enumerate() {
                let mut r = base(h);
                r.filters = vec![f.id.clone()];
                out.push((format!("filter-idx{}", SPARSE_IDX[i]), r));
            }
            for (n, l) in &lists {
                let mut r = base(h);
                r.filters = l.iter().map(|&i| h.filters[i].id.clone()).collect();
                out.push((format!("filters-{n}"), r));
            }
            // with INFO behind the FILTER vector (the lazy record finds INFO from the FILTER length)
            let mut r = base(h);
            r.filters = vec![h.filters[7].id.clone(), h.filters[0].id.clone()];
            r.info = vec![(h.infos[0].id.clone(), Some(Val::Int(40000))), (h.infos[1].id.clone(), Some(Val::Int(-7)))];
            out.push(("filters-i32+i8-then-info".into(), r));
        }
        Zone::Info => {
            for (i, d) in h.infos.iter().enumerate() {
                let mut r = base(h);
                r.info = vec![(d.id.clone(), Some(Val::Int(5 + i as i32)))];
                r.filters = vec![h.filters[0].id.clone()];
                out.push((format!("info-key-idx{}", SPARSE_IDX[i]), r));
            }
            for (n, l) in &lists {
                let mut r = base(h);
                r.info = l.iter().map(|&i| (h.infos[i].id.clone(), Some(Val::Int(1000 * i as i32 - 3)))).collect();
                out.push((format!("info-keys-{n}"), r));
            }
        }
        Zone::Format => {
            for (i, d) in h.formats.iter().enumerate().skip(1) {
                let mut r = base(h);
                r.format.push(d.id.clone());
                r.samples[0].push(Some(Val::Int(5)));
                r.samples[1].push(Some(Val::Int(-200)));
                out.push((format!("format-key-idx{}", SPARSE_IDX[i - 1]), r));
            }
            for (n, l) in &lists {
                let mut r = base(h);
                for &i in l {
                    r.format.push(h.formats[i + 1].id.clone());
                    r.samples[0].push(Some(Val::Int(i as i32)));
                    r.samples[1].push(if i % 2 == 0 { None } else { Some(Val::Int(40000 + i as i32)) });
                }
                out.push((format!("format-keys-{n}"), r));
            }
        }
        Zone::Contig => {
            for c in &h.contigs {
                let mut r = base(h);
                r.chrom = c.id.clone();
                out.push((format!("contig-idx{}", c.idx.unwrap_or(0)), r));
            }
        }
    }
    out
}

/// Element counts at the typed-descriptor boundary (a length ≥ 15 is followed by a typed integer).
pub const COUNTS: [usize; 5] = [14, 15, 16, 255, 256];

pub fn counts_header(ff: (u32, u32)) -> Hdr {
    let mut h = Hdr::new(ff);
    for (id, num, ty) in [
        ("XIU", Num::Unknown, Ty::Integer),
        ("XFU", Num::Unknown, Ty::Float),
        ("XSU", Num::Unknown, Ty::String),
        ("XCU", Num::Unknown, Ty::Character),
        ("XS1", Num::Count(1), Ty::String),
        ("XF", Num::Count(0), Ty::Flag),
    ] {
        h.infos.push(FieldDef::new(id, num, ty));
    }
    for i in 0..260 {
        h.filters.push(FilterDef { id: format!("f{i:03}"), desc: format!("filter {i}"), idx: None, other: vec![] });
    }
    for (id, num, ty) in [
        ("GT", Num::Count(1), Ty::String),
        ("YIU", Num::Unknown, Ty::Integer),
        ("YFU", Num::Unknown, Ty::Float),
        ("YSU", Num::Unknown, Ty::String),
        ("YS1", Num::Count(1), Ty::String),
    ] {
        h.formats.push(FieldDef::new(id, num, ty));
    }
    h.contigs.push(ContigDef { id: "c000".into(), length: Some(100000), ..Default::default() });
    h.samples = vec!["s0".into(), "s1".into()];
    h
}

pub fn counts_records(h: &Hdr) -> Vec<(String, Rec)> {
    let mut out: Vec<(String, Rec)> = Vec::new();
    let text = |n: usize| "abcdefghijklmnopqrstuvwxyz".chars().cycle().take(n).collect::<String>();
    for n in COUNTS {
        let mut r = base(h);
        r.filters = (0..n).map(|i| format!("f{i:03}")).collect();
        r.info = vec![("XF".into(), Some(Val::Flag)), ("XS1".into(), Some(Val::s("after-the-filters")))];
        out.push((format!("filters-x{n}"), r));
        let mut r = base(h);
        r.filters = (0..n).rev().map(|i| format!("f{i:03}")).collect();
        out.push((format!("filters-descending-x{n}"), r));
        let mut r = base(h);
        r.info = vec![
            ("XIU".into(), Some(Val::IntA((0..n as i32).map(Some).collect()))),
            ("XFU".into(), Some(Val::FloatA((0..n).map(|i| Some((i as f32 * 0.5).to_bits())).collect()))),
            ("XF".into(), Some(Val::Flag)),
        ];
        out.push((format!("info-int+float-vectors-x{n}"), r));
        let mut r = base(h);
        r.info = vec![("XIU".into(), Some(Val::IntA((0..n as i32).map(|i| Some(i * 300)).collect()))), ("XF".into(), Some(Val::Flag))];
        out.push((format!("info-int16-vector-x{n}"), r));
        let mut r = base(h);
        r.info = vec![
            ("XSU".into(), Some(Val::StrA((0..n).map(|i| Some(format!("e{}", i % 10))).collect()))),
            ("XCU".into(), Some(Val::CharA((0..n).map(|i| Some((b'a' + (i % 26) as u8) as char)).collect()))),
            ("XS1".into(), Some(Val::Str(text(n)))),
        ];
        out.push((format!("info-string-vectors-and-string-x{n}"), r));
        let mut r = base(h);
        r.format.extend(["YIU".to_string(), "YFU".to_string(), "YSU".to_string(), "YS1".to_string()]);
        r.samples[0].extend([
            Some(Val::IntA((0..n as i32).map(Some).collect())),
            Some(Val::FloatA((0..n).map(|i| Some((i as f32).to_bits())).collect())),
            Some(Val::StrA((0..n).map(|i| Some(format!("e{}", i % 10))).collect())),
            Some(Val::Str(text(n))),
        ]);
        r.samples[1].extend([Some(Val::IntA(vec![Some(7)])), Some(Val::FloatA(vec![Some(1f32.to_bits())])), Some(Val::sa(&[Some("w")])), Some(Val::s("z"))]);
        out.push((format!("format-vectors-and-string-x{n}"), r));
        let mut r = base(h);
        r.ids = vec![text(n)];
        r.alts = vec![text(n).to_uppercase().replace(|c: char| !"ACGT".contains(c), "A")];
        r.refb = "ACGT".repeat(n / 4 + 1)[..n].to_string();
        out.push((format!("id-ref-alt-of-{n}-bytes"), r));
        if n <= 16 {
            let mut r = base(h);
            r.ids = (0..n).map(|i| format!("i{i}")).collect();
            r.alts = (0..n).map(|i| ["A", "C", "G", "T"][i % 4].repeat(i / 4 + 1)).collect();
            out.push((format!("ids-and-alts-x{n}"), r));
        }
    }
    out
}

pub struct BigCase {
    pub name: String,
    pub hdr: Hdr,
    pub recs: Vec<(String, Rec)>,
}

pub fn cases(ffs: &[(u32, u32)]) -> Vec<BigCase> {
    let mut out = Vec::new();
    for &ff in ffs {
        for zone in ZONES {
            for total in SIZES {
                for idx in [IdxMode::Implicit, IdxMode::Natural, IdxMode::Permuted] {
                    let hdr = big_header(ff, total, zone, idx);
                    let recs = big_records(&hdr);
                    out.push(BigCase { name: format!("ff={}.{} zone={zone:?} entries={total} idx={idx:?}", ff.0, ff.1), hdr, recs });
                }
            }
        }
    }
    for &ff in ffs {
        for zone in ZONES {
            let hdr = sparse_header(ff, zone);
            let recs = sparse_records(&hdr, zone);
            out.push(BigCase { name: format!("ff={}.{} sparse-IDX{:?} zone={zone:?}", ff.0, ff.1, SPARSE_IDX), hdr, recs });
        }
    }
    for &ff in ffs {
        let hdr = counts_header(ff);
        let recs = counts_records(&hdr);
        out.push(BigCase { name: format!("ff={}.{} counts-at-descriptor-boundary{:?}", ff.0, ff.1, COUNTS), hdr, recs });
    }
    out
}
