//! An independent BCF2 reader written from the specification (VCF/BCF §6): stream framing, the
//! dictionary of strings / contigs computed from the embedded header *text*, typed values, and a
//! type-directed decode into the neutral model. Shares no code with noodles.

use crate::model::{Hdr, Num, Rec, Ty, Val};

#[derive(Clone, Debug, PartialEq)]
pub enum RawVec {
    /// type 0
    Missing,
    I8(Vec<i8>),
    I16(Vec<i16>),
    I32(Vec<i32>),
    F32(Vec<u32>),
    Str(Vec<u8>),
}

impl RawVec {
    pub fn width(&self) -> usize {
        match self {
            RawVec::Missing => 0,
            RawVec::I8(_) | RawVec::Str(_) => 1,
            RawVec::I16(_) => 2,
            RawVec::I32(_) | RawVec::F32(_) => 4,
        }
    }
    /// Integer elements widened, with the width's sentinels mapped to a common form.
    pub fn ints(&self) -> Option<Vec<IntEl>> {
        fn cls(v: i64, min: i64) -> IntEl {
            if v == min {
                IntEl::Missing
            } else if v == min + 1 {
                IntEl::Eov
            } else if v <= min + 7 {
                IntEl::Reserved(v as i32)
            } else {
                IntEl::Value(v as i32)
            }
        }
        match self {
            RawVec::I8(v) => Some(v.iter().map(|&x| cls(x as i64, i8::MIN as i64)).collect()),
            RawVec::I16(v) => Some(v.iter().map(|&x| cls(x as i64, i16::MIN as i64)).collect()),
            RawVec::I32(v) => Some(v.iter().map(|&x| cls(x as i64, i32::MIN as i64)).collect()),
            _ => None,
        }
    }
}

#[derive(Clone, Copy, Debug, PartialEq, Eq)]
pub enum IntEl {
    Value(i32),
    Missing,
    Eov,
    Reserved(i32),
}

#[derive(Clone, Debug, PartialEq)]
pub struct Typed {
    /// low nibble of the descriptor
    pub ty: u8,
    pub len: usize,
    /// the length did not fit the nibble and was written as a typed integer
    pub long_len: bool,
    pub vec: RawVec,
}

#[derive(Clone, Debug)]
pub struct FmtCol {
    pub key: Typed,
    pub ty: u8,
    pub len: usize,
    pub long_len: bool,
    pub per_sample: Vec<RawVec>,
}

#[derive(Clone, Debug)]
pub struct RawRecord {
    pub chrom: i32,
    pub pos: i32,
    pub rlen: i32,
    pub qual: u32,
    pub n_info: usize,
    pub n_allele: usize,
    pub n_sample: usize,
    pub n_fmt: usize,
    pub id: Typed,
    pub alleles: Vec<Typed>,
    pub filter: Typed,
    pub info: Vec<(Typed, Typed)>,
    pub fmt: Vec<FmtCol>,
}

struct Cur<'a> {
    b: &'a [u8],
    p: usize,
}

impl<'a> Cur<'a> {
    fn take(&mut self, n: usize) -> Result<&'a [u8], String> {
        if self.b.len() - self.p < n {
            return Err(format!("need {n} bytes at offset {}, have {}", self.p, self.b.len() - self.p));
        }
        let s = &self.b[self.p..self.p + n];
        self.p += n;
        Ok(s)
    }
    fn u8(&mut self) -> Result<u8, String> {
        Ok(self.take(1)?[0])
    }
    fn u32(&mut self) -> Result<u32, String> {
        Ok(u32::from_le_bytes(self.take(4)?.try_into().unwrap()))
    }
    fn i32(&mut self) -> Result<i32, String> {
        Ok(self.u32()? as i32)
    }
    fn done(&self) -> bool {
        self.p == self.b.len()
    }
}

fn read_vec(c: &mut Cur, ty: u8, len: usize) -> Result<RawVec, String> {
    if len > 1 << 20 {
        return Err(format!("implausible vector length {len}"));
    }
    Ok(match ty {
        0 => RawVec::Missing,
        1 => RawVec::I8(c.take(len)?.iter().map(|&b| b as i8).collect()),
        2 => RawVec::I16(c.take(2 * len)?.chunks(2).map(|x| i16::from_le_bytes([x[0], x[1]])).collect()),
        3 => RawVec::I32(
            c.take(4 * len)?.chunks(4).map(|x| i32::from_le_bytes([x[0], x[1], x[2], x[3]])).collect(),
        ),
        5 => RawVec::F32(
            c.take(4 * len)?.chunks(4).map(|x| u32::from_le_bytes([x[0], x[1], x[2], x[3]])).collect(),
        ),
        7 => RawVec::Str(c.take(len)?.to_vec()),
        t => return Err(format!("invalid type code {t}")),
    })
}

/// descriptor byte (+ overflow length) only
fn read_desc(c: &mut Cur) -> Result<(u8, usize, bool), String> {
    let d = c.u8()?;
    let ty = d & 0x0f;
    let mut len = (d >> 4) as usize;
    let mut long = false;
    if len == 15 {
        long = true;
        // a typed scalar integer follows
        let d2 = c.u8()?;
        if d2 >> 4 != 1 {
            return Err(format!("overflow length descriptor 0x{d2:02x} is not a scalar"));
        }
        len = match d2 & 0x0f {
            1 => {
                let v = c.u8()? as i8;
                if v < 0 {
                    return Err("negative overflow length".into());
                }
                v as usize
            }
            2 => {
                let v = i16::from_le_bytes(c.take(2)?.try_into().unwrap());
                if v < 0 {
                    return Err("negative overflow length".into());
                }
                v as usize
            }
            3 => {
                let v = c.i32()?;
                if v < 0 {
                    return Err("negative overflow length".into());
                }
                v as usize
            }
            t => return Err(format!("overflow length has non-integer type {t}")),
        };
        if len < 15 {
            // legal but noteworthy; accepted
        }
    }
    Ok((ty, len, long))
}

fn read_typed(c: &mut Cur) -> Result<Typed, String> {
    let (ty, len, long_len) = read_desc(c)?;
    let vec = read_vec(c, ty, len)?;
    Ok(Typed { ty, len, long_len, vec })
}

pub struct Stream {
    pub header_text: String,
    pub records: Vec<RawRecord>,
    /// byte offset where the records start
    pub records_at: usize,
}

pub fn parse_stream(bytes: &[u8]) -> Result<Stream, String> {
    let mut c = Cur { b: bytes, p: 0 };
    let magic = c.take(5)?;
    if magic != b"BCF\x02\x02" {
        return Err(format!("bad magic {magic:?}"));
    }
    let l_text = c.u32()? as usize;
    let text = c.take(l_text)?;
    if text.last() != Some(&0) {
        return Err("header text is not NUL terminated".into());
    }
    let header_text = String::from_utf8(text[..text.len() - 1].to_vec()).map_err(|e| e.to_string())?;
    let records_at = c.p;
    let mut records = Vec::new();
    while !c.done() {
        let l_shared = c.u32()? as usize;
        let l_indiv = c.u32()? as usize;
        let shared = c.take(l_shared)?;
        let indiv = c.take(l_indiv)?;
        records.push(parse_record(shared, indiv)?);
        if records.len() > 64 {
            return Err("too many records".into());
        }
    }
    Ok(Stream { header_text, records, records_at })
}

fn parse_record(shared: &[u8], indiv: &[u8]) -> Result<RawRecord, String> {
    let mut c = Cur { b: shared, p: 0 };
    let chrom = c.i32()?;
    let pos = c.i32()?;
    let rlen = c.i32()?;
    let qual = c.u32()?;
    let n_allele_info = c.u32()?;
    let n_fmt_sample = c.u32()?;
    let n_info = (n_allele_info & 0xffff) as usize;
    let n_allele = (n_allele_info >> 16) as usize;
    let n_sample = (n_fmt_sample & 0x00ff_ffff) as usize;
    let n_fmt = (n_fmt_sample >> 24) as usize;
    let id = read_typed(&mut c)?;
    let mut alleles = Vec::new();
    for _ in 0..n_allele {
        alleles.push(read_typed(&mut c)?);
    }
    let filter = read_typed(&mut c)?;
    let mut info = Vec::new();
    for _ in 0..n_info {
        let k = read_typed(&mut c)?;
        let v = read_typed(&mut c)?;
        info.push((k, v));
    }
    if !c.done() {
        return Err(format!("shared block: {} trailing bytes after {} INFO fields", shared.len() - c.p, n_info));
    }
    let mut c = Cur { b: indiv, p: 0 };
    let mut fmt = Vec::new();
    for _ in 0..n_fmt {
        let key = read_typed(&mut c)?;
        let (ty, len, long_len) = read_desc(&mut c)?;
        let mut per_sample = Vec::new();
        for _ in 0..n_sample {
            per_sample.push(read_vec(&mut c, ty, len)?);
        }
        fmt.push(FmtCol { key, ty, len, long_len, per_sample });
    }
    if !c.done() {
        return Err(format!("indiv block: {} trailing bytes after {} FORMAT fields", indiv.len() - c.p, n_fmt));
    }
    Ok(RawRecord { chrom, pos, rlen, qual, n_info, n_allele, n_sample, n_fmt, id, alleles, filter, info, fmt })
}

// ------------------------------------------------------------------------------------------------
// dictionaries from the header text (§6.2.1): FILTER/INFO/FORMAT IDs in order of appearance with
// PASS at 0, or at their IDX if given; contigs likewise in their own dictionary.

#[derive(Clone, Debug, Default, PartialEq)]
pub struct Dict {
    pub strings: Vec<Option<String>>,
    pub contigs: Vec<Option<String>>,
}

/// Extracts `ID` and `IDX` from a structured header line `##KEY=<...>` honouring quoted values.
fn id_idx(line: &str) -> (Option<String>, Option<usize>) {
    let Some(open) = line.find("=<") else { return (None, None) };
    let body = &line[open + 2..];
    let body = body.strip_suffix('>').unwrap_or(body);
    let mut id = None;
    let mut idx = None;
    let b = body.as_bytes();
    let mut i = 0;
    while i < b.len() {
        // key
        let ks = i;
        while i < b.len() && b[i] != b'=' {
            i += 1;
        }
        let key = &body[ks..i.min(b.len())];
        i += 1;
        // value
        let mut val = String::new();
        if i < b.len() && b[i] == b'"' {
            i += 1;
            while i < b.len() && b[i] != b'"' {
                if b[i] == b'\\' && i + 1 < b.len() {
                    i += 1;
                }
                val.push(b[i] as char);
                i += 1;
            }
            i += 1;
        } else {
            let vs = i;
            while i < b.len() && b[i] != b',' {
                i += 1;
            }
            val = body[vs..i].to_string();
        }
        if i < b.len() && b[i] == b',' {
            i += 1;
        }
        match key {
            "ID" => id = Some(val),
            "IDX" => idx = val.parse().ok(),
            _ => {}
        }
    }
    (id, idx)
}

pub fn dict_from_text(text: &str) -> Result<Dict, String> {
    fn put(d: &mut Vec<Option<String>>, id: String, idx: Option<usize>) -> Result<(), String> {
        if let Some(pos) = d.iter().position(|e| e.as_deref() == Some(id.as_str())) {
            if let Some(i) = idx {
                if i != pos {
                    return Err(format!("{id} has IDX {i} but already sits at {pos}"));
                }
            }
            return Ok(());
        }
        match idx {
            Some(i) => {
                if d.len() <= i {
                    d.resize(i + 1, None);
                }
                if d[i].is_some() {
                    return Err(format!("IDX {i} used twice"));
                }
                d[i] = Some(id);
            }
            None => d.push(Some(id)),
        }
        Ok(())
    }
    let mut d = Dict { strings: vec![Some("PASS".to_string())], contigs: Vec::new() };
    for line in text.lines() {
        if line.starts_with("##INFO=<") || line.starts_with("##FILTER=<") || line.starts_with("##FORMAT=<") {
            let (id, idx) = id_idx(line);
            let id = id.ok_or_else(|| format!("no ID in {line}"))?;
            put(&mut d.strings, id, idx)?;
        } else if line.starts_with("##contig=<") {
            let (id, idx) = id_idx(line);
            let id = id.ok_or_else(|| format!("no ID in {line}"))?;
            put(&mut d.contigs, id, idx)?;
        }
    }
    Ok(d)
}

/// The dictionary a header *model* implies (IDX honoured), i.e. what the writer was told.
pub fn dict_from_model(h: &Hdr) -> Result<Dict, String> {
    let mut text = String::new();
    let idx = |i: Option<usize>| i.map(|i| format!(",IDX={i}")).unwrap_or_default();
    for d in &h.infos {
        text.push_str(&format!("##INFO=<ID={}{}>\n", d.id, idx(d.idx)));
    }
    for d in &h.filters {
        text.push_str(&format!("##FILTER=<ID={}{}>\n", d.id, idx(d.idx)));
    }
    for d in &h.formats {
        text.push_str(&format!("##FORMAT=<ID={}{}>\n", d.id, idx(d.idx)));
    }
    for d in &h.contigs {
        text.push_str(&format!("##contig=<ID={}{}>\n", d.id, idx(d.idx)));
    }
    dict_from_text(&text)
}

// ------------------------------------------------------------------------------------------------
// type-directed decode into the model

fn scalar_index(t: &Typed) -> Result<usize, String> {
    match t.vec.ints().as_deref() {
        Some([IntEl::Value(v)]) if *v >= 0 => Ok(*v as usize),
        other => Err(format!("dictionary index is not a non-negative scalar integer: {other:?}")),
    }
}

fn str_of(t: &Typed) -> Result<Option<String>, String> {
    match &t.vec {
        RawVec::Missing => Ok(None),
        RawVec::Str(b) if b.is_empty() => Ok(None),
        RawVec::Str(b) => String::from_utf8(b.clone()).map(Some).map_err(|e| e.to_string()),
        other => Err(format!("expected a string, got {other:?}")),
    }
}

/// Integer vector semantics: stop at EOV, sentinel → missing, reserved → error.
fn int_elems(v: &RawVec) -> Result<Vec<Option<i32>>, String> {
    let els = v.ints().ok_or_else(|| format!("expected integers, got {v:?}"))?;
    let mut out = Vec::new();
    for e in els {
        match e {
            IntEl::Eov => break,
            IntEl::Missing => out.push(None),
            IntEl::Value(x) => out.push(Some(x)),
            IntEl::Reserved(x) => return Err(format!("reserved integer code {x} in data")),
        }
    }
    Ok(out)
}

const F_MISSING: u32 = 0x7f80_0001;
const F_EOV: u32 = 0x7f80_0002;

fn float_elems(v: &RawVec) -> Result<Vec<Option<u32>>, String> {
    let RawVec::F32(els) = v else { return Err(format!("expected floats, got {v:?}")) };
    let mut out = Vec::new();
    for &e in els {
        match e {
            F_EOV => break,
            F_MISSING => out.push(None),
            0x7f80_0003..=0x7f80_0007 => return Err(format!("reserved float code 0x{e:08x} in data")),
            x => out.push(Some(x)),
        }
    }
    Ok(out)
}

/// Character strings: NUL padded on the right (per-sample), comma separated vectors, `.` missing.
fn str_payload(v: &RawVec) -> Result<Option<String>, String> {
    match v {
        RawVec::Missing => Ok(None),
        RawVec::Str(b) => {
            let end = b.iter().position(|&x| x == 0).unwrap_or(b.len());
            if b[end..].iter().any(|&x| x != 0) {
                return Err("non-NUL bytes after NUL padding".into());
            }
            if end == 0 {
                return Ok(None);
            }
            String::from_utf8(b[..end].to_vec()).map(Some).map_err(|e| e.to_string())
        }
        other => Err(format!("expected characters, got {other:?}")),
    }
}

fn decode_value(v: &RawVec, num: Num, ty: Ty, is_info: bool) -> Result<Option<Val>, String> {
    match ty {
        Ty::Flag => match v {
            RawVec::Missing => Ok(Some(Val::Flag)),
            RawVec::I8(x) if x.as_slice() == [1] => Ok(Some(Val::Flag)),
            other => Err(format!("flag stored as {other:?}")),
        },
        Ty::Integer => {
            if matches!(v, RawVec::Missing) {
                return Ok(None);
            }
            let e = int_elems(v)?;
            if e.is_empty() {
                return Ok(None);
            }
            if num.is_scalar() {
                if e.len() != 1 {
                    return Err(format!("Number=1 integer stored with {} elements", e.len()));
                }
                Ok(e[0].map(Val::Int))
            } else {
                Ok(Some(Val::IntA(e)))
            }
        }
        Ty::Float => {
            if matches!(v, RawVec::Missing) {
                return Ok(None);
            }
            let e = float_elems(v)?;
            if e.is_empty() {
                return Ok(None);
            }
            if num.is_scalar() {
                if e.len() != 1 {
                    return Err(format!("Number=1 float stored with {} elements", e.len()));
                }
                Ok(e[0].map(Val::Float))
            } else {
                Ok(Some(Val::FloatA(e)))
            }
        }
        Ty::Character | Ty::String => {
            let Some(s) = str_payload(v)? else { return Ok(None) };
            if num.is_scalar() {
                // per-sample strings use `.` for a missing value (that is how VCF text is carried
                // over); a typed INFO string is missing when it is empty
                if s == "." && !is_info {
                    return Ok(None);
                }
                if ty == Ty::Character {
                    let mut it = s.chars();
                    let c = it.next().unwrap();
                    if it.next().is_some() {
                        return Err(format!("Number=1 character stored as {s:?}"));
                    }
                    Ok(Some(Val::Char(c)))
                } else {
                    Ok(Some(Val::Str(s)))
                }
            } else if ty == Ty::Character {
                let mut out = Vec::new();
                for part in s.split(',') {
                    let mut it = part.chars();
                    match (it.next(), it.next()) {
                        (Some('.'), None) => out.push(None),
                        (Some(c), None) => out.push(Some(c)),
                        _ => return Err(format!("character vector element {part:?}")),
                    }
                }
                Ok(Some(Val::CharA(out)))
            } else {
                Ok(Some(Val::StrA(
                    s.split(',').map(|p| if p == "." { None } else { Some(p.to_string()) }).collect(),
                )))
            }
        }
    }
}

fn decode_gt(v: &RawVec) -> Result<Option<Val>, String> {
    let els = v.ints().ok_or_else(|| format!("GT stored as {v:?}"))?;
    let mut out = Vec::new();
    for e in els {
        match e {
            IntEl::Eov => break,
            IntEl::Value(x) if x >= 0 => {
                let allele = (x >> 1) - 1;
                let phased = x & 1 == 1;
                out.push((if allele < 0 { None } else { Some(allele as usize) }, phased));
            }
            other => return Err(format!("GT element {other:?}")),
        }
    }
    Ok(Some(Val::Gt(out)))
}

/// Decodes one raw record under the dictionary `d` (from the embedded text) and the field
/// definitions of the header model.
pub fn decode(raw: &RawRecord, d: &Dict, h: &Hdr) -> Result<Rec, String> {
    let name = |dict: &Vec<Option<String>>, i: usize, what: &str| -> Result<String, String> {
        dict.get(i).cloned().flatten().ok_or_else(|| format!("{what} index {i} is not in the dictionary"))
    };
    if raw.chrom < 0 {
        return Err(format!("CHROM {}", raw.chrom));
    }
    let chrom = name(&d.contigs, raw.chrom as usize, "contig")?;
    if raw.pos < -1 {
        return Err(format!("POS {}", raw.pos));
    }
    let pos = (raw.pos + 1) as usize;
    let ids = match str_of(&raw.id)? {
        None => Vec::new(),
        Some(s) if s == "." => Vec::new(),
        Some(s) => s.split(';').map(str::to_string).collect(),
    };
    if raw.alleles.is_empty() {
        return Err("no REF allele".into());
    }
    let refb = str_of(&raw.alleles[0])?.unwrap_or_default();
    let mut alts = Vec::new();
    for a in &raw.alleles[1..] {
        alts.push(str_of(a)?.unwrap_or_default());
    }
    let qual = if raw.qual == F_MISSING { None } else { Some(raw.qual) };
    let mut filters = Vec::new();
    match &raw.filter.vec {
        RawVec::Missing => {}
        v => {
            for e in int_elems(v)? {
                let i = e.ok_or("missing code in FILTER vector")?;
                if i < 0 {
                    return Err(format!("FILTER index {i}"));
                }
                filters.push(name(&d.strings, i as usize, "FILTER")?);
            }
        }
    }
    let mut info = Vec::new();
    for (k, v) in &raw.info {
        let key = name(&d.strings, scalar_index(k)?, "INFO key")?;
        let def = h.info(&key).ok_or_else(|| format!("INFO {key} is not defined"))?;
        info.push((key, decode_value(&v.vec, def.num, def.ty, true)?));
    }
    let mut format = Vec::new();
    let mut samples: Vec<Vec<Option<Val>>> = vec![Vec::new(); raw.n_sample];
    for col in &raw.fmt {
        let key = name(&d.strings, scalar_index(&col.key)?, "FORMAT key")?;
        for (i, v) in col.per_sample.iter().enumerate() {
            let val = if key == "GT" {
                decode_gt(v)?
            } else {
                let def = h.format(&key).ok_or_else(|| format!("FORMAT {key} is not defined"))?;
                decode_value(v, def.num, def.ty, false)?
            };
            samples[i].push(val);
        }
        format.push(key);
    }
    Ok(Rec { chrom, pos, ids, refb, alts, qual, filters, info, format, samples })
}

/// Smallest integer width (bytes) that holds every value without touching that width's sentinels.
pub fn min_int_width(vals: impl Iterator<Item = i32>) -> usize {
    let mut w = 1;
    for v in vals {
        let need = if (-120..=127).contains(&v) {
            1
        } else if (-32760..=32767).contains(&v) {
            2
        } else {
            4
        };
        w = w.max(need);
    }
    w
}
