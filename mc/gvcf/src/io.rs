//! Thin wrappers around the noodles public I/O API (every call goes through `vmc::catch`, a panic
//! comes back as `Fail::Panic`).

use noodles_bcf as bcf;
use noodles_vcf as vcf;
use vcf::variant::{RecordBuf, io::Write as _};

#[derive(Clone, Debug)]
pub enum Fail {
    Err(String),
    Panic { msg: String, file: String },
}

impl Fail {
    pub fn is_panic(&self) -> bool {
        matches!(self, Fail::Panic { .. })
    }
    pub fn text(&self) -> String {
        match self {
            Fail::Err(e) => format!("Err({e})"),
            Fail::Panic { msg, file } => format!("panic: {msg} in {file}"),
        }
    }
    /// Fingerprint words for a panic.
    pub fn panic_fp(&self) -> String {
        match self {
            Fail::Panic { msg, file } => format!("outcome=panic msg={} file={}", vmc::normalise_msg(msg), file),
            Fail::Err(_) => "outcome=err".into(),
        }
    }
}

fn err_chain(e: &(dyn std::error::Error + 'static)) -> String {
    let mut s = e.to_string();
    let mut cur = e.source();
    let mut n = 0;
    while let Some(c) = cur {
        s.push_str(": ");
        s.push_str(&c.to_string());
        cur = c.source();
        n += 1;
        if n > 8 {
            break;
        }
    }
    s
}

pub fn guard<T>(f: impl FnOnce() -> Result<T, String>) -> Result<T, Fail> {
    match vmc::catch(f) {
        Ok(Ok(v)) => Ok(v),
        Ok(Err(e)) => Err(Fail::Err(e)),
        Err((msg, file)) => {
            // path relative to the noodles workspace wherever it is checked out (vmc strips "/repo/" only)
            let file = match file.find("noodles-") {
                Some(i) => file[i..].to_string(),
                None => file,
            };
            Err(Fail::Panic { msg, file })
        }
    }
}

fn ioe(e: std::io::Error) -> String {
    err_chain(&e)
}

pub fn vcf_write_header(h: &vcf::Header) -> Result<Vec<u8>, Fail> {
    guard(|| {
        let mut w = vcf::io::Writer::new(Vec::new());
        w.write_header(h).map_err(ioe)?;
        Ok(w.into_inner())
    })
}

pub fn vcf_read_header(text: &[u8]) -> Result<vcf::Header, Fail> {
    guard(|| {
        let mut r = vcf::io::Reader::new(text);
        r.read_header().map_err(ioe)
    })
}

/// Writes one record (any `variant::Record`) as a VCF line (with the trailing newline).
pub fn vcf_write_record<R>(h: &vcf::Header, rec: &R) -> Result<Vec<u8>, Fail>
where
    R: vcf::variant::Record,
{
    guard(|| {
        let mut w = vcf::io::Writer::new(Vec::new());
        w.write_variant_record(h, rec).map_err(ioe)?;
        Ok(w.into_inner())
    })
}

pub fn vcf_read_record_buf(h: &vcf::Header, line: &[u8]) -> Result<RecordBuf, Fail> {
    guard(|| {
        let mut r = vcf::io::Reader::new(line);
        let mut rb = RecordBuf::default();
        let n = r.read_record_buf(h, &mut rb).map_err(ioe)?;
        if n == 0 {
            return Err("read_record_buf returned 0 (EOF)".into());
        }
        Ok(rb)
    })
}

pub fn vcf_read_lazy(line: &[u8]) -> Result<vcf::Record, Fail> {
    guard(|| {
        let mut r = vcf::io::Reader::new(line);
        let mut rec = vcf::Record::default();
        let n = r.read_record(&mut rec).map_err(ioe)?;
        if n == 0 {
            return Err("read_record returned 0 (EOF)".into());
        }
        Ok(rec)
    })
}

/// Raw (not BGZF-compressed) BCF stream: magic, header, the given records.
pub fn bcf_write(h: &vcf::Header, recs: &[RecordBuf]) -> Result<Vec<u8>, Fail> {
    guard(|| {
        let mut w = bcf::io::Writer::from(Vec::new());
        w.write_header(h).map_err(|e| format!("write_header: {}", ioe(e)))?;
        for r in recs {
            w.write_variant_record(h, r).map_err(|e| format!("write_record: {}", ioe(e)))?;
        }
        Ok(w.into_inner())
    })
}

/// Raw BCF stream holding one record given through any `variant::Record` view.
pub fn bcf_write_any<R>(h: &vcf::Header, rec: &R) -> Result<Vec<u8>, Fail>
where
    R: vcf::variant::Record,
{
    guard(|| {
        let mut w = bcf::io::Writer::from(Vec::new());
        w.write_header(h).map_err(|e| format!("write_header: {}", ioe(e)))?;
        w.write_variant_record(h, rec).map_err(|e| format!("write_record: {}", ioe(e)))?;
        Ok(w.into_inner())
    })
}

/// Header only (to find where the records start).
pub fn bcf_write_header_only(h: &vcf::Header) -> Result<Vec<u8>, Fail> {
    bcf_write(h, &[])
}

pub fn bcf_read(bytes: &[u8], max: usize) -> Result<(vcf::Header, Vec<RecordBuf>), Fail> {
    guard(|| {
        let mut r = bcf::io::Reader::from(bytes);
        let h = r.read_header().map_err(|e| format!("read_header: {}", ioe(e)))?;
        let mut out = Vec::new();
        loop {
            let mut rb = RecordBuf::default();
            let n = r.read_record_buf(&h, &mut rb).map_err(|e| format!("read_record_buf: {}", ioe(e)))?;
            if n == 0 {
                break;
            }
            out.push(rb);
            if out.len() > max {
                return Err("more records than written".into());
            }
        }
        Ok((h, out))
    })
}

pub fn bcf_read_lazy(bytes: &[u8], max: usize) -> Result<(vcf::Header, Vec<bcf::Record>), Fail> {
    guard(|| {
        let mut r = bcf::io::Reader::from(bytes);
        let h = r.read_header().map_err(|e| format!("read_header: {}", ioe(e)))?;
        let mut out = Vec::new();
        loop {
            let mut rec = bcf::Record::default();
            let n = r.read_record(&mut rec).map_err(|e| format!("read_record: {}", ioe(e)))?;
            if n == 0 {
                break;
            }
            out.push(rec);
            if out.len() > max {
                return Err("more records than written".into());
            }
        }
        Ok((h, out))
    })
}

/// Records of a raw BCF stream whose header block is known (`skip` bytes) and already parsed.
pub fn bcf_read_records(h: &vcf::Header, bytes: &[u8], skip: usize, max: usize) -> Result<Vec<RecordBuf>, Fail> {
    guard(|| {
        let mut r = bcf::io::Reader::from(&bytes[skip..]);
        let mut out = Vec::new();
        loop {
            let mut rb = RecordBuf::default();
            let n = r.read_record_buf(h, &mut rb).map_err(|e| format!("read_record_buf: {}", ioe(e)))?;
            if n == 0 {
                break;
            }
            out.push(rb);
            if out.len() > max {
                return Err("more records than written".into());
            }
        }
        Ok(out)
    })
}

pub fn bcf_read_lazy_records(bytes: &[u8], skip: usize, max: usize) -> Result<Vec<bcf::Record>, Fail> {
    guard(|| {
        let mut r = bcf::io::Reader::from(&bytes[skip..]);
        let mut out = Vec::new();
        loop {
            let mut rec = bcf::Record::default();
            let n = r.read_record(&mut rec).map_err(|e| format!("read_record: {}", ioe(e)))?;
            if n == 0 {
                break;
            }
            out.push(rec);
            if out.len() > max {
                return Err("more records than written".into());
            }
        }
        Ok(out)
    })
}

// ------------------------------------------------------------------------------------------------
// multi-record files: every way of reading them back, each record turned into the model as soon as
// it is produced (a reused buffer is overwritten by the next read)

use crate::model::Rec;

pub const READ_APIS: [&str; 5] = ["reuse-loop", "record_bufs", "fresh-buffer", "lazy-reuse-loop", "lazy-records"];

/// Header + records as one VCF text file.
pub fn vcf_write_file(h: &vcf::Header, recs: &[RecordBuf]) -> Result<Vec<u8>, Fail> {
    guard(|| {
        let mut w = vcf::io::Writer::new(Vec::new());
        w.write_header(h).map_err(ioe)?;
        for r in recs {
            w.write_variant_record(h, r).map_err(ioe)?;
        }
        Ok(w.into_inner())
    })
}

/// Reads a whole VCF text file through read API number `api` (see `READ_APIS`).
pub fn vcf_read_file(bytes: &[u8], api: usize, max: usize) -> Result<Vec<Rec>, Fail> {
    guard(|| {
        let mut r = vcf::io::Reader::new(bytes);
        let h = r.read_header().map_err(|e| format!("read_header: {}", ioe(e)))?;
        let mut out = Vec::new();
        match api {
            0 => {
                let mut rb = RecordBuf::default();
                while r.read_record_buf(&h, &mut rb).map_err(|e| format!("record {}: {}", out.len(), ioe(e)))? != 0 {
                    out.push(Rec::from_record_buf(&rb));
                    if out.len() > max {
                        break;
                    }
                }
            }
            1 => {
                for x in r.record_bufs(&h) {
                    let rb = x.map_err(|e| format!("record {}: {}", out.len(), ioe(e)))?;
                    out.push(Rec::from_record_buf(&rb));
                    if out.len() > max {
                        break;
                    }
                }
            }
            2 => loop {
                let mut rb = RecordBuf::default();
                if r.read_record_buf(&h, &mut rb).map_err(|e| format!("record {}: {}", out.len(), ioe(e)))? == 0 || out.len() > max {
                    break;
                }
                out.push(Rec::from_record_buf(&rb));
            },
            3 => {
                let mut rec = vcf::Record::default();
                while r.read_record(&mut rec).map_err(|e| format!("record {}: {}", out.len(), ioe(e)))? != 0 {
                    out.push(Rec::from_variant(&h, &rec).map_err(|e| format!("record {}: {e}", out.len()))?);
                    if out.len() > max {
                        break;
                    }
                }
            }
            _ => {
                for x in r.records() {
                    let rec = x.map_err(|e| format!("record {}: {}", out.len(), ioe(e)))?;
                    out.push(Rec::from_variant(&h, &rec).map_err(|e| format!("record {}: {e}", out.len()))?);
                    if out.len() > max {
                        break;
                    }
                }
            }
        }
        Ok(out)
    })
}

/// Reads a whole raw BCF stream through read API number `api`.
pub fn bcf_read_file(bytes: &[u8], api: usize, max: usize) -> Result<Vec<Rec>, Fail> {
    guard(|| {
        let mut r = bcf::io::Reader::from(bytes);
        let h = r.read_header().map_err(|e| format!("read_header: {}", ioe(e)))?;
        let mut out = Vec::new();
        match api {
            0 => {
                let mut rb = RecordBuf::default();
                while r.read_record_buf(&h, &mut rb).map_err(|e| format!("record {}: {}", out.len(), ioe(e)))? != 0 {
                    out.push(Rec::from_record_buf(&rb));
                    if out.len() > max {
                        break;
                    }
                }
            }
            1 => {
                for x in r.record_bufs(&h) {
                    let rb = x.map_err(|e| format!("record {}: {}", out.len(), ioe(e)))?;
                    out.push(Rec::from_record_buf(&rb));
                    if out.len() > max {
                        break;
                    }
                }
            }
            2 => loop {
                let mut rb = RecordBuf::default();
                if r.read_record_buf(&h, &mut rb).map_err(|e| format!("record {}: {}", out.len(), ioe(e)))? == 0 || out.len() > max {
                    break;
                }
                out.push(Rec::from_record_buf(&rb));
            },
            3 => {
                let mut rec = bcf::Record::default();
                while r.read_record(&mut rec).map_err(|e| format!("record {}: {}", out.len(), ioe(e)))? != 0 {
                    out.push(Rec::from_variant(&h, &rec).map_err(|e| format!("record {}: {e}", out.len()))?);
                    if out.len() > max {
                        break;
                    }
                }
            }
            _ => {
                for x in r.records() {
                    let rec = x.map_err(|e| format!("record {}: {}", out.len(), ioe(e)))?;
                    out.push(Rec::from_variant(&h, &rec).map_err(|e| format!("record {}: {e}", out.len()))?);
                    if out.len() > max {
                        break;
                    }
                }
            }
        }
        Ok(out)
    })
}

/// One writer instance, the header, then every record in order; returns the bytes and, per record,
/// whether the write was accepted (`Ok`) or rejected (`Err(text)`).
pub fn vcf_write_ops(h: &vcf::Header, recs: &[RecordBuf]) -> Result<(Vec<u8>, Vec<Result<(), String>>), Fail> {
    guard(|| {
        let mut w = vcf::io::Writer::new(Vec::new());
        w.write_header(h).map_err(ioe)?;
        let mut res = Vec::new();
        for r in recs {
            res.push(w.write_variant_record(h, r).map_err(ioe));
        }
        Ok((w.into_inner(), res))
    })
}

pub fn bcf_write_ops(h: &vcf::Header, recs: &[RecordBuf]) -> Result<(Vec<u8>, Vec<Result<(), String>>), Fail> {
    guard(|| {
        let mut w = bcf::io::Writer::from(Vec::new());
        w.write_header(h).map_err(|e| format!("write_header: {}", ioe(e)))?;
        let mut res = Vec::new();
        for r in recs {
            res.push(w.write_variant_record(h, r).map_err(ioe));
        }
        Ok((w.into_inner(), res))
    })
}
