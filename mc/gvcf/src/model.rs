//! Neutral value model of VCF headers and records, and conversions to / from noodles values.

use std::fmt::Write as _;

use noodles_core::Position;
use noodles_vcf as vcf;
use vcf::{
    header::{
        FileFormat,
        record::value::{
            Collection, Map,
            map::{AlternativeAllele, Contig, Filter, Format, Info, Other, format, info},
        },
    },
    variant::{
        RecordBuf,
        record::samples::series::value::genotype::Phasing,
        record_buf::{
            AlternateBases, Filters, Ids, Samples,
            info::field::{Value as IV, value::Array as IA},
            samples::sample::{
                Value as SV,
                value::{Array as SA, Genotype, genotype::Allele},
            },
        },
    },
};

// ------------------------------------------------------------------------------------------------
// header model

#[derive(Clone, Copy, Debug, PartialEq, Eq, Hash)]
pub enum Num {
    Count(usize),
    A,
    R,
    G,
    Unknown,
    /// FORMAT-only numbers (never generated; only so that `from_header` is total).
    LA,
    LR,
    LG,
    P,
    M,
}

#[derive(Clone, Copy, Debug, PartialEq, Eq, Hash)]
pub enum Ty {
    Integer,
    Float,
    Flag,
    Character,
    String,
}

impl Num {
    pub fn code(self) -> String {
        match self {
            Num::Count(n) => n.to_string(),
            Num::A => "A".into(),
            Num::R => "R".into(),
            Num::G => "G".into(),
            Num::Unknown => ".".into(),
            Num::LA => "LA".into(),
            Num::LR => "LR".into(),
            Num::LG => "LG".into(),
            Num::P => "P".into(),
            Num::M => "M".into(),
        }
    }
    pub fn is_scalar(self) -> bool {
        self == Num::Count(1)
    }
    fn info(self) -> info::Number {
        match self {
            Num::Count(n) => info::Number::Count(n),
            Num::A => info::Number::AlternateBases,
            Num::R => info::Number::ReferenceAlternateBases,
            Num::G => info::Number::Samples,
            _ => info::Number::Unknown,
        }
    }
    fn format(self) -> format::Number {
        match self {
            Num::Count(n) => format::Number::Count(n),
            Num::A => format::Number::AlternateBases,
            Num::R => format::Number::ReferenceAlternateBases,
            Num::G => format::Number::Samples,
            Num::Unknown => format::Number::Unknown,
            Num::LA => format::Number::LocalAlternateBases,
            Num::LR => format::Number::LocalReferenceAlternateBases,
            Num::LG => format::Number::LocalSamples,
            Num::P => format::Number::Ploidy,
            Num::M => format::Number::BaseModifications,
        }
    }
    fn of_info(n: info::Number) -> Self {
        match n {
            info::Number::Count(n) => Num::Count(n),
            info::Number::AlternateBases => Num::A,
            info::Number::ReferenceAlternateBases => Num::R,
            info::Number::Samples => Num::G,
            info::Number::Unknown => Num::Unknown,
        }
    }
    fn of_format(n: format::Number) -> Self {
        match n {
            format::Number::Count(n) => Num::Count(n),
            format::Number::AlternateBases => Num::A,
            format::Number::ReferenceAlternateBases => Num::R,
            format::Number::Samples => Num::G,
            format::Number::Unknown => Num::Unknown,
            format::Number::LocalAlternateBases => Num::LA,
            format::Number::LocalReferenceAlternateBases => Num::LR,
            format::Number::LocalSamples => Num::LG,
            format::Number::Ploidy => Num::P,
            format::Number::BaseModifications => Num::M,
        }
    }
}

impl Ty {
    pub fn code(self) -> &'static str {
        match self {
            Ty::Integer => "Integer",
            Ty::Float => "Float",
            Ty::Flag => "Flag",
            Ty::Character => "Character",
            Ty::String => "String",
        }
    }
    fn info(self) -> info::Type {
        match self {
            Ty::Integer => info::Type::Integer,
            Ty::Float => info::Type::Float,
            Ty::Flag => info::Type::Flag,
            Ty::Character => info::Type::Character,
            Ty::String => info::Type::String,
        }
    }
    fn format(self) -> format::Type {
        match self {
            Ty::Integer => format::Type::Integer,
            Ty::Float => format::Type::Float,
            Ty::Character => format::Type::Character,
            Ty::String | Ty::Flag => format::Type::String,
        }
    }
    fn of_info(t: info::Type) -> Self {
        match t {
            info::Type::Integer => Ty::Integer,
            info::Type::Float => Ty::Float,
            info::Type::Flag => Ty::Flag,
            info::Type::Character => Ty::Character,
            info::Type::String => Ty::String,
        }
    }
    fn of_format(t: format::Type) -> Self {
        match t {
            format::Type::Integer => Ty::Integer,
            format::Type::Float => Ty::Float,
            format::Type::Character => Ty::Character,
            format::Type::String => Ty::String,
        }
    }
}

#[derive(Clone, Debug, PartialEq, Eq)]
pub struct FieldDef {
    pub id: String,
    pub num: Num,
    pub ty: Ty,
    pub desc: String,
    pub idx: Option<usize>,
    pub other: Vec<(String, String)>,
}

impl FieldDef {
    pub fn new(id: &str, num: Num, ty: Ty) -> Self {
        Self {
            id: id.into(),
            num,
            ty,
            desc: format!("{id} field"),
            idx: None,
            other: Vec::new(),
        }
    }
    pub fn idx(mut self, i: usize) -> Self {
        self.idx = Some(i);
        self
    }
}

#[derive(Clone, Debug, PartialEq, Eq)]
pub struct FilterDef {
    pub id: String,
    pub desc: String,
    pub idx: Option<usize>,
    pub other: Vec<(String, String)>,
}

#[derive(Clone, Debug, PartialEq, Eq)]
pub struct AltDef {
    pub id: String,
    pub desc: String,
    pub other: Vec<(String, String)>,
}

#[derive(Clone, Debug, PartialEq, Eq, Default)]
pub struct ContigDef {
    pub id: String,
    pub length: Option<usize>,
    pub md5: Option<String>,
    pub url: Option<String>,
    pub idx: Option<usize>,
    pub other: Vec<(String, String)>,
}

#[derive(Clone, Debug, PartialEq, Eq)]
pub enum OtherRec {
    Str { key: String, value: String },
    Map { key: String, id: String, fields: Vec<(String, String)> },
}

#[derive(Clone, Debug, PartialEq, Eq)]
pub struct Hdr {
    pub ff: (u32, u32),
    pub infos: Vec<FieldDef>,
    pub filters: Vec<FilterDef>,
    pub formats: Vec<FieldDef>,
    pub alts: Vec<AltDef>,
    pub contigs: Vec<ContigDef>,
    pub others: Vec<OtherRec>,
    pub samples: Vec<String>,
}

impl Hdr {
    pub fn new(ff: (u32, u32)) -> Self {
        Self {
            ff,
            infos: Vec::new(),
            filters: Vec::new(),
            formats: Vec::new(),
            alts: Vec::new(),
            contigs: Vec::new(),
            others: Vec::new(),
            samples: Vec::new(),
        }
    }

    pub fn info(&self, id: &str) -> Option<&FieldDef> {
        self.infos.iter().find(|d| d.id == id)
    }
    pub fn format(&self, id: &str) -> Option<&FieldDef> {
        self.formats.iter().find(|d| d.id == id)
    }

    /// Builds the noodles header through the public builder API.
    pub fn build(&self) -> Result<vcf::Header, String> {
        let mut b = vcf::Header::builder().set_file_format(FileFormat::new(self.ff.0, self.ff.1));
        for d in &self.infos {
            let mut m = Map::<Info>::new(d.num.info(), d.ty.info(), d.desc.clone());
            *m.idx_mut() = d.idx;
            for (k, v) in &d.other {
                let tag = k.parse().map_err(|_| format!("bad INFO tag {k}"))?;
                m.other_fields_mut().insert(tag, v.clone());
            }
            b = b.add_info(d.id.clone(), m);
        }
        for d in &self.filters {
            let mut m = Map::<Filter>::new(d.desc.clone());
            *m.idx_mut() = d.idx;
            for (k, v) in &d.other {
                let tag = k.parse().map_err(|_| format!("bad FILTER tag {k}"))?;
                m.other_fields_mut().insert(tag, v.clone());
            }
            b = b.add_filter(d.id.clone(), m);
        }
        for d in &self.formats {
            let mut m = Map::<Format>::new(d.num.format(), d.ty.format(), d.desc.clone());
            *m.idx_mut() = d.idx;
            for (k, v) in &d.other {
                let tag = k.parse().map_err(|_| format!("bad FORMAT tag {k}"))?;
                m.other_fields_mut().insert(tag, v.clone());
            }
            b = b.add_format(d.id.clone(), m);
        }
        for d in &self.alts {
            let mut m = Map::<AlternativeAllele>::new(d.desc.clone());
            for (k, v) in &d.other {
                let tag = k.parse().map_err(|_| format!("bad ALT tag {k}"))?;
                m.other_fields_mut().insert(tag, v.clone());
            }
            b = b.add_alternative_allele(d.id.clone(), m);
        }
        for d in &self.contigs {
            let mut m = Map::<Contig>::new();
            *m.length_mut() = d.length;
            *m.md5_mut() = d.md5.clone();
            *m.url_mut() = d.url.clone();
            *m.idx_mut() = d.idx;
            for (k, v) in &d.other {
                let tag = k.parse().map_err(|_| format!("bad contig tag {k}"))?;
                m.other_fields_mut().insert(tag, v.clone());
            }
            b = b.add_contig(d.id.clone(), m);
        }
        for o in &self.others {
            match o {
                OtherRec::Str { key, value } => {
                    let k = key.parse().map_err(|_| format!("bad other key {key}"))?;
                    b = b
                        .insert(k, vcf::header::record::Value::String(value.clone()))
                        .map_err(|e| format!("other insert: {e}"))?;
                }
                OtherRec::Map { key, id, fields } => {
                    let k = key.parse().map_err(|_| format!("bad other key {key}"))?;
                    let mut m = Map::<Other>::new();
                    for (fk, fv) in fields {
                        let tag = fk.parse().map_err(|_| format!("bad other tag {fk}"))?;
                        m.other_fields_mut().insert(tag, fv.clone());
                    }
                    b = b
                        .insert(k, vcf::header::record::Value::Map(id.clone(), m))
                        .map_err(|e| format!("other insert: {e}"))?;
                }
            }
        }
        for s in &self.samples {
            b = b.add_sample_name(s.clone());
        }
        Ok(b.build())
    }

    /// Reads a noodles header back through its public accessors.
    pub fn from_header(h: &vcf::Header) -> Self {
        macro_rules! others {
            ($m:expr) => {
                $m.iter().map(|(k, v)| (k.to_string(), v.clone())).collect::<Vec<(String, String)>>()
            };
        }
        let ff = h.file_format();
        let mut out = Hdr::new((ff.major(), ff.minor()));
        for (id, m) in h.infos() {
            out.infos.push(FieldDef {
                id: id.clone(),
                num: Num::of_info(m.number()),
                ty: Ty::of_info(m.ty()),
                desc: m.description().to_string(),
                idx: m.idx(),
                other: others!(m.other_fields()),
            });
        }
        for (id, m) in h.filters() {
            out.filters.push(FilterDef {
                id: id.clone(),
                desc: m.description().to_string(),
                idx: m.idx(),
                other: others!(m.other_fields()),
            });
        }
        for (id, m) in h.formats() {
            out.formats.push(FieldDef {
                id: id.clone(),
                num: Num::of_format(m.number()),
                ty: Ty::of_format(m.ty()),
                desc: m.description().to_string(),
                idx: m.idx(),
                other: others!(m.other_fields()),
            });
        }
        for (id, m) in h.alternative_alleles() {
            out.alts.push(AltDef {
                id: id.clone(),
                desc: m.description().to_string(),
                other: others!(m.other_fields()),
            });
        }
        for (id, m) in h.contigs() {
            out.contigs.push(ContigDef {
                id: id.clone(),
                length: m.length(),
                md5: m.md5().map(str::to_string),
                url: m.url().map(str::to_string),
                idx: m.idx(),
                other: others!(m.other_fields()),
            });
        }
        for (k, c) in h.other_records() {
            match c {
                Collection::Unstructured(vs) => {
                    for v in vs {
                        out.others.push(OtherRec::Str { key: k.as_ref().to_string(), value: v.clone() });
                    }
                }
                Collection::Structured(ms) => {
                    for (id, m) in ms {
                        out.others.push(OtherRec::Map {
                            key: k.as_ref().to_string(),
                            id: id.clone(),
                            fields: others!(m.other_fields()),
                        });
                    }
                }
            }
        }
        out.samples = h.sample_names().iter().cloned().collect();
        out
    }

    /// First differing section between two header models (for fingerprints).
    pub fn diff(&self, o: &Hdr) -> Option<(&'static str, String)> {
        macro_rules! d {
            ($f:ident, $n:expr) => {
                if self.$f != o.$f {
                    return Some(($n, format!("{:?} vs {:?}", self.$f, o.$f)));
                }
            };
        }
        d!(ff, "fileformat");
        if self.infos != o.infos {
            return Some((field_diff(&self.infos, &o.infos, "info"), format!("{:?} vs {:?}", self.infos, o.infos)));
        }
        if self.filters != o.filters {
            let what = if strip_idx_f(&self.filters) == strip_idx_f(&o.filters) { "filter-idx" } else { "filter" };
            return Some((what, format!("{:?} vs {:?}", self.filters, o.filters)));
        }
        if self.formats != o.formats {
            return Some((field_diff(&self.formats, &o.formats, "format"), format!("{:?} vs {:?}", self.formats, o.formats)));
        }
        d!(alts, "alt");
        if self.contigs != o.contigs {
            let strip = |v: &Vec<ContigDef>| -> Vec<ContigDef> {
                v.iter().cloned().map(|mut c| { c.idx = None; c }).collect()
            };
            let what = if strip(&self.contigs) == strip(&o.contigs) { "contig-idx" } else { "contig" };
            return Some((what, format!("{:?} vs {:?}", self.contigs, o.contigs)));
        }
        d!(others, "other");
        d!(samples, "samples");
        None
    }
}

fn strip_idx_f(v: &[FilterDef]) -> Vec<FilterDef> {
    v.iter().cloned().map(|mut c| { c.idx = None; c }).collect()
}

fn field_diff(a: &[FieldDef], b: &[FieldDef], which: &'static str) -> &'static str {
    let strip = |v: &[FieldDef]| -> Vec<FieldDef> {
        v.iter().cloned().map(|mut c| { c.idx = None; c }).collect()
    };
    let idx_only = strip(a) == strip(b);
    match (which, idx_only) {
        ("info", true) => "info-idx",
        ("info", false) => "info",
        ("format", true) => "format-idx",
        _ => "format",
    }
}

// ------------------------------------------------------------------------------------------------
// record model

/// A field value. Floats are kept as bit patterns so that comparisons are explicit.
#[derive(Clone, Debug, PartialEq, Eq, Hash)]
pub enum Val {
    Int(i32),
    Float(u32),
    Flag,
    Char(char),
    Str(String),
    IntA(Vec<Option<i32>>),
    FloatA(Vec<Option<u32>>),
    CharA(Vec<Option<char>>),
    StrA(Vec<Option<String>>),
    /// Genotype: (allele, phased-with-previous) per allele.
    Gt(Vec<(Option<usize>, bool)>),
}

impl Val {
    pub fn f(x: f32) -> Val {
        Val::Float(x.to_bits())
    }
    pub fn fa(xs: &[Option<f32>]) -> Val {
        Val::FloatA(xs.iter().map(|x| x.map(f32::to_bits)).collect())
    }
    pub fn s(x: &str) -> Val {
        Val::Str(x.to_string())
    }
    pub fn sa(xs: &[Option<&str>]) -> Val {
        Val::StrA(xs.iter().map(|x| x.map(str::to_string)).collect())
    }
    pub fn kind(&self) -> &'static str {
        match self {
            Val::Int(_) => "int",
            Val::Float(_) => "float",
            Val::Flag => "flag",
            Val::Char(_) => "char",
            Val::Str(_) => "string",
            Val::IntA(_) => "int-array",
            Val::FloatA(_) => "float-array",
            Val::CharA(_) => "char-array",
            Val::StrA(_) => "string-array",
            Val::Gt(_) => "genotype",
        }
    }
    /// An array consisting of exactly one missing element is indistinguishable from a missing
    /// value in VCF text (`K=.`) and in BCF (a one-element vector holding the missing code).
    pub fn is_single_missing(&self) -> bool {
        match self {
            Val::IntA(v) => v.len() == 1 && v[0].is_none(),
            Val::FloatA(v) => v.len() == 1 && v[0].is_none(),
            Val::CharA(v) => v.len() == 1 && v[0].is_none(),
            Val::StrA(v) => v.len() == 1 && v[0].is_none(),
            // a haploid genotype whose allele is missing is written `.`, the missing value; a
            // genotype without alleles has no text at all and is stored as an empty vector
            Val::Gt(v) => v.is_empty() || (v.len() == 1 && v[0].0.is_none()),
            _ => false,
        }
    }
}

#[derive(Clone, Debug, PartialEq, Eq, Hash)]
pub struct Rec {
    pub chrom: String,
    /// 0 = telomere (`variant_start == None`).
    pub pos: usize,
    pub ids: Vec<String>,
    pub refb: String,
    pub alts: Vec<String>,
    /// bit pattern
    pub qual: Option<u32>,
    /// empty = missing; `["PASS"]` = pass
    pub filters: Vec<String>,
    pub info: Vec<(String, Option<Val>)>,
    pub format: Vec<String>,
    pub samples: Vec<Vec<Option<Val>>>,
}

impl Default for Rec {
    fn default() -> Self {
        Self {
            chrom: "sq0".into(),
            pos: 1,
            ids: Vec::new(),
            refb: "A".into(),
            alts: Vec::new(),
            qual: None,
            filters: Vec::new(),
            info: Vec::new(),
            format: Vec::new(),
            samples: Vec::new(),
        }
    }
}

/// What the statement allows the writer to do with a generated value.
#[derive(Clone, Debug, PartialEq, Eq)]
pub enum Expect {
    /// Valid: the writer must accept it and the round trip must be exact (modulo the domain rules).
    Exact,
    /// Not a valid / representable value: `Err` at write or read time, or an exact round trip,
    /// are all accepted; a silently different value or a panic is not.
    MayReject(&'static str),
    /// Not a VCF value at all (empty array, empty string, END before POS): the statements say
    /// nothing about it; only a panic is judged.
    Unjudged(&'static str),
}

impl Expect {
    pub fn weaken(&mut self, why: &'static str) {
        if *self == Expect::Exact {
            *self = Expect::MayReject(why);
        }
    }
    pub fn unjudge(&mut self, why: &'static str) {
        *self = Expect::Unjudged(why);
    }
    pub fn merge(&mut self, other: &Expect) {
        match other {
            Expect::Exact => {}
            Expect::MayReject(w) => self.weaken(w),
            Expect::Unjudged(w) => self.unjudge(w),
        }
    }
}

fn iv(v: &Val) -> IV {
    match v {
        Val::Int(n) => IV::Integer(*n),
        Val::Float(b) => IV::Float(f32::from_bits(*b)),
        Val::Flag => IV::Flag,
        Val::Char(c) => IV::Character(*c),
        Val::Str(s) => IV::String(s.clone()),
        Val::IntA(v) => IV::Array(IA::Integer(v.clone())),
        Val::FloatA(v) => IV::Array(IA::Float(v.iter().map(|x| x.map(f32::from_bits)).collect())),
        Val::CharA(v) => IV::Array(IA::Character(v.clone())),
        Val::StrA(v) => IV::Array(IA::String(v.clone())),
        Val::Gt(_) => IV::String("<genotype in INFO>".into()),
    }
}

fn sv(v: &Val) -> SV {
    match v {
        Val::Int(n) => SV::Integer(*n),
        Val::Float(b) => SV::Float(f32::from_bits(*b)),
        Val::Flag => SV::String("<flag in FORMAT>".into()),
        Val::Char(c) => SV::Character(*c),
        Val::Str(s) => SV::String(s.clone()),
        Val::IntA(v) => SV::Array(SA::Integer(v.clone())),
        Val::FloatA(v) => SV::Array(SA::Float(v.iter().map(|x| x.map(f32::from_bits)).collect())),
        Val::CharA(v) => SV::Array(SA::Character(v.clone())),
        Val::StrA(v) => SV::Array(SA::String(v.clone())),
        Val::Gt(al) => SV::Genotype(
            al.iter()
                .map(|(p, ph)| Allele::new(*p, if *ph { Phasing::Phased } else { Phasing::Unphased }))
                .collect::<Genotype>(),
        ),
    }
}

fn of_iv(v: &IV) -> Val {
    match v {
        IV::Integer(n) => Val::Int(*n),
        IV::Float(x) => Val::Float(x.to_bits()),
        IV::Flag => Val::Flag,
        IV::Character(c) => Val::Char(*c),
        IV::String(s) => Val::Str(s.clone()),
        IV::Array(IA::Integer(v)) => Val::IntA(v.clone()),
        IV::Array(IA::Float(v)) => Val::FloatA(v.iter().map(|x| x.map(f32::to_bits)).collect()),
        IV::Array(IA::Character(v)) => Val::CharA(v.clone()),
        IV::Array(IA::String(v)) => Val::StrA(v.clone()),
    }
}

fn of_sv(v: &SV) -> Val {
    match v {
        SV::Integer(n) => Val::Int(*n),
        SV::Float(x) => Val::Float(x.to_bits()),
        SV::Character(c) => Val::Char(*c),
        SV::String(s) => Val::Str(s.clone()),
        SV::Array(SA::Integer(v)) => Val::IntA(v.clone()),
        SV::Array(SA::Float(v)) => Val::FloatA(v.iter().map(|x| x.map(f32::to_bits)).collect()),
        SV::Array(SA::Character(v)) => Val::CharA(v.clone()),
        SV::Array(SA::String(v)) => Val::StrA(v.clone()),
        SV::Genotype(g) => Val::Gt(
            g.as_ref()
                .iter()
                .map(|a| (a.position(), a.phasing() == Phasing::Phased))
                .collect(),
        ),
    }
}

impl Rec {
    /// Builds the eager noodles record through the public builder.
    pub fn to_record_buf(&self) -> RecordBuf {
        let mut b = RecordBuf::builder()
            .set_reference_sequence_name(self.chrom.clone())
            .set_ids(self.ids.iter().cloned().collect::<Ids>())
            .set_reference_bases(self.refb.clone())
            .set_alternate_bases(AlternateBases::from(self.alts.clone()))
            .set_filters(self.filters.iter().cloned().collect::<Filters>())
            .set_info(self.info.iter().map(|(k, v)| (k.clone(), v.as_ref().map(iv))).collect())
            .set_samples(Samples::new(
                self.format.iter().cloned().collect(),
                self.samples
                    .iter()
                    .map(|s| s.iter().map(|v| v.as_ref().map(sv)).collect())
                    .collect(),
            ));
        if let Some(q) = self.qual {
            b = b.set_quality_score(f32::from_bits(q));
        }
        let mut r = b.build();
        *r.variant_start_mut() = Position::new(self.pos);
        r
    }

    /// Reads the eager record back through its inherent (field) accessors.
    pub fn from_record_buf(r: &RecordBuf) -> Rec {
        Rec {
            chrom: r.reference_sequence_name().to_string(),
            pos: r.variant_start().map(|p| p.get()).unwrap_or(0),
            ids: r.ids().as_ref().iter().cloned().collect(),
            refb: r.reference_bases().to_string(),
            alts: r.alternate_bases().as_ref().to_vec(),
            qual: r.quality_score().map(f32::to_bits),
            filters: r.filters().as_ref().iter().cloned().collect(),
            info: r
                .info()
                .as_ref()
                .iter()
                .map(|(k, v)| (k.clone(), v.as_ref().map(of_iv)))
                .collect(),
            format: r.samples().keys().as_ref().iter().cloned().collect(),
            samples: r
                .samples()
                .values()
                .map(|s| s.values().iter().map(|v| v.as_ref().map(of_sv)).collect())
                .collect(),
        }
    }

    /// Reads any record through the `variant::Record` *trait* accessors (the lazy views).
    /// Iteration is capped so that a non-advancing lazy iterator cannot hang the run.
    pub fn from_variant<R>(header: &vcf::Header, r: &R) -> Result<Rec, String>
    where
        R: vcf::variant::Record + ?Sized,
    {
        let mut notes = Vec::new();
        let rec = Self::from_variant_notes(header, r, &mut notes)?;
        match notes.into_iter().next() {
            Some(n) => Err(n),
            None => Ok(rec),
        }
    }

    /// As `from_variant`, but a `len()` that disagrees with the number of items `iter()` yields in
    /// a per-sample vector is pushed to `notes` instead of ending the extraction (the values are
    /// still compared; C10 reports the note after the remaining stages have run).
    pub fn from_variant_notes<R>(header: &vcf::Header, r: &R, notes: &mut Vec<String>) -> Result<Rec, String>
    where
        R: vcf::variant::Record + ?Sized,
    {
        use vcf::variant::record::{
            info::field::{Value as LV, value::Array as LA},
            samples::series::{Value as LSV, value::Array as LSA},
        };
        const CAP: usize = 100_000;
        let e = |what: &str, e: std::io::Error| format!("{what}: {e}");
        let chrom = r.reference_sequence_name(header).map_err(|x| e("chrom", x))?.to_string();
        let pos = match r.variant_start() {
            None => 0,
            Some(p) => p.map_err(|x| e("pos", x))?.get(),
        };
        let ids_b = r.ids();
        let ids: Vec<String> = ids_b.iter().take(CAP).map(str::to_string).collect();
        if ids.len() != ids_b.len() || ids_b.is_empty() != ids.is_empty() {
            return Err(format!("ids: len()={} is_empty()={} but iter yields {}", ids_b.len(), ids_b.is_empty(), ids.len()));
        }
        let rb = r.reference_bases();
        let mut refb = Vec::new();
        for x in rb.iter().take(CAP) {
            refb.push(x.map_err(|x| e("ref", x))?);
        }
        if refb.len() != rb.len() {
            return Err(format!("ref: len()={} but iter yields {}", rb.len(), refb.len()));
        }
        let refb = String::from_utf8_lossy(&refb).into_owned();
        let ab = r.alternate_bases();
        let mut alts = Vec::new();
        for x in ab.iter().take(CAP) {
            alts.push(x.map_err(|x| e("alt", x))?.to_string());
        }
        if alts.len() != ab.len() || ab.is_empty() != alts.is_empty() {
            return Err(format!("alt: len()={} is_empty()={} but iter yields {}", ab.len(), ab.is_empty(), alts.len()));
        }
        let qual = match r.quality_score() {
            None => None,
            Some(q) => Some(q.map_err(|x| e("qual", x))?.to_bits()),
        };
        let fb = r.filters();
        let mut filters = Vec::new();
        for x in fb.iter(header).take(CAP) {
            filters.push(x.map_err(|x| e("filter", x))?.to_string());
        }
        if filters.len() != fb.len() || fb.is_empty() != filters.is_empty() {
            return Err(format!("filters: len()={} is_empty()={} but iter yields {}", fb.len(), fb.is_empty(), filters.len()));
        }
        let ib = r.info();
        let mut info_v = Vec::new();
        let iconv = |k: &str, v: Option<LV<'_>>| -> Result<Option<Val>, String> {
            Ok(match v {
                None => None,
                Some(LV::Integer(n)) => Some(Val::Int(n)),
                Some(LV::Float(x)) => Some(Val::Float(x.to_bits())),
                Some(LV::Flag) => Some(Val::Flag),
                Some(LV::Character(c)) => Some(Val::Char(c)),
                Some(LV::String(s)) => Some(Val::Str(s.into_owned())),
                Some(LV::Array(LA::Integer(vs))) => {
                    let out: Result<Vec<_>, _> = vs.iter().take(CAP).collect();
                    let out = out.map_err(|x| e("info int array", x))?;
                    if out.len() != vs.len() {
                        return Err(format!("info {k}: array len()={} but iter yields {}", vs.len(), out.len()));
                    }
                    Some(Val::IntA(out))
                }
                Some(LV::Array(LA::Float(vs))) => {
                    let out: Result<Vec<_>, _> = vs.iter().take(CAP).collect();
                    let out = out.map_err(|x| e("info float array", x))?;
                    if out.len() != vs.len() {
                        return Err(format!("info {k}: array len()={} but iter yields {}", vs.len(), out.len()));
                    }
                    Some(Val::FloatA(out.into_iter().map(|x| x.map(f32::to_bits)).collect()))
                }
                Some(LV::Array(LA::Character(vs))) => {
                    let out: Result<Vec<_>, _> = vs.iter().take(CAP).collect();
                    let out = out.map_err(|x| e("info char array", x))?;
                    if out.len() != vs.len() {
                        return Err(format!("info {k}: array len()={} but iter yields {}", vs.len(), out.len()));
                    }
                    Some(Val::CharA(out))
                }
                Some(LV::Array(LA::String(vs))) => {
                    let out: Result<Vec<_>, _> = vs.iter().take(CAP).collect();
                    let out = out.map_err(|x| e("info string array", x))?;
                    if out.len() != vs.len() {
                        return Err(format!("info {k}: array len()={} but iter yields {}", vs.len(), out.len()));
                    }
                    Some(Val::StrA(out.into_iter().map(|x| x.map(|c| c.into_owned())).collect()))
                }
            })
        };
        for x in ib.iter(header).take(CAP) {
            let (k, v) = x.map_err(|x| e("info", x))?;
            let v = iconv(k, v)?;
            info_v.push((k.to_string(), v));
        }
        if info_v.len() != ib.len() || ib.is_empty() != info_v.is_empty() {
            return Err(format!("info: len()={} is_empty()={} but iter yields {}", ib.len(), ib.is_empty(), info_v.len()));
        }
        // `get` must agree with `iter`
        for (k, v) in &info_v {
            let got = match ib.get(header, k) {
                None => return Err(format!("info.get({k}) = None although iter yields it")),
                Some(x) => x.map_err(|x| e("info.get", x))?,
            };
            let got = iconv(k, got).map_err(|x| format!("info.get({k}): {x}"))?;
            if got != *v {
                return Err(format!("info.get({k:?}) = {got:?} but iter yields {v:?} for that key"));
            }
        }
        // a key that is not there (incl. fragments of the keys and values that are) is not found
        for (k, _) in &info_v {
            for probe in [format!("{k}_"), k[..k.len() - 1].to_string(), k[1..].to_string()] {
                if probe.is_empty() || info_v.iter().any(|(x, _)| *x == probe) {
                    continue;
                }
                if let Some(x) = ib.get(header, &probe) {
                    return Err(format!("info.get({probe:?}) = Some({:?}) although the record has no such key", x.map(|v| v.is_some()).map_err(|e| e.to_string())));
                }
            }
        }
        let sb = r.samples().map_err(|x| e("samples", x))?;
        let mut format = Vec::new();
        for x in sb.column_names(header).take(CAP) {
            format.push(x.map_err(|x| e("format", x))?.to_string());
        }
        let notes_cell = std::cell::RefCell::new(Vec::<String>::new());
        let conv = |v: LSV<'_>| -> Result<Val, String> {
            Ok(match v {
                LSV::Integer(n) => Val::Int(n),
                LSV::Float(x) => Val::Float(x.to_bits()),
                LSV::Character(c) => Val::Char(c),
                LSV::String(s) => Val::Str(s.into_owned()),
                LSV::Genotype(g) => {
                    let mut al = Vec::new();
                    for x in g.iter().take(CAP) {
                        let (p, ph) = x.map_err(|x| e("genotype", x))?;
                        al.push((p, ph == Phasing::Phased));
                    }
                    Val::Gt(al)
                }
                LSV::Array(LSA::Integer(vs)) => {
                    let out: Result<Vec<_>, _> = vs.iter().take(CAP).collect();
                    let out = out.map_err(|x| e("sample int array", x))?;
                    if out.len() != vs.len() {
                        notes_cell.borrow_mut().push(format!("sample array len()={} but iter yields {}", vs.len(), out.len()));
                    }
                    Val::IntA(out)
                }
                LSV::Array(LSA::Float(vs)) => {
                    let out: Result<Vec<_>, _> = vs.iter().take(CAP).collect();
                    let out = out.map_err(|x| e("sample float array", x))?;
                    if out.len() != vs.len() {
                        notes_cell.borrow_mut().push(format!("sample array len()={} but iter yields {}", vs.len(), out.len()));
                    }
                    Val::FloatA(out.into_iter().map(|x| x.map(f32::to_bits)).collect())
                }
                LSV::Array(LSA::Character(vs)) => {
                    let out: Result<Vec<_>, _> = vs.iter().take(CAP).collect();
                    let out = out.map_err(|x| e("sample char array", x))?;
                    if out.len() != vs.len() {
                        notes_cell.borrow_mut().push(format!("sample array len()={} but iter yields {}", vs.len(), out.len()));
                    }
                    Val::CharA(out)
                }
                LSV::Array(LSA::String(vs)) => {
                    let out: Result<Vec<_>, _> = vs.iter().take(CAP).collect();
                    let out = out.map_err(|x| e("sample string array", x))?;
                    if out.len() != vs.len() {
                        notes_cell.borrow_mut().push(format!("sample array len()={} but iter yields {}", vs.len(), out.len()));
                    }
                    Val::StrA(out.into_iter().map(|x| x.map(|c| c.into_owned())).collect())
                }
            })
        };
        let mut samples = Vec::new();
        for s in sb.iter().take(CAP) {
            let mut vals = Vec::new();
            for x in s.iter(header).take(CAP) {
                let (_, v) = x.map_err(|x| e("sample value", x))?;
                vals.push(match v {
                    None => None,
                    Some(v) => Some(conv(v)?),
                });
            }
            samples.push(vals);
        }
        if samples.len() != sb.len() {
            return Err(format!("samples: len()={} but iter yields {}", sb.len(), samples.len()));
        }
        // column view (`series`) must agree with the row view
        let mut n_series = 0;
        for (j, ser) in sb.series().take(CAP).enumerate() {
            let ser = ser.map_err(|x| e("series", x))?;
            let name = ser.name(header).map_err(|x| e("series name", x))?;
            if format.get(j).map(String::as_str) != Some(name) {
                return Err(format!("series {j} is named {name}, column_names says {:?}", format.get(j)));
            }
            for (i, x) in ser.iter(header).take(CAP).enumerate() {
                let v = x.map_err(|x| e("series value", x))?;
                let v = match v {
                    None => None,
                    Some(v) => Some(conv(v)?),
                };
                let row = samples.get(i).and_then(|s| s.get(j)).cloned().flatten();
                if row != v {
                    return Err(format!("series {name}[{i}] = {v:?} but sample row has {row:?}"));
                }
            }
            let n_items = ser.iter(header).take(CAP).count();
            if n_items != samples.len() {
                return Err(format!("series {name}: iter yields {n_items} items but the sample row has {} samples", samples.len()));
            }
            n_series += 1;
        }
        if n_series != format.len() {
            return Err(format!("series() yields {n_series} columns, column_names {}", format.len()));
        }
        // keyed lookups: Samples::select(key), Series::get(i), Sample::get(key) / get_index(j)
        for (j, key) in format.iter().enumerate() {
            let ser = match sb.select(header, key) {
                None => return Err(format!("samples.select({key:?}) = None although column_names yields it")),
                Some(x) => x.map_err(|x| e("select", x))?,
            };
            let name = ser.name(header).map_err(|x| e("selected series name", x))?;
            if name != key {
                return Err(format!("samples.select({key:?}) returns the series named {name:?}"));
            }
            let mut n_items = 0;
            for (i, x) in ser.iter(header).take(CAP).enumerate() {
                let v = match x.map_err(|x| e("selected series value", x))? {
                    None => None,
                    Some(v) => Some(conv(v)?),
                };
                let row = samples.get(i).and_then(|s| s.get(j)).cloned().flatten();
                if row != v {
                    return Err(format!("samples.select({key:?}).iter()[{i}] = {v:?} but the sample row has {row:?}"));
                }
                n_items += 1;
            }
            if n_items != samples.len() {
                return Err(format!("samples.select({key:?}): iter yields {n_items} items but the sample row has {} samples", samples.len()));
            }
            for i in 0..samples.len() {
                let row = samples[i].get(j).cloned().flatten();
                let v = match ser.get(header, i) {
                    None => None,
                    Some(None) => None,
                    Some(Some(x)) => Some(conv(x.map_err(|x| e("series.get", x))?)?),
                };
                if row != v {
                    return Err(format!("samples.select({key:?}).get({i}) = {v:?} but the sample row has {row:?}"));
                }
            }
        }
        for (i, s) in sb.iter().take(CAP).enumerate() {
            for (j, key) in format.iter().enumerate() {
                let row = samples[i].get(j).cloned().flatten();
                let by_key = match s.get(header, key) {
                    None => None,
                    Some(x) => match x.map_err(|x| e("sample.get", x))? {
                        None => None,
                        Some(v) => Some(conv(v)?),
                    },
                };
                if by_key != row {
                    return Err(format!("sample[{i}].get({key:?}) = {by_key:?} but iter yields {row:?} for that key"));
                }
                let by_index = match s.get_index(header, j) {
                    None => None,
                    Some(x) => match x.map_err(|x| e("sample.get_index", x))? {
                        None => None,
                        Some(v) => Some(conv(v)?),
                    },
                };
                if by_index != row {
                    return Err(format!("sample[{i}].get_index({j}) = {by_index:?} but iter yields {row:?}"));
                }
            }
        }
        for key in &format {
            for probe in [format!("{key}_"), key[..key.len() - 1].to_string(), key[1..].to_string()] {
                if probe.is_empty() || format.contains(&probe) {
                    continue;
                }
                if sb.select(header, &probe).is_some() {
                    return Err(format!("samples.select({probe:?}) is Some although there is no such column"));
                }
            }
        }
        notes.extend(notes_cell.into_inner());
        Ok(Rec { chrom, pos, ids, refb, alts, qual, filters, info: info_v, format, samples })
    }

    /// Rust-literal-ish rendering for `decoded`.
    pub fn show(&self) -> String {
        let mut s = String::new();
        let _ = write!(
            s,
            "Rec{{chrom:{:?},pos:{},ids:{:?},ref:{:?},alt:{:?},qual:{},filter:{:?},info:[",
            self.chrom,
            self.pos,
            self.ids,
            self.refb,
            self.alts,
            match self.qual {
                None => "None".to_string(),
                Some(b) => format!("Some({:?}f32 /*0x{b:08x}*/)", f32::from_bits(b)),
            },
            self.filters
        );
        for (k, v) in &self.info {
            let _ = write!(s, "({k:?},{}),", show_val(v.as_ref()));
        }
        let _ = write!(s, "],format:{:?},samples:[", self.format);
        for smp in &self.samples {
            s.push('[');
            for v in smp {
                let _ = write!(s, "{},", show_val(v.as_ref()));
            }
            s.push_str("],");
        }
        s.push_str("]}");
        s
    }
}

pub fn show_val(v: Option<&Val>) -> String {
    match v {
        None => "None".into(),
        Some(Val::Float(b)) => format!("Float({:?} /*0x{b:08x}*/)", f32::from_bits(*b)),
        Some(Val::FloatA(v)) => {
            let parts: Vec<String> = v
                .iter()
                .map(|x| match x {
                    None => "None".into(),
                    Some(b) => format!("{:?} /*0x{b:08x}*/", f32::from_bits(*b)),
                })
                .collect();
            format!("FloatA[{}]", parts.join(","))
        }
        Some(Val::Gt(al)) => {
            let mut s = String::from("Gt\"");
            for (i, (p, ph)) in al.iter().enumerate() {
                let _ = i;
                s.push(if *ph { '|' } else { '/' });
                match p {
                    None => s.push('.'),
                    Some(n) => {
                        let _ = write!(s, "{n}");
                    }
                }
            }
            s.push('"');
            s
        }
        Some(x) => format!("{x:?}"),
    }
}
