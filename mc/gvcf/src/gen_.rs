//! Chooser-driven generators: a header grammar (for the header round trip) and a record grammar over
//! a rich fixed header (every Number × Type combination declared), with the expected outcome of
//! every generated value.

use vmc::Chooser;

use crate::model::{AltDef, ContigDef, Expect, FieldDef, FilterDef, Hdr, Num, OtherRec, Rec, Ty, Val};

pub const FILE_FORMATS: [(u32, u32); 4] = [(4, 2), (4, 3), (4, 4), (4, 5)];

#[derive(Clone, Copy, Debug, PartialEq, Eq)]
pub enum Purpose {
    /// VCF text (C09)
    Vcf,
    /// BCF (C10): adds width boundaries, reserved NaNs, long strings / vectors, big alleles
    Bcf,
}

#[derive(Clone, Copy, Debug, PartialEq, Eq)]
pub enum IdxMode {
    /// no IDX anywhere (order of appearance)
    Implicit,
    /// IDX = the position the entry would get anyway
    Natural,
    /// a permutation of the natural positions
    Permuted,
    /// gaps (every index multiplied by 3, plus 2)
    Sparse,
}

pub const NUMS: [(Num, &str); 6] =
    [(Num::Count(1), "1"), (Num::Count(2), "2"), (Num::A, "A"), (Num::R, "R"), (Num::G, "G"), (Num::Unknown, "U")];
pub const TYS: [(Ty, &str); 4] = [(Ty::Integer, "I"), (Ty::Float, "F"), (Ty::Character, "C"), (Ty::String, "S")];

/// SVLEN per file format as the header parser demands (4.2: unchecked, use `.`).
pub fn svlen_num(ff: (u32, u32)) -> Num {
    if ff >= (4, 4) { Num::A } else { Num::Unknown }
}

/// The rich header: every valid Number × Type combination for INFO (`X..`) and FORMAT (`Y..`), the
/// reserved keys used for spans with their standard definitions, filters, ALT, contigs, n samples.
pub fn rich_header(ff: (u32, u32), n_samples: usize, idx: IdxMode) -> Hdr {
    let mut h = Hdr::new(ff);
    h.infos.push(FieldDef::new("XF", Num::Count(0), Ty::Flag));
    for (t, tc) in TYS {
        for (n, nc) in NUMS {
            h.infos.push(FieldDef::new(&format!("X{tc}{nc}"), n, t));
        }
    }
    h.infos.push(FieldDef::new("END", Num::Count(1), Ty::Integer));
    h.infos.push(FieldDef::new("SVLEN", svlen_num(ff), Ty::Integer));
    h.filters.push(FilterDef { id: "q10".into(), desc: "Quality below 10".into(), idx: None, other: vec![] });
    h.filters.push(FilterDef { id: "s50".into(), desc: "Less than 50% of samples have data".into(), idx: None, other: vec![] });
    h.formats.push(FieldDef::new("GT", Num::Count(1), Ty::String));
    for (t, tc) in TYS {
        for (n, nc) in NUMS {
            h.formats.push(FieldDef::new(&format!("Y{tc}{nc}"), n, t));
        }
    }
    h.formats.push(FieldDef::new("LEN", Num::Count(1), Ty::Integer));
    h.alts.push(AltDef { id: "DEL".into(), desc: "Deletion".into(), other: vec![] });
    h.alts.push(AltDef { id: "DUP".into(), desc: "Duplication".into(), other: vec![] });
    h.contigs.push(ContigDef { id: "sq0".into(), length: Some(1_000_000), ..Default::default() });
    h.contigs.push(ContigDef { id: "sq1".into(), ..Default::default() });
    for i in 0..n_samples {
        h.samples.push(format!("s{i}"));
    }
    apply_idx(&mut h, idx);
    h
}

/// Assigns IDX values. The string dictionary is shared by INFO, FILTER and FORMAT in the order the
/// header is written (INFO, FILTER, FORMAT), with PASS at 0; contigs have their own.
pub fn apply_idx(h: &mut Hdr, mode: IdxMode) {
    if mode == IdxMode::Implicit {
        return;
    }
    let n = h.infos.len() + h.filters.len() + h.formats.len();
    let map = |nat: usize, n: usize| -> usize {
        match mode {
            IdxMode::Implicit | IdxMode::Natural => nat,
            // reverse the natural order (1..=n); PASS keeps 0
            IdxMode::Permuted => n + 1 - nat,
            IdxMode::Sparse => nat * 3 + 2,
        }
    };
    let mut nat = 1;
    for d in &mut h.infos {
        d.idx = Some(map(nat, n));
        nat += 1;
    }
    for d in &mut h.filters {
        d.idx = Some(map(nat, n));
        nat += 1;
    }
    for d in &mut h.formats {
        d.idx = Some(map(nat, n));
        nat += 1;
    }
    let nc = h.contigs.len();
    for (i, c) in h.contigs.iter_mut().enumerate() {
        c.idx = Some(match mode {
            IdxMode::Implicit | IdxMode::Natural => i,
            IdxMode::Permuted => nc - 1 - i,
            IdxMode::Sparse => i * 3 + 2,
        });
    }
}

// ------------------------------------------------------------------------------------------------
// value alphabets

#[derive(Clone, Debug)]
pub struct Choice {
    pub val: Option<Val>,
    /// class label used in fingerprints (never the raw value)
    pub shape: &'static str,
    pub expect: Expect,
}

fn ok(val: Val, shape: &'static str) -> Choice {
    Choice { val: Some(val), shape, expect: Expect::Exact }
}
fn may(val: Val, shape: &'static str, why: &'static str) -> Choice {
    Choice { val: Some(val), shape, expect: Expect::MayReject(why) }
}
fn unj(val: Val, shape: &'static str, why: &'static str) -> Choice {
    Choice { val: Some(val), shape, expect: Expect::Unjudged(why) }
}
fn missing() -> Choice {
    Choice { val: None, shape: "missing", expect: Expect::Exact }
}

pub const NAN_CANON: u32 = 0x7fc0_0000;
pub const NAN_MISSING: u32 = 0x7f80_0001;
pub const NAN_EOV: u32 = 0x7f80_0002;
pub const NAN_RESERVED: u32 = 0x7f80_0003;

fn strn(n: usize) -> String {
    "abcdefghijklmnopqrstuvwxyz".chars().cycle().take(n).collect()
}

/// Value alphabet for one (type, scalar?) in INFO (`info = true`) or FORMAT context.
pub fn values(ty: Ty, scalar: bool, info: bool, p: Purpose, thorough: bool) -> Vec<Choice> {
    let bcf = p == Purpose::Bcf;
    let mut v = Vec::new();
    match (ty, scalar) {
        (Ty::Flag, _) => {
            v.push(ok(Val::Flag, "flag"));
        }
        (Ty::Integer, true) => {
            v.push(ok(Val::Int(1), "plain"));
            v.push(ok(Val::Int(0), "zero"));
            v.push(ok(Val::Int(-1), "negative"));
            v.push(ok(Val::Int(i32::MAX), "int-max"));
            v.push(ok(Val::Int(i32::MIN + 8), "int-min-valid"));
            v.push(may(Val::Int(i32::MIN + 7), "int-reserved", "reserved integer"));
            v.push(may(Val::Int(i32::MIN), "int-reserved", "reserved integer"));
            v.push(missing());
            if bcf {
                for (x, s) in [
                    (127, "i8-max"),
                    (128, "i8-max+1"),
                    (-120, "i8-min-valid"),
                    (-121, "i8-min-valid-1"),
                    (-128, "i8-sentinel-value"),
                    (32767, "i16-max"),
                    (32768, "i16-max+1"),
                    (-32760, "i16-min-valid"),
                    (-32761, "i16-min-valid-1"),
                    (-32768, "i16-sentinel-value"),
                ] {
                    v.push(ok(Val::Int(x), s));
                }
            }
        }
        (Ty::Integer, false) => {
            v.push(ok(Val::IntA(vec![Some(1), Some(2)]), "plain"));
            v.push(ok(Val::IntA(vec![Some(7)]), "one-element"));
            v.push(ok(Val::IntA(vec![None, Some(1)]), "missing-first"));
            v.push(ok(Val::IntA(vec![Some(1), None]), "missing-last"));
            v.push(ok(Val::IntA(vec![Some(1), None, Some(3)]), "missing-inside"));
            v.push(ok(Val::IntA(vec![None, None]), "all-missing"));
            v.push(ok(Val::IntA(vec![None]), "single-missing"));
            v.push(ok(Val::IntA(vec![Some(i32::MIN + 8), Some(i32::MAX)]), "int-extremes"));
            v.push(may(Val::IntA(vec![Some(1), Some(i32::MIN + 1)]), "int-reserved", "reserved integer"));
            v.push(unj(Val::IntA(vec![]), "empty-array", "empty array has no VCF text"));
            v.push(missing());
            if bcf {
                v.push(ok(Val::IntA(vec![Some(-120), Some(127)]), "i8-range"));
                v.push(ok(Val::IntA(vec![Some(-121), Some(1)]), "i8-min-valid-1"));
                v.push(ok(Val::IntA(vec![Some(-128), Some(1)]), "i8-sentinel-value"));
                v.push(ok(Val::IntA(vec![Some(-127), None, Some(1)]), "i8-eov-value"));
                v.push(ok(Val::IntA(vec![Some(1), Some(128)]), "i8-max+1"));
                v.push(ok(Val::IntA(vec![Some(-32768), Some(1)]), "i16-sentinel-value"));
                v.push(ok(Val::IntA(vec![Some(-32767), None]), "i16-eov-value"));
                v.push(ok(Val::IntA(vec![Some(1), Some(32768)]), "i16-max+1"));
                v.push(ok(Val::IntA((0..15).map(Some).collect()), "len-15"));
                v.push(ok(Val::IntA((0..16).map(Some).collect()), "len-16"));
                if thorough {
                    v.push(ok(Val::IntA((0..14).map(Some).collect()), "len-14"));
                    v.push(ok(Val::IntA((0..130).map(Some).collect()), "len-130"));
                    v.push(ok(Val::IntA((0..15).map(|i| Some(i * 1000)).collect()), "len-15-i16"));
                }
            }
        }
        (Ty::Float, true) => {
            v.push(ok(Val::f(1.5), "plain"));
            v.push(ok(Val::f(0.0), "zero"));
            v.push(ok(Val::f(-0.0), "neg-zero"));
            v.push(ok(Val::f(1e-3), "small"));
            v.push(ok(Val::f(1e10), "large"));
            v.push(ok(Val::f(f32::MAX), "f32-max"));
            v.push(ok(Val::f(f32::from_bits(1)), "subnormal"));
            v.push(ok(Val::f(f32::INFINITY), "inf"));
            v.push(ok(Val::f(f32::NEG_INFINITY), "neg-inf"));
            v.push(ok(Val::Float(NAN_CANON), "nan"));
            v.push(missing());
            if bcf {
                v.push(ok(Val::Float(0x7fc0_0001), "nan-payload"));
                v.push(ok(Val::Float(0xffc0_0000), "nan-negative"));
                v.push(may(Val::Float(NAN_MISSING), "nan-reserved-missing", "reserved NaN"));
                v.push(may(Val::Float(NAN_EOV), "nan-reserved-eov", "reserved NaN"));
                v.push(may(Val::Float(NAN_RESERVED), "nan-reserved-other", "reserved NaN"));
            }
        }
        (Ty::Float, false) => {
            v.push(ok(Val::fa(&[Some(1.5), Some(-2.25)]), "plain"));
            v.push(ok(Val::fa(&[Some(0.5)]), "one-element"));
            v.push(ok(Val::fa(&[None, Some(0.25), Some(-0.0)]), "missing-first"));
            v.push(ok(Val::fa(&[Some(1.0), None]), "missing-last"));
            v.push(ok(Val::fa(&[None, None]), "all-missing"));
            v.push(ok(Val::fa(&[None]), "single-missing"));
            v.push(ok(Val::FloatA(vec![Some(NAN_CANON), Some(1f32.to_bits())]), "nan"));
            v.push(ok(Val::fa(&[Some(f32::INFINITY), Some(f32::from_bits(1))]), "inf-subnormal"));
            v.push(unj(Val::FloatA(vec![]), "empty-array", "empty array has no VCF text"));
            v.push(missing());
            if bcf {
                v.push(ok(Val::FloatA(vec![Some(0x7fc0_0001), Some(0xffc0_0000)]), "nan-payload"));
                v.push(may(Val::FloatA(vec![Some(1f32.to_bits()), Some(NAN_MISSING), Some(2f32.to_bits())]), "nan-reserved-missing", "reserved NaN"));
                v.push(may(Val::FloatA(vec![Some(1f32.to_bits()), Some(NAN_EOV), Some(2f32.to_bits())]), "nan-reserved-eov", "reserved NaN"));
                v.push(may(Val::FloatA(vec![Some(NAN_RESERVED), Some(2f32.to_bits())]), "nan-reserved-other", "reserved NaN"));
                v.push(ok(Val::FloatA((0..15).map(|i| Some((i as f32).to_bits())).collect()), "len-15"));
                v.push(ok(Val::FloatA((0..16).map(|i| Some((i as f32).to_bits())).collect()), "len-16"));
            }
        }
        (Ty::Character, true) => {
            v.push(ok(Val::Char('a'), "plain"));
            for (c, s) in [
                (';', "semicolon"),
                ('=', "equals"),
                ('%', "percent"),
                (',', "comma"),
                (':', "colon"),
                ('.', "lone-dot"),
                ('\t', "tab"),
                ('\n', "lf"),
                ('\r', "cr"),
                (' ', "space"),
            ] {
                v.push(ok(Val::Char(c), s));
            }
            if !bcf {
                // a Character is one byte in BCF; see NOTES (observation O1)
                v.push(ok(Val::Char('é'), "non-ascii"));
            }
            v.push(missing());
        }
        (Ty::Character, false) => {
            v.push(ok(Val::CharA(vec![Some('a'), Some('b')]), "plain"));
            v.push(ok(Val::CharA(vec![Some('a')]), "one-element"));
            v.push(ok(Val::CharA(vec![Some('a'), None]), "missing-last"));
            v.push(ok(Val::CharA(vec![None, Some('b')]), "missing-first"));
            v.push(ok(Val::CharA(vec![None, None]), "all-missing"));
            v.push(ok(Val::CharA(vec![None]), "single-missing"));
            v.push(ok(Val::CharA(vec![Some(';'), Some('=')]), "semicolon"));
            v.push(ok(Val::CharA(vec![Some(','), Some('a')]), "comma"));
            v.push(ok(Val::CharA(vec![Some('.'), Some('a')]), "lone-dot"));
            v.push(ok(Val::CharA(vec![Some(':'), Some('%')]), "colon"));
            v.push(ok(Val::CharA(vec![Some('\t'), Some('\n')]), "tab"));
            if !bcf {
                v.push(ok(Val::CharA(vec![Some('é'), Some('a')]), "non-ascii"));
            }
            v.push(unj(Val::CharA(vec![]), "empty-array", "empty array has no VCF text"));
            v.push(missing());
            if bcf {
                v.push(ok(Val::CharA("abcdefgh".chars().map(Some).collect()), "len-15-bytes"));
                v.push(ok(Val::CharA("abcdefghi".chars().map(Some).collect()), "len-17-bytes"));
            }
        }
        (Ty::String, true) => {
            v.push(ok(Val::s("str"), "plain"));
            for (x, s) in [
                ("a;b", "semicolon"),
                ("a=b", "equals"),
                ("a%b", "percent"),
                ("a,b", "comma"),
                ("a:b", "colon"),
                ("a\tb", "tab"),
                ("a\nb", "lf"),
                ("a\rb", "cr"),
                (".", "lone-dot"),
                ("..", "two-dots"),
                ("%3B", "percent-sequence"),
                ("a b", "space"),
                ("é", "non-ascii"),
            ] {
                v.push(ok(Val::s(x), s));
            }
            v.push(unj(Val::s(""), "empty-string", "empty string is not generated (calibration)"));
            v.push(missing());
            if bcf {
                v.push(ok(Val::Str(strn(14)), "len-14"));
                v.push(ok(Val::Str(strn(15)), "len-15"));
                v.push(ok(Val::Str(strn(16)), "len-16"));
                if thorough {
                    v.push(ok(Val::Str(strn(127)), "len-127"));
                    v.push(ok(Val::Str(strn(128)), "len-128"));
                    v.push(ok(Val::Str(strn(300)), "len-300"));
                }
            }
        }
        (Ty::String, false) => {
            v.push(ok(Val::sa(&[Some("a"), Some("b")]), "plain"));
            v.push(ok(Val::sa(&[Some("a")]), "one-element"));
            v.push(ok(Val::sa(&[Some("a"), None]), "missing-last"));
            v.push(ok(Val::sa(&[None, Some("b")]), "missing-first"));
            v.push(ok(Val::sa(&[None, None]), "all-missing"));
            v.push(ok(Val::sa(&[None]), "single-missing"));
            v.push(ok(Val::sa(&[Some("a,b"), Some("c")]), "comma"));
            v.push(ok(Val::sa(&[Some("."), Some("a")]), "lone-dot"));
            v.push(ok(Val::sa(&[Some("a;b"), Some("c=d")]), "semicolon"));
            v.push(ok(Val::sa(&[Some("a:b"), Some("c%d")]), "colon"));
            v.push(ok(Val::sa(&[Some("a\tb"), Some("\n")]), "tab"));
            v.push(ok(Val::sa(&[Some("é"), Some("x y")]), "non-ascii"));
            v.push(ok(Val::sa(&[Some("%3B"), Some("x")]), "percent-sequence"));
            v.push(unj(Val::sa(&[Some(""), Some("a")]), "empty-string", "empty string is not generated (calibration)"));
            v.push(unj(Val::StrA(vec![]), "empty-array", "empty array has no VCF text"));
            v.push(missing());
            if bcf {
                let many = |n: usize| Val::StrA((0..n).map(|i| Some(format!("e{i}"))).collect());
                v.push(ok(many(15), "len-15-elements"));
                v.push(ok(many(16), "len-16-elements"));
                v.push(ok(Val::sa(&[Some("abcdefg"), Some("hijklmn")]), "len-15-bytes"));
                v.push(ok(Val::sa(&[Some("abcdefg"), Some("hijklmno")]), "len-16-bytes"));
            }
        }
    }
    let _ = info;
    v
}

/// Genotype alphabet. `ff44`: leading phasing marks exist (≥ 4.4) so the first allele's flag is
/// free; before 4.4 it is implied (phased iff every later separator is `|`).
pub fn genotypes(ff: (u32, u32), p: Purpose, thorough: bool) -> Vec<Choice> {
    fn parse(s: &str) -> Vec<(Option<usize>, bool)> {
        // s uses an explicit mark before every allele: "/0|1"
        let mut out = Vec::new();
        let b: Vec<char> = s.chars().collect();
        let mut i = 0;
        while i < b.len() {
            let ph = b[i] == '|';
            i += 1;
            let st = i;
            while i < b.len() && b[i] != '/' && b[i] != '|' {
                i += 1;
            }
            let tok: String = b[st..i].iter().collect();
            out.push((if tok == "." { None } else { Some(tok.parse().unwrap()) }, ph));
        }
        out
    }
    let canon = |mut g: Vec<(Option<usize>, bool)>| {
        if !g.is_empty() {
            g[0].1 = g[1..].iter().all(|a| a.1);
        }
        g
    };
    let mut v = Vec::new();
    let mut add = |s: &str, shape: &'static str| {
        let g = canon(parse(s));
        v.push(ok(Val::Gt(g), shape));
    };
    add("/0/1", "diploid-unphased");
    add("|0|1", "diploid-phased");
    add("/1", "haploid");
    add("/.", "haploid-missing");
    add("/./.", "diploid-missing");
    add("|.|.", "diploid-missing-phased");
    add("/0|.", "missing-allele-phased");
    add("/0/1/2", "triploid");
    add("/0|1/2", "triploid-mixed");
    add("/0/1|2", "triploid-mixed");
    add("/0/1/2/3", "tetraploid");
    add("|0|1|2|3", "tetraploid-phased");
    add("/1/1", "hom-alt");
    if thorough {
        add("/2|1", "diploid-phased");
        add("/.|1", "missing-first");
        add("/0/./1", "missing-inside");
    }
    if ff >= (4, 4) {
        // first flag opposite to the implied one: only expressible with a leading mark
        let mut flip = |s: &str, shape: &'static str| {
            let mut g = canon(parse(s));
            g[0].1 = !g[0].1;
            v.push(ok(Val::Gt(g), shape));
        };
        flip("/0/1", "leading-phase-mark");
        flip("|0|1", "leading-phase-mark");
        flip("/1", "leading-phase-mark-haploid");
        flip("/0|1/2", "leading-phase-mark");
    }
    if p == Purpose::Bcf {
        // in C10's quantifier ("ploidy 0..4"): Err or an exact round trip
        v.push(may(Val::Gt(vec![]), "ploidy-0", "a genotype without alleles"));
    } else {
        v.push(unj(Val::Gt(vec![]), "ploidy-0", "a genotype without alleles has no VCF text"));
    }
    if p == Purpose::Bcf {
        let big = |a: usize| Val::Gt(canon(vec![(Some(0), false), (Some(a), false)]));
        v.push(may(big(62), "allele-62", "allele index beyond ALT count"));
        v.push(may(big(63), "allele-63", "allele index beyond ALT count"));
        v.push(may(big(126), "allele-126", "allele index beyond ALT count"));
        v.push(may(big(127), "allele-127", "allele index beyond ALT count"));
    }
    v
}

// ------------------------------------------------------------------------------------------------
// record grammar

/// Everything fixed for one (file format, sample count, IDX mode): models, built header, flattened
/// slot alphabets.
/// Per-header constants of the BCF path, computed once: the header block the writer emits, the
/// header the reader returns for it (with its string maps), and both dictionaries. Every execution
/// still writes the header (the writer needs it) and the harness verifies that the bytes are the
/// cached ones before it uses the cached reader header.
pub struct BcfPre {
    pub header_bytes: Vec<u8>,
    pub read_header: noodles_vcf::Header,
    pub header_text: String,
    pub dict_text: Result<crate::bcfraw::Dict, String>,
    pub dict_model: Result<crate::bcfraw::Dict, String>,
}

impl BcfPre {
    pub fn new(hdr: &Hdr, header: &noodles_vcf::Header) -> Option<BcfPre> {
        let header_bytes = crate::io::bcf_write_header_only(header).ok()?;
        let (read_header, _) = crate::io::bcf_read(&header_bytes, 0).ok()?;
        let stream = crate::bcfraw::parse_stream(&header_bytes).ok()?;
        Some(BcfPre {
            dict_text: crate::bcfraw::dict_from_text(&stream.header_text),
            dict_model: crate::bcfraw::dict_from_model(hdr),
            header_text: stream.header_text,
            header_bytes,
            read_header,
        })
    }
}

pub struct Env {
    pub bcf: Option<BcfPre>,
    pub ff: (u32, u32),
    pub purpose: Purpose,
    pub thorough: bool,
    pub hdr: Hdr,
    pub header: noodles_vcf::Header,
    /// entry 0 = no field
    pub info_slot: Vec<Option<(String, Choice)>>,
    pub info_keys: Vec<Option<(String, Choice)>>,
    pub fmt_slot: Vec<Option<(String, Choice)>>,
    pub fmt_keys: Vec<Option<(String, Choice)>>,
    pub gts: Vec<Choice>,
}

impl Env {
    /// An environment around an arbitrary header model (no slot alphabets).
    pub fn from_hdr(hdr: Hdr, purpose: Purpose) -> Env {
        let header = hdr.build().expect("header builds");
        let bcf = if purpose == Purpose::Bcf { BcfPre::new(&hdr, &header) } else { None };
        Env {
            bcf,
            ff: hdr.ff,
            purpose,
            thorough: false,
            hdr,
            header,
            info_slot: vec![None],
            info_keys: vec![None],
            fmt_slot: vec![None],
            fmt_keys: vec![None],
            gts: Vec::new(),
        }
    }

    pub fn new(ff: (u32, u32), n_samples: usize, idx: IdxMode, purpose: Purpose, thorough: bool) -> Env {
        let hdr = rich_header(ff, n_samples, idx);
        let header = hdr.build().expect("rich header builds");
        let mut info_slot = vec![None];
        let mut info_keys = vec![None];
        for d in &hdr.infos {
            if d.id == "END" || d.id == "SVLEN" {
                continue;
            }
            let vals = values(d.ty, d.num.is_scalar() || d.ty == Ty::Flag, true, purpose, thorough);
            info_keys.push(Some((d.id.clone(), vals[0].clone())));
            for c in vals {
                info_slot.push(Some((d.id.clone(), c)));
            }
        }
        let mut fmt_slot = vec![None];
        let mut fmt_keys = vec![None];
        for d in &hdr.formats {
            if d.id == "GT" || d.id == "LEN" {
                continue;
            }
            let vals = values(d.ty, d.num.is_scalar(), false, purpose, thorough);
            fmt_keys.push(Some((d.id.clone(), vals[0].clone())));
            for c in vals {
                fmt_slot.push(Some((d.id.clone(), c)));
            }
        }
        let gts = genotypes(ff, purpose, thorough);
        let bcf = if purpose == Purpose::Bcf { BcfPre::new(&hdr, &header) } else { None };
        Env { bcf, ff, purpose, thorough, hdr, header, info_slot, info_keys, fmt_slot, fmt_keys, gts }
    }
}

pub const N_BASES: usize = 4;
/// samples in the header each base record needs
pub const BASE_SAMPLES: [usize; N_BASES] = [0, 2, 1, 3];
pub const BASE_NAMES: [&str; N_BASES] = ["minimal", "snv-2-samples", "sv-1-sample", "everything-3-samples"];

fn gt(s: &[(Option<usize>, bool)]) -> Option<Val> {
    Some(Val::Gt(s.to_vec()))
}

pub fn base_record(b: usize, ff: (u32, u32)) -> Rec {
    match b {
        0 => Rec::default(),
        1 => Rec {
            ids: vec!["rs1".into()],
            alts: vec!["C".into()],
            qual: Some(29.5f32.to_bits()),
            filters: vec!["PASS".into()],
            info: vec![("XI1".into(), Some(Val::Int(1))), ("XF".into(), Some(Val::Flag))],
            format: vec!["GT".into(), "YI1".into()],
            samples: vec![
                vec![gt(&[(Some(0), false), (Some(1), false)]), Some(Val::Int(5))],
                vec![gt(&[(Some(1), true), (Some(1), true)]), Some(Val::Int(7))],
            ],
            ..Rec::default()
        },
        2 => {
            let mut r = Rec {
                pos: 100,
                refb: "A".into(),
                alts: vec!["<DEL>".into()],
                info: vec![("XS1".into(), Some(Val::s("str")))],
                format: vec!["GT".into()],
                samples: vec![vec![gt(&[(Some(0), false), (Some(1), false)])]],
                ..Rec::default()
            };
            if ff < (4, 5) {
                r.info.push(("END".into(), Some(Val::Int(150))));
            } else {
                r.info.push(("SVLEN".into(), Some(Val::IntA(vec![Some(50)]))));
            }
            r
        }
        _ => Rec {
            chrom: "sq1".into(),
            pos: 5,
            ids: vec!["a".into(), "b".into()],
            refb: "AC".into(),
            alts: vec!["C".into(), "G".into()],
            qual: Some(0.5f32.to_bits()),
            filters: vec!["q10".into(), "s50".into()],
            info: vec![
                ("XIA".into(), Some(Val::IntA(vec![Some(1), Some(2)]))),
                ("XFR".into(), Some(Val::fa(&[Some(0.5), None, Some(0.25)]))),
                ("XSU".into(), Some(Val::sa(&[Some("x"), Some("y")]))),
                ("XC1".into(), Some(Val::Char('c'))),
            ],
            format: vec!["GT".into(), "YIA".into(), "YS1".into(), "YFU".into()],
            samples: vec![
                vec![
                    gt(&[(Some(0), false), (Some(1), false)]),
                    Some(Val::IntA(vec![Some(1), Some(2)])),
                    Some(Val::s("s")),
                    Some(Val::fa(&[Some(1.0)])),
                ],
                vec![
                    gt(&[(Some(1), true), (Some(2), true)]),
                    Some(Val::IntA(vec![Some(3)])),
                    None,
                    Some(Val::fa(&[Some(1.0), Some(2.0), Some(3.0)])),
                ],
                vec![gt(&[(Some(2), false), (Some(2), false)]), Some(Val::IntA(vec![Some(4), None, Some(6)]))],
            ],
            ..Rec::default()
        },
    }
}

pub struct Generated {
    pub rec: Rec,
    pub expect: Expect,
    /// (field key as used in diffs: "info:XS1", "sample:YIA", "qual", …, shape label)
    pub shapes: Vec<(String, &'static str)>,
}

impl Generated {
    pub fn shape_of(&self, key: &str) -> &'static str {
        self.shapes.iter().rev().find(|(k, _)| k == key).map(|x| x.1).unwrap_or("base")
    }
    /// all non-base shapes, for descriptions
    pub fn shapes_str(&self) -> String {
        self.shapes.iter().map(|(k, s)| format!("{k}={s}")).collect::<Vec<_>>().join(",")
    }
}

fn set_info(rec: &mut Rec, key: &str, val: Option<Val>) {
    if let Some(e) = rec.info.iter_mut().find(|(k, _)| k == key) {
        e.1 = val;
    } else {
        rec.info.push((key.to_string(), val));
    }
}

/// Sets column `key` of every sample to `val` (adds the column if absent).
fn set_fmt(rec: &mut Rec, key: &str, val: &Option<Val>) -> usize {
    let j = match rec.format.iter().position(|k| k == key) {
        Some(j) => j,
        None => {
            rec.format.push(key.to_string());
            rec.format.len() - 1
        }
    };
    for s in &mut rec.samples {
        while s.len() <= j {
            s.push(None);
        }
        s[j] = val.clone();
    }
    j
}

/// A second value of the same type and different length / magnitude, for per-sample overrides.
fn other_value(v: &Option<Val>) -> Option<Val> {
    Some(match v.as_ref()? {
        Val::Int(_) => Val::Int(300),
        Val::Float(_) => Val::f(-2.5),
        Val::Char(_) => Val::Char('z'),
        Val::Str(_) => Val::s("a-longer-string-of-27-bytes"),
        Val::IntA(_) => Val::IntA(vec![Some(40000), Some(2), Some(3), Some(4)]),
        Val::FloatA(_) => Val::fa(&[Some(9.0), Some(8.0), Some(7.0), Some(6.0)]),
        Val::CharA(_) => Val::CharA(vec![Some('x'), Some('y'), Some('z'), Some('w')]),
        Val::StrA(_) => Val::sa(&[Some("p"), Some("q"), Some("r"), Some("s")]),
        Val::Gt(_) | Val::Flag => return None,
    })
}

/// One record within the deviation bound of base record `b`.
pub fn gen_record(ch: &Chooser, env: &Env, b: usize) -> Generated {
    let mut rec = base_record(b, env.ff);
    let mut expect = Expect::Exact;
    let mut shapes: Vec<(String, &'static str)> = Vec::new();
    let n_s = rec.samples.len();
    let bcf = env.purpose == Purpose::Bcf;

    // CHROM
    match ch.dev("chrom", 3) {
        0 => {}
        1 => {
            rec.chrom = if rec.chrom == "sq1" { "sq0".into() } else { "sq1".into() };
            shapes.push(("chrom".into(), "other-contig"));
        }
        _ => {
            rec.chrom = "sq9".into();
            shapes.push(("chrom".into(), "contig-not-in-header"));
        }
    }
    // POS
    match ch.dev("pos", 4) {
        0 => {}
        1 => {
            rec.pos = 0;
            shapes.push(("pos".into(), "telomere-0"));
        }
        2 => {
            rec.pos = 1000;
            shapes.push(("pos".into(), "plain"));
        }
        _ => {
            rec.pos = (1usize << 31) - 1;
            shapes.push(("pos".into(), "pos-max"));
        }
    }
    // ID
    match ch.dev("ids", 4) {
        0 => {}
        1 => {
            rec.ids = vec![];
            shapes.push(("ids".into(), "none"));
        }
        2 => {
            rec.ids = vec!["id1".into()];
            shapes.push(("ids".into(), "one"));
        }
        _ => {
            rec.ids = vec!["id1".into(), "id:2,x".into()];
            shapes.push(("ids".into(), "two"));
        }
    }
    // REF
    match ch.dev("ref", 4) {
        0 => {}
        1 => {
            rec.refb = "ACGT".into();
            shapes.push(("ref".into(), "four-bases"));
        }
        2 => {
            rec.refb = "N".into();
            shapes.push(("ref".into(), "n"));
        }
        _ => {
            rec.refb = "acgtn".into();
            shapes.push(("ref".into(), "lower-case"));
        }
    }
    // ALT
    {
        let alts: [(&[&str], &'static str); 10] = [
            (&[], "keep"),
            (&[], "none"),
            (&["T"], "snv"),
            (&["C", "G", "T"], "three"),
            (&["ACGT"], "insertion"),
            (&["<DEL>"], "symbolic"),
            (&["G]sq1:5]"], "breakend"),
            (&["*"], "star"),
            (&["<*>"], "unspecified"),
            (&["<DUP>", ".A"], "symbolic+single-breakend"),
        ];
        let i = ch.dev("alt", alts.len());
        if i > 0 {
            rec.alts = alts[i].0.iter().map(|s| s.to_string()).collect();
            shapes.push(("alt".into(), alts[i].1));
        }
    }
    // QUAL
    {
        let quals: [(Option<f32>, &'static str); 9] = [
            (None, "keep"),
            (None, "missing"),
            (Some(0.0), "zero"),
            (Some(1e-3), "small"),
            (Some(1e10), "large"),
            (Some(f32::MAX), "f32-max"),
            (Some(60.0), "integral"),
            (Some(f32::NAN), "nan"),
            (Some(f32::INFINITY), "inf"),
        ];
        let i = ch.dev("qual", quals.len());
        if i > 0 {
            rec.qual = quals[i].0.map(f32::to_bits);
            shapes.push(("qual".into(), quals[i].1));
        }
    }
    // FILTER
    match ch.dev("filter", 5) {
        0 => {}
        1 => {
            rec.filters = vec![];
            shapes.push(("filter".into(), "missing"));
        }
        2 => {
            rec.filters = vec!["PASS".into()];
            shapes.push(("filter".into(), "pass"));
        }
        3 => {
            rec.filters = vec!["s50".into()];
            shapes.push(("filter".into(), "one"));
        }
        _ => {
            rec.filters = vec!["s50".into(), "q10".into()];
            shapes.push(("filter".into(), "two-reverse-order"));
        }
    }
    // INFO slot A: any key with any value; slot B: any key with its default value (a neighbour)
    if let Some((k, c)) = ch.pick("info.a", &env.info_slot) {
        set_info(&mut rec, k, c.val.clone());
        expect.merge(&c.expect);
        shapes.push((format!("info:{k}"), c.shape));
    }
    if let Some((k, c)) = ch.pick("info.b", &env.info_keys) {
        if !rec.info.iter().any(|(x, _)| x == k) {
            rec.info.push((k.clone(), c.val.clone()));
            shapes.push((format!("info:{k}"), "neighbour"));
        }
    }
    // END / SVLEN (spans)
    {
        let len = rec.refb.len();
        let p = rec.pos.max(1) as i64;
        let ends: [(Option<Option<i64>>, &'static str); 7] = [
            (None, "keep"),
            (None, "absent"),
            (Some(Some(p)), "end=pos"),
            (Some(Some(p + len as i64 - 1)), "end=ref-end"),
            (Some(Some(p + 100)), "end>ref-end"),
            (Some(None), "end-missing"),
            (Some(Some(p - 1)), "end<pos"),
        ];
        let i = ch.dev("end", ends.len());
        if i == 1 {
            rec.info.retain(|(k, _)| k != "END");
            shapes.push(("info:END".into(), "absent"));
        } else if i > 1 {
            let v = ends[i].0.unwrap();
            match v {
                Some(n) if n > i32::MAX as i64 => {}
                Some(n) => {
                    set_info(&mut rec, "END", Some(Val::Int(n as i32)));
                    shapes.push(("info:END".into(), ends[i].1));
                    if n < p {
                        expect.unjudge("END before POS");
                    }
                }
                None => {
                    set_info(&mut rec, "END", None);
                    shapes.push(("info:END".into(), ends[i].1));
                }
            }
        }
        let svs: [(Option<Option<Vec<Option<i32>>>>, &'static str); 7] = [
            (None, "keep"),
            (None, "absent"),
            (Some(Some(vec![Some(5)])), "svlen-one"),
            (Some(Some(vec![None, Some(5), Some(8)])), "svlen-missing-first"),
            (Some(Some(vec![Some(0)])), "svlen-zero"),
            (Some(None), "svlen-missing"),
            (Some(Some(vec![Some(-50)])), "svlen-negative"),
        ];
        let i = ch.dev("svlen", svs.len());
        if i == 1 {
            rec.info.retain(|(k, _)| k != "SVLEN");
            shapes.push(("info:SVLEN".into(), "absent"));
        } else if i > 1 {
            set_info(&mut rec, "SVLEN", svs[i].0.clone().unwrap().map(Val::IntA));
            shapes.push(("info:SVLEN".into(), svs[i].1));
        }
    }
    if n_s > 0 {
        // GT per sample
        let has_gt = rec.format.first().map(|k| k == "GT").unwrap_or(false);
        if has_gt {
            for (si, label) in ["gt.s0", "gt.s1", "gt.s2"].into_iter().enumerate().take(n_s) {
                let i = ch.dev(label, env.gts.len() + 1);
                if i > 0 {
                    let c = &env.gts[i - 1];
                    rec.samples[si][0] = c.val.clone();
                    expect.merge(&c.expect);
                    shapes.push(("sample:GT".into(), c.shape));
                }
            }
            match ch.dev("gt.col", 3) {
                0 => {}
                1 => {
                    // no GT column at all
                    rec.format.remove(0);
                    for s in &mut rec.samples {
                        if !s.is_empty() {
                            s.remove(0);
                        }
                    }
                    if rec.format.is_empty() {
                        // a record must carry sample columns iff the header has samples
                        set_fmt(&mut rec, "YI1", &Some(Val::Int(3)));
                    }
                    shapes.push(("sample:GT".into(), "no-gt-column"));
                }
                _ => {
                    // GT of the last sample missing ('.')
                    rec.samples[n_s - 1][0] = None;
                    shapes.push(("sample:GT".into(), "gt-missing"));
                    if bcf {
                        expect.weaken("entirely missing GT (calibration: rejected)");
                    }
                }
            }
        }
        // FORMAT slot A (any key × value, same value for every sample) and B (neighbour)
        let mut col_a: Option<(usize, Option<Val>)> = None;
        if let Some((k, c)) = ch.pick("fmt.a", &env.fmt_slot) {
            let j = set_fmt(&mut rec, k, &c.val);
            col_a = Some((j, c.val.clone()));
            expect.merge(&c.expect);
            shapes.push((format!("sample:{k}"), c.shape));
        }
        if let Some((k, c)) = ch.pick("fmt.b", &env.fmt_keys) {
            if !rec.format.iter().any(|x| x == k) {
                set_fmt(&mut rec, k, &c.val);
                shapes.push((format!("sample:{k}"), "neighbour"));
            }
        }
        // per-sample overrides of slot A's column (or of column 1 of the base record); the choice
        // points exist whether or not there is such a column, so that the sequence of choice points
        // depends on the base record only (harnesses re-generate sub-records by zeroing choices)
        let col = col_a.clone().or_else(|| {
            if rec.format.len() > 1 { Some((1, rec.samples[0].get(1).cloned().flatten())) } else { None }
        });
        for (si, label) in ["ovr.s0", "ovr.s1", "ovr.s2"].into_iter().enumerate().take(n_s) {
            let c = ch.dev(label, 3);
            let Some((j, v)) = &col else { continue };
            let j = *j;
            match c {
                0 => {}
                1 => {
                    if rec.samples[si].len() > j {
                        rec.samples[si][j] = None;
                        shapes.push((format!("sample:{}", rec.format[j]), "sample-value-missing"));
                    }
                }
                _ => {
                    if let Some(o) = other_value(v) {
                        while rec.samples[si].len() <= j {
                            rec.samples[si].push(None);
                        }
                        rec.samples[si][j] = Some(o);
                        shapes.push((format!("sample:{}", rec.format[j]), "unequal-per-sample"));
                    }
                }
            }
        }
        // FORMAT LEN (spans from 4.5)
        match ch.dev("len", 4) {
            0 => {}
            1 => {
                let j = set_fmt(&mut rec, "LEN", &None);
                rec.samples[0][j] = Some(Val::Int(8));
                shapes.push(("sample:LEN".into(), "len-first-sample"));
            }
            2 => {
                set_fmt(&mut rec, "LEN", &Some(Val::Int(300)));
                shapes.push(("sample:LEN".into(), "len-all-samples"));
            }
            _ => {
                let j = set_fmt(&mut rec, "LEN", &None);
                rec.samples[n_s - 1][j] = Some(Val::Int(-3));
                shapes.push(("sample:LEN".into(), "len-negative"));
            }
        }
        // shape of the value lists
        match ch.dev("rows", 4) {
            0 => {}
            1 => {
                // trailing values of the last sample dropped
                rec.samples[n_s - 1].truncate(1);
                shapes.push(("sample:*".into(), "trailing-dropped"));
            }
            2 => {
                // a sample with no values at all
                rec.samples[n_s - 1].clear();
                shapes.push(("sample:*".into(), "sample-without-values"));
                if bcf && has_gt {
                    expect.weaken("entirely missing GT (calibration: rejected)");
                }
            }
            _ => {
                // every value of the first sample explicitly missing
                for v in rec.samples[0].iter_mut() {
                    *v = None;
                }
                shapes.push(("sample:*".into(), "sample-all-missing"));
                if bcf && has_gt {
                    expect.weaken("entirely missing GT (calibration: rejected)");
                }
            }
        }
    }
    if let Some((_, Some(Val::Int(e)))) = rec.info.iter().find(|(k, _)| k == "END") {
        if (*e as i64) < rec.pos.max(1) as i64 {
            expect.unjudge("END before POS");
        }
    }
    if rec.chrom == "sq9" && bcf {
        expect.weaken("contig not in header (BCF needs the dictionary)");
    }
    Generated { rec, expect, shapes }
}

// ------------------------------------------------------------------------------------------------
// header grammar (C09 header round trip)

pub fn std_info(ff: (u32, u32), key: &str) -> FieldDef {
    // the specification's definitions of the reserved keys used here
    match key {
        "END" => FieldDef::new("END", Num::Count(1), Ty::Integer),
        "SVLEN" => FieldDef::new("SVLEN", svlen_num(ff), Ty::Integer),
        "AA" => FieldDef::new("AA", Num::Count(1), Ty::String),
        "DP" => FieldDef::new("DP", Num::Count(1), Ty::Integer),
        "AF" => FieldDef::new("AF", Num::A, Ty::Float),
        "DB" => FieldDef::new("DB", Num::Count(0), Ty::Flag),
        _ => unreachable!(),
    }
}

pub fn std_format(key: &str) -> FieldDef {
    match key {
        "GT" => FieldDef::new("GT", Num::Count(1), Ty::String),
        "GQ" => FieldDef::new("GQ", Num::Count(1), Ty::Integer),
        "DP" => FieldDef::new("DP", Num::Count(1), Ty::Integer),
        "HQ" => FieldDef::new("HQ", Num::Count(2), Ty::Integer),
        "GL" => FieldDef::new("GL", Num::G, Ty::Float),
        "AD" => FieldDef::new("AD", Num::R, Ty::Integer),
        _ => unreachable!(),
    }
}

const DESCS: [(&str, &str); 7] = [
    ("A description", "plain"),
    ("with \"quotes\" inside", "quote"),
    ("back\\slash", "backslash"),
    ("comma, equals = and > and <", "delimiters"),
    ("", "empty"),
    ("ünï cødé", "non-ascii"),
    ("trailing backslash \\", "trailing-backslash"),
];

fn others_alpha() -> Vec<(Vec<(String, String)>, &'static str)> {
    vec![
        (vec![], "none"),
        (vec![("Source".into(), "src".into())], "one"),
        (vec![("Source".into(), "a \"b\", c".into()), ("Version".into(), "3".into())], "two-quoted"),
    ]
}

pub struct GeneratedHeader {
    pub hdr: Hdr,
    pub shapes: Vec<(&'static str, &'static str)>,
}

pub fn gen_header(ch: &Chooser, ff: (u32, u32), thorough: bool) -> GeneratedHeader {
    let mut h = Hdr::new(ff);
    let mut shapes = Vec::new();
    let oth = others_alpha();

    // INFO lines
    let mut info_defs: Vec<FieldDef> = vec![FieldDef::new("XF", Num::Count(0), Ty::Flag)];
    for (t, tc) in TYS {
        for (n, nc) in NUMS {
            info_defs.push(FieldDef::new(&format!("X{tc}{nc}"), n, t));
        }
    }
    info_defs.push(FieldDef::new("XI9", Num::Count(9), Ty::Integer));
    for k in ["END", "SVLEN", "AA", "DP", "AF", "DB"] {
        info_defs.push(std_info(ff, k));
    }
    info_defs.push(FieldDef::new("1000G", Num::Count(0), Ty::Flag));
    for (slot, (l_def, l_desc, l_idx, l_oth)) in
        [("info.0", "info.0.desc", "info.0.idx", "info.0.other"), ("info.1", "info.1.desc", "info.1.idx", "info.1.other")]
            .into_iter()
            .enumerate()
    {
        let i = ch.dev(l_def, info_defs.len() + 1);
        if i == 0 {
            continue;
        }
        let mut d = info_defs[i - 1].clone();
        if h.infos.iter().any(|x| x.id == d.id) {
            continue;
        }
        let di = ch.dev(l_desc, DESCS.len());
        d.desc = DESCS[di].0.to_string();
        if di > 0 {
            shapes.push(("info-desc", DESCS[di].1));
        }
        match ch.dev(l_idx, 3) {
            0 => {}
            1 => {
                d.idx = Some(slot + 1);
                shapes.push(("info-idx", "natural"));
            }
            _ => {
                d.idx = Some(7 + slot);
                shapes.push(("info-idx", "sparse"));
            }
        }
        let oi = ch.dev(l_oth, oth.len());
        d.other = oth[oi].0.clone();
        if oi > 0 {
            shapes.push(("info-other", oth[oi].1));
        }
        h.infos.push(d);
    }

    // FILTER lines
    for (l_def, l_desc, l_idx) in [("filter.0", "filter.0.desc", "filter.0.idx"), ("filter.1", "filter.1.desc", "filter.1.idx")] {
        let ids = ["q10", "s50", "PASS", "LowQual"];
        let i = ch.dev(l_def, ids.len() + 1);
        if i == 0 {
            continue;
        }
        let id = ids[i - 1];
        if h.filters.iter().any(|x| x.id == id) {
            continue;
        }
        let di = ch.dev(l_desc, DESCS.len());
        if di > 0 {
            shapes.push(("filter-desc", DESCS[di].1));
        }
        let idx = match ch.dev(l_idx, 2) {
            0 => None,
            _ => {
                shapes.push(("filter-idx", "explicit"));
                Some(if id == "PASS" { 0 } else { 20 + i })
            }
        };
        h.filters.push(FilterDef { id: id.into(), desc: DESCS[di].0.into(), idx, other: vec![] });
    }

    // FORMAT lines
    let mut fmt_defs: Vec<FieldDef> = Vec::new();
    for (t, tc) in TYS {
        for (n, nc) in NUMS {
            fmt_defs.push(FieldDef::new(&format!("Y{tc}{nc}"), n, t));
        }
    }
    for k in ["GT", "GQ", "DP", "HQ", "GL", "AD"] {
        fmt_defs.push(std_format(k));
    }
    for (slot, (l_def, l_desc, l_idx, l_oth)) in
        [("format.0", "format.0.desc", "format.0.idx", "format.0.other"), ("format.1", "format.1.desc", "format.1.idx", "format.1.other")]
            .into_iter()
            .enumerate()
    {
        let i = ch.dev(l_def, fmt_defs.len() + 1);
        if i == 0 {
            continue;
        }
        let mut d = fmt_defs[i - 1].clone();
        if h.formats.iter().any(|x| x.id == d.id) {
            continue;
        }
        let di = ch.dev(l_desc, DESCS.len());
        d.desc = DESCS[di].0.to_string();
        if di > 0 {
            shapes.push(("format-desc", DESCS[di].1));
        }
        match ch.dev(l_idx, 3) {
            0 => {}
            1 => {
                d.idx = Some(40 + slot);
                shapes.push(("format-idx", "explicit"));
            }
            _ => {
                // the same ID may appear as INFO and FORMAT: they share one dictionary entry
                d.idx = h.infos.iter().find(|x| x.id == d.id).and_then(|x| x.idx).or(Some(41 + slot));
                shapes.push(("format-idx", "shared"));
            }
        }
        let oi = ch.dev(l_oth, oth.len());
        d.other = oth[oi].0.clone();
        if oi > 0 {
            shapes.push(("format-other", oth[oi].1));
        }
        h.formats.push(d);
    }

    // ALT lines
    {
        let ids = ["DEL", "DUP:TANDEM", "INS:ME:ALU", "NON_REF"];
        let i = ch.dev("alt", ids.len() + 1);
        if i > 0 {
            let di = ch.dev("alt.desc", DESCS.len());
            let oi = ch.dev("alt.other", oth.len());
            h.alts.push(AltDef { id: ids[i - 1].into(), desc: DESCS[di].0.into(), other: oth[oi].0.clone() });
            shapes.push(("alt", "present"));
            if ch.dev("alt.second", 2) == 1 {
                h.alts.push(AltDef { id: "CNV".into(), desc: "Copy number variable region".into(), other: vec![] });
            }
        }
    }

    // contig lines
    for (l_def, l_len, l_md5, l_url, l_idx, l_oth) in [
        ("contig.0", "contig.0.len", "contig.0.md5", "contig.0.url", "contig.0.idx", "contig.0.other"),
        ("contig.1", "contig.1.len", "contig.1.md5", "contig.1.url", "contig.1.idx", "contig.1.other"),
    ] {
        let ids = ["sq0", "sq1", "chr1.2|x:y", "HLA-A*01:01"];
        let i = ch.dev(l_def, ids.len() + 1);
        if i == 0 {
            continue;
        }
        let id = ids[i - 1];
        if h.contigs.iter().any(|x| x.id == id) {
            continue;
        }
        let mut c = ContigDef { id: id.into(), ..Default::default() };
        c.length = [None, Some(1000usize), Some(0), Some(1 << 31)][ch.dev(l_len, 4)];
        c.md5 = [None, Some("d41d8cd98f00b204e9800998ecf8427e".to_string())][ch.dev(l_md5, 2)].clone();
        c.url = [None, Some("https://example.com/x.fa?a=b".to_string()), Some("file:///a/b.fa".to_string())][ch.dev(l_url, 3)].clone();
        c.idx = [None, Some(0usize), Some(5)][ch.dev(l_idx, 3)];
        if c.idx.is_some() {
            if h.contigs.iter().any(|x| x.idx == c.idx) {
                c.idx = c.idx.map(|x| x + 1);
            }
            shapes.push(("contig-idx", "explicit"));
        }
        let co: [Vec<(String, String)>; 3] = [
            vec![],
            vec![("assembly".into(), "b37".into())],
            vec![("species".into(), "Homo \"sapiens\", x".into()), ("taxonomy".into(), "x".into())],
        ];
        c.other = co[ch.dev(l_oth, 3)].clone();
        h.contigs.push(c);
    }

    // other records
    for label in ["other.0", "other.1"] {
        let mut alpha: Vec<OtherRec> = vec![
            OtherRec::Str { key: "source".into(), value: "noodles v1".into() },
            OtherRec::Str { key: "reference".into(), value: "file:///seq/ref.fa".into() },
            OtherRec::Str { key: "source".into(), value: "a second = source, with <odd> chars".into() },
            OtherRec::Map {
                key: "SAMPLE".into(),
                id: "S1".into(),
                fields: vec![("Assay".into(), "WGS".into()), ("Description".into(), "a \"quoted\" word, and comma".into())],
            },
            OtherRec::Map { key: "SAMPLE".into(), id: "S2".into(), fields: vec![] },
            OtherRec::Map {
                key: "PEDIGREE".into(),
                id: "Child".into(),
                fields: vec![("Father".into(), "F".into()), ("Mother".into(), "M".into())],
            },
            OtherRec::Str { key: "fileDate".into(), value: "20260926".into() },
        ];
        if ff >= (4, 3) {
            // META lines exist from 4.3
            alpha.push(OtherRec::Map {
                key: "META".into(),
                id: "Assay".into(),
                fields: vec![
                    ("Type".into(), "String".into()),
                    ("Number".into(), ".".into()),
                    ("Values".into(), "[WholeGenome, Exome]".into()),
                ],
            });
        }
        if thorough {
            alpha.push(OtherRec::Map { key: "foo".into(), id: "x".into(), fields: vec![("bar".into(), "b\\z".into())] });
        }
        let i = ch.dev(label, alpha.len() + 1);
        if i == 0 {
            continue;
        }
        let o = alpha[i - 1].clone();
        // one key is either structured or unstructured; IDs are unique per key
        let clash = h.others.iter().any(|x| match (x, &o) {
            (OtherRec::Str { key: a, .. }, OtherRec::Map { key: b, .. }) | (OtherRec::Map { key: a, .. }, OtherRec::Str { key: b, .. }) => a == b,
            (OtherRec::Map { key: a, id: ia, .. }, OtherRec::Map { key: b, id: ib, .. }) => a == b && ia == ib,
            _ => false,
        });
        if clash {
            continue;
        }
        shapes.push(("other", match &o {
            OtherRec::Str { .. } => "unstructured",
            OtherRec::Map { key, .. } if key == "META" => "meta",
            OtherRec::Map { key, .. } if key == "PEDIGREE" => "pedigree",
            OtherRec::Map { .. } => "structured",
        }));
        h.others.push(o);
    }
    // `other_records` groups by key: keep the model in grouped order
    {
        let mut grouped: Vec<OtherRec> = Vec::new();
        let keys: Vec<String> = {
            let mut ks: Vec<String> = Vec::new();
            for o in &h.others {
                let k = match o {
                    OtherRec::Str { key, .. } | OtherRec::Map { key, .. } => key.clone(),
                };
                if !ks.contains(&k) {
                    ks.push(k);
                }
            }
            ks
        };
        for k in keys {
            for o in &h.others {
                let ok = match o {
                    OtherRec::Str { key, .. } | OtherRec::Map { key, .. } => *key == k,
                };
                if ok {
                    grouped.push(o.clone());
                }
            }
        }
        h.others = grouped;
    }

    // samples
    {
        let alpha: [&[&str]; 6] = [&[], &["s0"], &["s0", "s1"], &["s0", "s1", "s2"], &["sample one", "s-1"], &["NA00001", "ünï"]];
        let i = ch.dev("samples", alpha.len());
        h.samples = alpha[i].iter().map(|s| s.to_string()).collect();
        if i > 0 {
            shapes.push(("samples", "present"));
        }
    }
    GeneratedHeader { hdr: h, shapes }
}
