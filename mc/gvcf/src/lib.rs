//! gvcf — shared VCF/BCF grammar, neutral value model, spec span function, raw BCF2 parser and
//! comparison helpers for C09 (VCF text round trip) and C10 (BCF typed encoding).
//!
//! Everything here is independent of noodles' own conversion code: records and headers are
//! generated as plain model values (`model::Rec`, `model::Hdr`), turned into noodles values through
//! the public builders, and noodles' outputs are read back into the model through the public
//! accessors only (inherent accessors for the eager types, the `variant::Record` trait accessors for
//! the lazy ones).

pub mod bcfraw;
pub mod bigdict;
pub mod cmp;
pub mod foreign;
pub mod gen_;
pub mod io;
pub mod keyed;
pub mod model;
pub mod multi;
pub mod span;

pub use model::{Expect, FieldDef, Hdr, Num, Rec, Ty, Val};
