// Standalone confirmations for C20 (public API only; no vmc, no gdocs).
use std::io::{self, Read, Write};
use noodles_sam as sam;
use noodles_vcf as vcf;
use noodles_util::{alignment, variant};

/// First read() returns `first` bytes, later reads as much as fits (what a pipe may do).
struct FirstRead<'a> { data: &'a [u8], first: Option<usize> }
impl Read for FirstRead<'_> {
    fn read(&mut self, buf: &mut [u8]) -> io::Result<usize> {
        let n = self.first.take().unwrap_or(usize::MAX).min(buf.len()).min(self.data.len());
        buf[..n].copy_from_slice(&self.data[..n]);
        self.data = &self.data[n..];
        Ok(n)
    }
}

fn read_all_aln<R: Read>(r: R) -> io::Result<(sam::Header, usize)> {
    let mut reader = alignment::io::Reader::new(r)?;
    let header = reader.read_header()?;
    let mut n = 0;
    for rec in reader.records(&header) { rec?; n += 1; }
    Ok((header, n))
}

fn main() -> io::Result<()> {
    let header: sam::Header = "@HD\tVN:1.6\n@SQ\tSN:sq0\tLN:8\n".parse().unwrap();

    // --- D5: empty SAM.gz (28-byte BGZF EOF block), written by the generic writer
    let mut buf = Vec::new();
    {
        let mut w = alignment::io::writer::Builder::default()
            .set_format(alignment::io::Format::Sam)
            .set_compression_method(Some(alignment::io::CompressionMethod::Bgzf))
            .build_from_writer(&mut buf)?;
        w.write_header(&sam::Header::default())?;
        w.finish(&sam::Header::default())?;
    }
    println!("D5  empty sam.gz ({} bytes): hint-free -> {:?}", buf.len(), read_all_aln(&buf[..]).map(|x| x.1).map_err(|e| (e.kind(), e.to_string())));
    let forced = alignment::io::reader::Builder::default()
        .set_format(alignment::io::Format::Sam)
        .set_compression_method(Some(alignment::io::CompressionMethod::Bgzf))
        .build_from_reader(&buf[..]).and_then(|mut r| r.read_header());
    println!("D5  empty sam.gz: forced (Sam, Bgzf) -> {:?}", forced.map(|h| h == sam::Header::default()));

    // --- D21: a BAM whose first read() returns 1 / 2 / 18 bytes
    let mut bam = Vec::new();
    {
        let mut w = alignment::io::writer::Builder::default()
            .set_format(alignment::io::Format::Bam)
            .build_from_writer(&mut bam)?;
        w.write_header(&header)?;
        w.finish(&header)?;
    }
    println!("D21 bam, plain slice: {:?}", read_all_aln(&bam[..]).map(|(h, n)| (h == header, n)).map_err(|e| e.to_string()));
    for first in [1, 2, 18] {
        let r = read_all_aln(FirstRead { data: &bam, first: Some(first) });
        println!("D21 bam, first read() = {first} byte(s): {:?}", r.map(|(h, n)| (h == header, n)).map_err(|e| (e.kind(), e.to_string())));
    }

    // --- new: variant writer builder, BCF compression arms swapped
    let vheader = vcf::Header::default();
    for (label, cm) in [("Some(Bgzf)", Some(Some(variant::io::CompressionMethod::Bgzf))), ("None", Some(None)), ("not set", None)] {
        let mut out = Vec::new();
        {
            let mut b = variant::io::writer::Builder::default().set_format(variant::io::Format::Bcf);
            if let Some(cm) = cm { b = b.set_compression_method(cm); }
            let mut w = b.build_from_writer(&mut out);
            w.write_header(&vheader)?;
        }
        println!("BCF compression {label}: file starts {:02x?} ({})", &out[..4], if out.starts_with(&[0x1f, 0x8b]) { "BGZF" } else { "uncompressed" });
    }

    // --- new: header-less SAM whose first read name begins with "CRAM"
    let sam_text = b"CRAMPON\t4\t*\t0\t0\t*\t*\t0\t0\tACGTN\t56789\n";
    println!("SAM text starting with \"CRAM\": hint-free -> {:?}", read_all_aln(&sam_text[..]).map(|x| x.1).map_err(|e| (e.kind(), e.to_string())));
    let forced = alignment::io::reader::Builder::default()
        .set_format(alignment::io::Format::Sam).set_compression_method(None)
        .build_from_reader(&sam_text[..]).and_then(|mut r| { let h = r.read_header()?; Ok(r.records(&h).count()) });
    println!("SAM text starting with \"CRAM\": forced (Sam, None) -> {forced:?} record(s)");
    let _ = io::stdout().flush();
    Ok(())
}
