// VCF -> BCF through the generic reader/writer (as examples/util_variant_rewrite.rs), public API only.
use std::io;
use noodles_util::variant::{self, io::{CompressionMethod, Format}};

fn convert(vcf_text: &str) -> io::Result<usize> {
    let mut reader = variant::io::reader::Builder::default().build_from_reader(vcf_text.as_bytes())?;
    let header = reader.read_header()?;
    let mut out = Vec::new();
    {
        let mut writer = variant::io::writer::Builder::default()
            .set_format(Format::Bcf)
            .set_compression_method(Some(CompressionMethod::Bgzf))
            .build_from_writer(&mut out);
        writer.write_header(&header)?;
        for result in reader.records(&header) {
            let record = result?;
            writer.write_record(&header, record.as_ref())?;
        }
    }
    let mut r = variant::io::reader::Builder::default().build_from_reader(&out[..])?;
    let h = r.read_header()?;
    let mut n = 0;
    for rec in r.records(&h) { rec?; n += 1; }
    Ok(n)
}

fn main() {
    let head = "##fileformat=VCFv4.3\n##FORMAT=<ID=GT,Number=1,Type=String,Description=\"Genotype\">\n##FORMAT=<ID=XF,Number=.,Type=Float,Description=\"floats\">\n##FORMAT=<ID=XS,Number=1,Type=String,Description=\"string\">\n##contig=<ID=sq0>\n#CHROM\tPOS\tID\tREF\tALT\tQUAL\tFILTER\tINFO\tFORMAT\ts0\ts1\n";
    for (what, line) in [
        ("control GT 0/1 and ./.", "sq0\t1\t.\tA\tC\t.\t.\t.\tGT\t0/1\t./.\n"),
        ("GT '.' in one sample", "sq0\t1\t.\tA\tC\t.\t.\t.\tGT\t0/1\t.\n"),
        ("Float vector '.' in every sample", "sq0\t1\t.\tA\tC\t.\t.\t.\tGT:XF\t0/1:.\t0/1:.\n"),
        ("control: Float vector '.' in one sample", "sq0\t1\t.\tA\tC\t.\t.\t.\tGT:XF\t0/1:.\t0/1:1.5,2\n"),
        ("String '.' in every sample", "sq0\t1\t.\tA\tC\t.\t.\t.\tGT:XS\t0/1:.\t0/1:.\n"),
    ] {
        println!("{what}: {:?}", convert(&format!("{head}{line}")).map_err(|e| (e.kind(), e.to_string())));
    }
}
