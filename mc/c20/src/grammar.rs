//! Grammar-driven conversion matrix.
//!
//! The fixed documents of `gdocs` contain a handful of record shapes. A lazy source record whose
//! `len()` / `iter()` / keyed accessors disagree for one record *shape* is only visible when that
//! record is re-encoded by another format's writer, so the record shapes that travel through the
//! conversion matrix are the deviation-bounded record grammars that the per-format checks use
//! (`gsam::gen` for C05/C06, `gvcf::gen_` for C09/C10): every record within k deviations of four
//! base records (k = 1 quick, k = 2 thorough), framed by neighbour records, written as every source
//! format by the generic writer, read by the generic reader, handed to the generic writer of every
//! target format through each record API {boxed lazy record from `records()`, the `Record` enum
//! filled by `read_record()`, `RecordBuf` converted from the lazy record}, and read back.
//!
//! Oracle: what the target file reads back as equals what the source reader reported for the
//! same record (and that equals the model value that was written), under the equalities of the
//! per-format checks: `gsam::spec::{norm_sam, norm_bam}` for the legs involved (SAM text has one
//! integer type; BAM folds bases), `gvcf::cmp::diff_rec` (samples modulo trailing missing values,
//! one-element missing array = missing, NaN payloads only through binary legs). Records outside the
//! SAM / VCF data model (`Expect` other than accept/exact) are piped as well; for them only a panic
//! is judged, and where the grammar says "may reject", an `Err` anywhere is accepted but a silently
//! different value is not.

use std::io;

use gsam::{
    GRec,
    conv::{build_record, dedup_aux, view_buf, view_lazy},
    r#gen::{Alphabet, Base, gen_record as gen_aln, neighbours},
    model::diff as diff_aln,
    spec::{Expect as AExpect, expect_bam, expect_sam, norm_bam, norm_sam},
};
use gvcf::{
    Rec, Val,
    cmp::{FloatMode, diff_rec},
    gen_::{self, Env},
    model::Expect as VExpect,
};
use noodles_sam::{self as sam, alignment::RecordBuf};
use noodles_util::{alignment::io::Format as AFmt, variant::io::Format as VFmt};
use noodles_vcf as vcf;
use vmc::{Chooser, Outcome, Violation, env::FaultSink};

use crate::{ASETS, ASet, VSETS, VSet};

pub const APIS: [&str; 3] = ["records", "read_record", "record_buf"];

/// The deviation labels that took a non-default value in this execution (class-level: names the
/// deviated *field*, never the value).
fn deviations(ch: &Chooser) -> String {
    let mut v: Vec<&'static str> = ch
        .trace()
        .iter()
        .filter(|p| p.class == vmc::Class::Dev && p.taken != 0)
        .map(|p| p.label)
        .collect();
    v.sort_unstable();
    v.dedup();
    if v.is_empty() { "none".into() } else { v.join("+") }
}

/// Attribution for k >= 2: a failing execution with several deviations is re-run with each
/// deviation alone (the other deviation choices zeroed, free choices kept); if one of them already
/// fails, its fingerprint is used, so that a class names the deviation that matters and not an
/// innocent companion.
pub fn attributed(ch: &Chooser, body: impl Fn(&Chooser) -> Outcome) -> Outcome {
    let mut r = body(ch);
    if let Err(v) = &mut r {
        let trace = ch.trace();
        let devs: Vec<usize> =
            trace.iter().enumerate().filter(|(_, p)| p.class == vmc::Class::Dev && p.taken != 0).map(|(i, _)| i).collect();
        if devs.len() >= 2 {
            for &keep in &devs {
                let choices: Vec<u32> =
                    trace.iter().enumerate().map(|(i, p)| if p.class == vmc::Class::Dev && i != keep { 0 } else { p.taken }).collect();
                if let Err(v1) = body(&Chooser::replaying(&choices)) {
                    v.fingerprint = v1.fingerprint;
                    break;
                }
            }
        }
    }
    r
}

/// A failed step of a pipe: (stage, class-level symptom, detail).
struct Fail {
    stage: &'static str,
    symptom: String,
    detail: String,
}

fn ioe(stage: &'static str) -> impl Fn(io::Error) -> Fail {
    move |e| Fail { stage, symptom: format!("err:{:?}", e.kind()), detail: e.to_string() }
}

// =================================================================================================
// alignment

pub struct AlnCfg {
    pub alphabet: Alphabet,
    pub bases: Vec<Base>,
    pub n_ref: usize,
    pub header: sam::Header,
    pub header_name: &'static str,
    pub sets: Vec<ASet>,
    /// CRAM regime: reference repository, reference lengths, and only pairs with a CRAM leg
    pub cram: Option<(noodles_fasta::Repository, Vec<u64>)>,
}

impl AlnCfg {
    /// `full`: sam, sam.gz, bam, raw bam on both sides; otherwise sam and bam only.
    pub fn new(heavy: bool, full: bool) -> Self {
        Self {
            alphabet: Alphabet::sam(false, heavy),
            bases: gsam::r#gen::bases(),
            n_ref: 3,
            header: gsam::io::std_header(3),
            header_name: "gsam::io::std_header(3)",
            sets: if full { ASETS[..4].to_vec() } else { vec![ASETS[0], ASETS[2]] },
            cram: None,
        }
    }

    /// The CRAM regime: the same generator over alphabets restricted to what CRAM is specified to
    /// carry (unpaired reads placed inside three real references, or unplaced unmapped reads;
    /// bases and qualities present), under `gdocs::aln::cigar_doc().header` (sq0 50 bp, sq1 40 bp,
    /// sqL 33 kb, all with M5) and the matching repository. Only pairs with a CRAM leg are run
    /// (the others are covered, with richer alphabets, by the SAM/BAM regime).
    pub fn cram(full: bool) -> Self {
        use gsam::r#gen::{CigarSel, Letters, QualSel, RefSel, SeqLen, TagMode, aux_values, name_of_len};
        let alphabet = Alphabet {
            names: vec![Some(b"r1".to_vec()), Some(b"r".to_vec()), Some(b"read:3;x,y/1".to_vec()), Some(name_of_len(254))],
            flags: vec![0, 4, 0x10, 0x100, 0x200, 0x400, 0x800, 0x410],
            refs: vec![RefSel::First, RefSel::None, RefSel::Last],
            poss: vec![Some(1), None, Some(2), Some(9), Some(20)],
            mapqs: vec![30, 255, 0, 254],
            cigars: vec![CigarSel::M(4), CigarSel::Empty, CigarSel::SM, CigarSel::All9, CigarSel::KSmN, CigarSel::M(8)],
            tlens: vec![0],
            seqlens: vec![SeqLen::Auto(4)],
            letters: vec![Letters::Acgt, Letters::Iupac, Letters::Lower],
            quals: vec![QualSel::Ramp, QualSel::All0, QualSel::All93],
            auxvals: aux_values(true, false),
            tagmodes: vec![TagMode::Distinct, TagMode::Dup],
        };
        let mapped = Base {
            label: "cram-mapped",
            name: Some(b"r1".to_vec()),
            flags: 0,
            rid: RefSel::First,
            pos: Some(1),
            mapq: 30,
            cigar: CigarSel::M(4),
            mrid: RefSel::None,
            mpos: None,
            tlen: 0,
            seqlen: SeqLen::Auto(4),
            letters: Letters::Acgt,
            qual: QualSel::Ramp,
            aux: [None, None, None],
            tagmode: TagMode::Distinct,
        };
        let unmapped = Base { label: "cram-unplaced", flags: 4, rid: RefSel::None, pos: None, mapq: 255, cigar: CigarSel::Empty, ..mapped.clone() };
        let everything = Base {
            label: "cram-everything",
            name: Some(b"read:3;x,y/1".to_vec()),
            flags: 0x410,
            rid: RefSel::Last,
            pos: Some(9),
            mapq: 254,
            cigar: CigarSel::All9,
            letters: Letters::Iupac,
            aux: [Some(gsam::GVal::I32(-1)), Some(gsam::GVal::Z(b"a b~".to_vec())), Some(gsam::GVal::BU16(vec![0, 1, 65535]))],
            ..mapped.clone()
        };
        let doc = gdocs::aln::cigar_doc();
        let mut sets = if full { ASETS[..5].to_vec() } else { vec![ASETS[0], ASETS[2], ASETS[4]] };
        sets.rotate_right(1); // cram first: choice 0 is the interesting one
        Self {
            alphabet,
            bases: vec![mapped, unmapped, everything],
            n_ref: 3,
            header: doc.header,
            header_name: "gdocs::aln::cigar_doc().header",
            sets,
            cram: Some((gdocs::aln::repository(), vec![50, 40, gdocs::aln::sq_long().len() as u64])),
        }
    }
}

/// What CRAM is specified to give back for a SAM record: `=` and `X` are alignment matches (the
/// CIGAR is rebuilt from read features), adjacent equal operations merge, bases are upper case.
fn norm_cram(g: &GRec) -> GRec {
    let mut n = g.clone();
    let mut c: Vec<(u8, u64)> = Vec::new();
    for (k, l) in &n.cigar {
        let k = if *k == 7 || *k == 8 { 0 } else { *k };
        match c.last_mut() {
            Some((pk, pl)) if *pk == k => *pl += *l,
            _ => c.push((k, *l)),
        }
    }
    n.cigar = c;
    for b in &mut n.seq {
        *b = b.to_ascii_uppercase();
    }
    n.aux.sort_by_key(|(t, _)| *t);
    n
}

/// The records CRAM is specified to carry exactly (everything else is C07's subject).
fn cram_safe(g: &GRec, ref_len: &[u64]) -> bool {
    let name_ok = g.name.as_ref().is_some_and(|n| !n.is_empty());
    let common = name_ok
        && g.flags & 0x1 == 0
        && g.mrid.is_none()
        && g.mpos.is_none()
        && g.tlen == 0
        && !g.seq.is_empty()
        && g.qual.len() == g.seq.len()
        && g.qual.iter().all(|q| *q <= 93);
    if !common {
        return false;
    }
    if g.flags & 0x4 != 0 {
        g.rid.is_none() && g.pos.is_none() && g.cigar.is_empty() && g.mapq == 255
    } else {
        match (g.rid, g.pos) {
            (Some(r), Some(p)) if r < ref_len.len() => {
                !g.cigar.is_empty() && g.read_len() == g.seq.len() as u64 && g.ref_span() >= 1 && p + g.ref_span() - 1 <= ref_len[r]
            }
            _ => false,
        }
    }
}

fn write_aln_bufs(set: ASet, header: &sam::Header, recs: &[RecordBuf], repo: Option<&noodles_fasta::Repository>) -> io::Result<Vec<u8>> {
    let sink = FaultSink::plain();
    {
        let mut b = noodles_util::alignment::io::writer::Builder::default().set_format(set.fmt).set_compression_method(set.cm);
        if let Some(r) = repo {
            b = b.set_reference_sequence_repository(r.clone());
        }
        let mut w = b.build_from_writer(sink.clone())?;
        w.write_header(header)?;
        for r in recs {
            w.write_record(header, r)?;
        }
        w.finish(header)?;
    }
    Ok(sink.bytes())
}

fn read_aln_views(bytes: &[u8], set: ASet, repo: Option<&noodles_fasta::Repository>) -> Result<Vec<GRec>, Fail> {
    let mut b = noodles_util::alignment::io::reader::Builder::default().set_format(set.fmt).set_compression_method(set.cm);
    if let Some(r) = repo {
        b = b.set_reference_sequence_repository(r.clone());
    }
    let mut r = b.build_from_reader(bytes).map_err(ioe("target-read"))?;
    let h = r.read_header().map_err(ioe("target-read"))?;
    let mut out = Vec::new();
    for rec in r.records(&h) {
        let rec = rec.map_err(ioe("target-read"))?;
        let g = view_lazy(&rec, &h).map_err(|(f, m)| Fail {
            stage: "target-read",
            symptom: format!("accessor-error field={f}"),
            detail: m,
        })?;
        out.push(g);
        if out.len() > bytes.len() + 1000 {
            return Err(Fail { stage: "target-read", symptom: "reader-does-not-terminate".into(), detail: String::new() });
        }
    }
    Ok(out)
}

/// reader(from) → writers(every target) through `api`, in one pass over the source; returns the
/// source reader's view of every record and, per target, the bytes or the first failure.
fn pipe_aln(
    src: &[u8],
    from: ASet,
    api: usize,
    targets: &[ASet],
    repo: Option<&noodles_fasta::Repository>,
) -> Result<(Vec<GRec>, Vec<Result<Vec<u8>, Fail>>), Fail> {
    let view = |r: &dyn sam::alignment::Record, h: &sam::Header| {
        view_lazy(r, h).map_err(|(f, m)| Fail { stage: "source-view", symptom: format!("accessor-error field={f}"), detail: m })
    };
    let mut rb = noodles_util::alignment::io::reader::Builder::default().set_format(from.fmt).set_compression_method(from.cm);
    if let Some(r) = repo {
        rb = rb.set_reference_sequence_repository(r.clone());
    }
    let mut r = rb.build_from_reader(src).map_err(ioe("source-read"))?;
    let header = r.read_header().map_err(ioe("source-read"))?;
    let sinks: Vec<FaultSink> = targets.iter().map(|_| FaultSink::plain()).collect();
    let mut errs: Vec<Option<Fail>> = targets.iter().map(|_| None).collect();
    let mut views = Vec::new();
    {
        let mut ws = Vec::new();
        for (t, sink) in targets.iter().zip(&sinks) {
            let mut wb = noodles_util::alignment::io::writer::Builder::default().set_format(t.fmt).set_compression_method(t.cm);
            if let Some(r) = repo {
                wb = wb.set_reference_sequence_repository(r.clone());
            }
            ws.push(wb.build_from_writer(sink.clone()).map_err(ioe("target-write"))?);
        }
        for (w, e) in ws.iter_mut().zip(errs.iter_mut()) {
            if let Err(x) = w.write_header(&header) {
                *e = Some(ioe("target-write")(x));
            }
        }
        let cap = src.len() + 1000;
        let runaway = || Fail { stage: "source-read", symptom: "reader-does-not-terminate".into(), detail: String::new() };
        macro_rules! fan_out {
            ($rec:expr) => {
                for (w, e) in ws.iter_mut().zip(errs.iter_mut()) {
                    if e.is_none() {
                        if let Err(x) = w.write_record(&header, $rec) {
                            *e = Some(ioe("target-write")(x));
                        }
                    }
                }
            };
        }
        match api {
            1 => {
                let mut rec = noodles_util::alignment::Record::default();
                while r.read_record(&header, &mut rec).map_err(ioe("source-read"))? != 0 {
                    views.push(view(&rec, &header)?);
                    fan_out!(&rec);
                    if views.len() > cap {
                        return Err(runaway());
                    }
                }
            }
            _ => {
                for rec in r.records(&header) {
                    let rec = rec.map_err(ioe("source-read"))?;
                    if api == 0 {
                        views.push(view(&rec, &header)?);
                        fan_out!(&rec);
                    } else {
                        let buf = RecordBuf::try_from_alignment_record(&header, &rec).map_err(ioe("source-view"))?;
                        views.push(view_buf(&buf));
                        fan_out!(&buf);
                    }
                    if views.len() > cap {
                        return Err(runaway());
                    }
                }
            }
        }
        for (w, e) in ws.iter_mut().zip(errs.iter_mut()) {
            if e.is_none() {
                if let Err(x) = w.finish(&header) {
                    *e = Some(ioe("target-write")(x));
                }
            }
        }
    }
    let outs = sinks.iter().zip(errs).map(|(s, e)| match e {
        Some(f) => Err(f),
        None => Ok(s.bytes()),
    });
    Ok((views, outs.collect()))
}

fn is_sam(s: ASet) -> bool {
    s.fmt == AFmt::Sam
}
fn is_bam(s: ASet) -> bool {
    s.fmt == AFmt::Bam
}

pub fn aln_grammar(ch: &Chooser, cfg: &AlnCfg) -> Outcome {
    let base = ch.pick_free("base", &cfg.bases);
    let from = *ch.pick_free("from", &cfg.sets);
    let g = gen_aln(ch, &cfg.alphabet, base, cfg.n_ref);
    let dev = deviations(ch);

    let mut model = g.rec.clone();
    model.aux = dedup_aux(&model.aux);
    let repo = cfg.cram.as_ref().map(|c| &c.0);
    let valid = expect_sam(&model, cfg.n_ref) == AExpect::Accept && expect_bam(&model, cfg.n_ref) == AExpect::Accept;
    let judged = valid && cfg.cram.as_ref().is_none_or(|c| cram_safe(&model, &c.1));
    if cfg.cram.is_some() && !judged {
        // outside what CRAM is specified to carry: C07's subject, not piped here
        ch.obs("not-cram-safe");
        ch.tag("record outside the CRAM-safe subset: skipped");
        return Ok(());
    }
    let is_cram = |s: ASet| s.fmt == AFmt::Cram;
    let (mut na, mut nb) = neighbours(cfg.n_ref);
    if cfg.cram.is_some() {
        // CRAM-safe neighbours: no NM, and the unplaced read carries qualities
        na.aux.clear();
        nb.qual = vec![5, 6];
    }
    let models = [na.clone(), model.clone(), nb.clone()];
    let bufs: Vec<RecordBuf> = [&na, &g.rec, &nb].iter().map(|m| build_record(m)).collect();
    let which = ["neighbour-before", "deviated", "neighbour-after"];
    let cigar_class = match model.cigar.len() {
        0 => "none",
        1..=65534 => "ops<65535",
        65535 => "ops=65535",
        _ => "ops>65535",
    };

    let decoded = |api: usize, to: &str| {
        format!(
            "header = {}; records = [first, X, last] with X = {} (base `{}`, deviation {dev}); write as {} with the generic alignment writer; reader forced to {}; api {}; writer {to}; read back",
            cfg.header_name,
            model.render(),
            base.label,
            from.name,
            from.name,
            APIS[api],
        )
    };
    ch.desc(|| decoded(0, "<every target>"));
    let viol = |stage: &str, api: usize, to: &str, rest: &str, exp: String, obs: String| -> Outcome {
        Err(Violation::new(
            format!(
                "family=alignment stage=grammar-{stage} from={} api={} to={to} dev={dev} cigar={cigar_class} {rest}",
                from.name, APIS[api]
            ),
            decoded(api, to),
            exp,
            obs,
        ))
    };

    // source file from the model values; a rejection by the source writer is the per-format checks' subject
    let src = match vmc::catch(|| write_aln_bufs(from, &cfg.header, &bufs, repo)) {
        Ok(Ok(b)) => b,
        Ok(Err(_)) => {
            ch.obs("source-writer-rejected");
            ch.tag("source writer rejected the record (per-format checks' subject)");
            return Ok(());
        }
        Err((msg, file)) => {
            return viol("source-write", 2, "-", &format!("symptom=panic msg={} file={file}", vmc::normalise_msg(&msg)), "no panic".into(), msg);
        }
    };
    ch.tag(if judged { "record valid in SAM and BAM: judged" } else { "record outside the SAM data model: only panics judged" });
    for api in 0..APIS.len() {
        // CRAM regime: only pairs with a CRAM leg
        let targets: Vec<ASet> = cfg.sets.iter().copied().filter(|t| cfg.cram.is_none() || is_cram(from) || is_cram(*t)).collect();
        let run = vmc::catch(|| pipe_aln(&src, from, api, &targets, repo));
        let (views, outs) = match run {
            Err((msg, file)) => {
                return viol("pipe", api, "-", &format!("symptom=panic msg={} file={file}", vmc::normalise_msg(&msg)), "no panic".into(), format!("panic: {msg}"));
            }
            Ok(Err(f)) => {
                ch.obs(format!("fail {} {}", f.stage, f.symptom));
                if !judged {
                    continue;
                }
                return viol(f.stage, api, "-", &format!("symptom={}", f.symptom), "Ok".into(), f.detail);
            }
            Ok(Ok(x)) => x,
        };
        ch.obs_hash((api, &views));
        if judged {
            // source view = model (under the source format's documented normalisation)
            if views.len() != models.len() {
                return viol("source-view", api, "-", "symptom=record-count", format!("{}", models.len()), format!("{}", views.len()));
            }
            for (i, (m, v)) in models.iter().zip(&views).enumerate() {
                let (e, got) = if is_sam(from) {
                    (norm_sam(m), norm_sam(v))
                } else if is_cram(from) {
                    (norm_cram(m), norm_cram(v))
                } else {
                    (norm_bam(m), v.clone())
                };
                if let Some((f, a, b)) = diff_aln(&e, &got) {
                    return viol("source-view", api, "-", &format!("record={} field={f} symptom=differs-from-written", which[i]), a, b);
                }
            }
        }
        for (to, out) in targets.iter().zip(outs) {
            let dst = match out {
                Ok(b) => b,
                Err(f) => {
                    ch.obs(format!("fail {} {} {}", to.name, f.stage, f.symptom));
                    if !judged {
                        continue;
                    }
                    // the target format cannot represent the value iff its writer also rejects the
                    // model record itself
                    if write_aln_bufs(*to, &cfg.header, &bufs, repo).is_err() {
                        ch.tag("target writer rejects this value (also as RecordBuf): accepted");
                        continue;
                    }
                    return viol(f.stage, api, to.name, &format!("symptom={}", f.symptom), "Ok (the target writer accepts the same value as a RecordBuf)".into(), f.detail);
                }
            };
            let back = match vmc::catch(|| read_aln_views(&dst, *to, repo)) {
                Err((msg, file)) => {
                    return viol("read-back", api, to.name, &format!("symptom=panic msg={} file={file}", vmc::normalise_msg(&msg)), "no panic".into(), format!("panic: {msg}"));
                }
                Ok(Err(f)) => {
                    if !judged {
                        continue;
                    }
                    return viol(f.stage, api, to.name, &format!("symptom={}", f.symptom), "Ok".into(), f.detail);
                }
                Ok(Ok(b)) => b,
            };
            if !judged {
                continue;
            }
            if back.len() != views.len() {
                return viol("read-back", api, to.name, "symptom=record-count", format!("{}", views.len()), format!("{}", back.len()));
            }
            for (i, (v, t)) in views.iter().zip(&back).enumerate() {
                let mut e = v.clone();
                let mut got = t.clone();
                if is_bam(*to) {
                    e = norm_bam(&e);
                }
                if is_sam(from) || is_sam(*to) {
                    e = norm_sam(&e);
                    got = norm_sam(&got);
                }
                if is_cram(from) || is_cram(*to) {
                    e = norm_cram(&e);
                    got = norm_cram(&got);
                }
                if let Some((f, a, b)) = diff_aln(&e, &got) {
                    return viol(
                        "read-back",
                        api,
                        to.name,
                        &format!("record={} field={f} symptom=differs-from-source", which[i]),
                        format!("source reader reported {a}"),
                        format!("target file reads back {b}"),
                    );
                }
            }
            ch.steps(3);
        }
    }
    if model.cigar.iter().any(|(k, _)| *k == 7 || *k == 8) {
        ch.tag("record: CIGAR with = / X");
    }
    if model.aux.iter().any(|(_, v)| v.type_code().starts_with('B')) {
        ch.tag("record: array aux value");
    }
    Ok(())
}

// =================================================================================================
// variant

pub struct VarCfg {
    /// one environment per base record (the bases need 0, 2, 1, 3 samples)
    pub envs: Vec<Env>,
    pub from: Vec<VSet>,
    pub to: Vec<VSet>,
    pub ragged: Vec<(&'static str, &'static str, [Option<Val>; 3])>,
}

impl VarCfg {
    /// `full`: all four settings on both sides; otherwise one per format (vcf, bcf) — the BGZF
    /// layer does not see record shapes.
    pub fn new(ff: (u32, u32), thorough: bool, full: bool) -> Self {
        let envs = (0..gen_::N_BASES)
            .map(|b| Env::new(ff, gen_::BASE_SAMPLES[b], gen_::IdxMode::Implicit, gen_::Purpose::Bcf, thorough))
            .collect();
        let sets: Vec<VSet> = if full { VSETS.to_vec() } else { vec![VSETS[0], VSETS[2]] };
        Self { envs, from: sets.clone(), to: sets, ragged: ragged() }
    }
}

fn ia(v: &[Option<i32>]) -> Option<Val> {
    Some(Val::IntA(v.to_vec()))
}

/// Ragged per-sample vectors in every BCF storage class (C20's own deviation on top of the gvcf
/// grammar, whose `fmt.a` slot gives every sample the same value): (label, FORMAT key, values of
/// samples 0, 1, 2).
fn ragged() -> Vec<(&'static str, &'static str, [Option<Val>; 3])> {
    vec![
        ("int8-ragged", "YIU", [ia(&[Some(1), Some(2), Some(3)]), ia(&[Some(4)]), ia(&[Some(5), None])]),
        ("int16-ragged", "YIU", [ia(&[Some(300), Some(2), Some(3)]), ia(&[Some(-200)]), ia(&[Some(5), None])]),
        ("int16-ragged-short-first", "YIU", [ia(&[Some(300)]), ia(&[Some(1), Some(2), Some(-3000), Some(4)]), ia(&[None, Some(7)])]),
        ("int32-ragged", "YIU", [ia(&[Some(70000), Some(2), Some(3)]), ia(&[Some(4)]), ia(&[None, Some(6)])]),
        ("int16-ragged-one-sample-missing", "YIU", [None, ia(&[Some(300), Some(2)]), ia(&[Some(1)])]),
        (
            "float-ragged",
            "YFU",
            [Some(Val::fa(&[Some(1.5), Some(2.5), Some(3.5)])), Some(Val::fa(&[Some(0.25)])), Some(Val::fa(&[None, Some(1.0)]))],
        ),
        (
            "string-array-ragged",
            "YSU",
            [Some(Val::sa(&[Some("a"), Some("bc"), Some("d")])), Some(Val::sa(&[Some("e")])), Some(Val::sa(&[None, Some("f")]))],
        ),
        (
            "char-array-ragged",
            "YCU",
            [
                Some(Val::CharA(vec![Some('x'), Some('y'), Some('z')])),
                Some(Val::CharA(vec![Some('w')])),
                Some(Val::CharA(vec![None, Some('v')])),
            ],
        ),
        ("string-unequal-width", "YS1", [Some(Val::s("a-long-string-of-27-bytes..")), Some(Val::s("s")), None]),
        ("int-r-ragged-int16", "YIR", [ia(&[Some(10), Some(200)]), ia(&[Some(10)]), ia(&[Some(1000), Some(2), Some(3)])]),
    ]
}

fn apply_ragged(rec: &mut Rec, key: &str, vals: &[Option<Val>; 3]) {
    let j = match rec.format.iter().position(|k| k == key) {
        Some(j) => j,
        None => {
            rec.format.push(key.to_string());
            rec.format.len() - 1
        }
    };
    for (si, s) in rec.samples.iter_mut().enumerate() {
        while s.len() <= j {
            s.push(None);
        }
        s[j] = vals[si % 3].clone();
    }
}

fn write_var_bufs(set: VSet, header: &vcf::Header, recs: &[vcf::variant::RecordBuf]) -> io::Result<Vec<u8>> {
    let sink = FaultSink::plain();
    {
        let mut w = noodles_util::variant::io::writer::Builder::default()
            .set_format(set.fmt)
            .set_compression_method(set.cm)
            .build_from_writer(sink.clone());
        w.write_header(header)?;
        for r in recs {
            w.write_record(header, r)?;
        }
    }
    Ok(sink.bytes())
}

fn read_var_views(bytes: &[u8], set: VSet) -> Result<Vec<Rec>, Fail> {
    let mut r = noodles_util::variant::io::reader::Builder::default()
        .set_format(set.fmt)
        .set_compression_method(set.cm)
        .build_from_reader(bytes)
        .map_err(ioe("target-read"))?;
    let h = r.read_header().map_err(ioe("target-read"))?;
    let mut out = Vec::new();
    for rec in r.records(&h) {
        let rec = rec.map_err(ioe("target-read"))?;
        let m = Rec::from_variant(&h, rec.as_ref()).map_err(|m| Fail {
            stage: "target-read",
            symptom: format!("accessor-error field={}", m.split(':').next().unwrap_or("?").replace(' ', "_")),
            detail: m,
        })?;
        out.push(m);
        if out.len() > bytes.len() + 1000 {
            return Err(Fail { stage: "target-read", symptom: "reader-does-not-terminate".into(), detail: String::new() });
        }
    }
    Ok(out)
}

fn pipe_var(
    src: &[u8],
    from: VSet,
    api: usize,
    targets: &[VSet],
    notes: &mut Vec<String>,
) -> Result<(Vec<Rec>, Vec<Result<Vec<u8>, Fail>>), Fail> {
    let mut r = noodles_util::variant::io::reader::Builder::default()
        .set_format(from.fmt)
        .set_compression_method(from.cm)
        .build_from_reader(src)
        .map_err(ioe("source-read"))?;
    let header = r.read_header().map_err(ioe("source-read"))?;
    let view_err = |m: String| Fail {
        stage: "source-view",
        symptom: format!("accessor-error field={}", m.split(':').next().unwrap_or("?").replace(' ', "_")),
        detail: m,
    };
    let sinks: Vec<FaultSink> = targets.iter().map(|_| FaultSink::plain()).collect();
    let mut errs: Vec<Option<Fail>> = targets.iter().map(|_| None).collect();
    let mut views = Vec::new();
    {
        let mut ws: Vec<_> = targets
            .iter()
            .zip(&sinks)
            .map(|(t, sink)| {
                noodles_util::variant::io::writer::Builder::default()
                    .set_format(t.fmt)
                    .set_compression_method(t.cm)
                    .build_from_writer(sink.clone())
            })
            .collect();
        for (w, e) in ws.iter_mut().zip(errs.iter_mut()) {
            if let Err(x) = w.write_header(&header) {
                *e = Some(ioe("target-write")(x));
            }
        }
        let cap = src.len() + 1000;
        let runaway = || Fail { stage: "source-read", symptom: "reader-does-not-terminate".into(), detail: String::new() };
        macro_rules! fan_out {
            ($rec:expr) => {
                for (w, e) in ws.iter_mut().zip(errs.iter_mut()) {
                    if e.is_none() {
                        if let Err(x) = w.write_record(&header, $rec) {
                            *e = Some(ioe("target-write")(x));
                        }
                    }
                }
            };
        }
        match api {
            1 => {
                let mut rec = noodles_util::variant::Record::default();
                while r.read_record(&mut rec).map_err(ioe("source-read"))? != 0 {
                    views.push(Rec::from_variant_notes(&header, &rec, notes).map_err(view_err)?);
                    fan_out!(&rec);
                    if views.len() > cap {
                        return Err(runaway());
                    }
                }
            }
            _ => {
                for rec in r.records(&header) {
                    let rec = rec.map_err(ioe("source-read"))?;
                    if api == 0 {
                        views.push(Rec::from_variant_notes(&header, rec.as_ref(), notes).map_err(view_err)?);
                        fan_out!(rec.as_ref());
                    } else {
                        let buf = vcf::variant::RecordBuf::try_from_variant_record(&header, rec.as_ref()).map_err(ioe("source-view"))?;
                        views.push(Rec::from_record_buf(&buf));
                        fan_out!(&buf);
                    }
                    if views.len() > cap {
                        return Err(runaway());
                    }
                }
            }
        }
    }
    let outs = sinks.iter().zip(errs).map(|(s, e)| match e {
        Some(f) => Err(f),
        None => Ok(s.bytes()),
    });
    Ok((views, outs.collect()))
}

/// Value shapes that BCF cannot carry by construction of the format (strings of a vector are
/// comma-joined, `.` is the missing string): known finding D13 of C10, not a conversion matter.
const BCF_UNREPRESENTABLE_SHAPES: [&str; 3] = ["lone-dot", "comma", "percent-sequence"];

pub fn var_grammar(ch: &Chooser, cfg: &VarCfg) -> Outcome {
    let b = ch.free("base", gen_::N_BASES);
    let from = *ch.pick_free("from", &cfg.from);
    let env = &cfg.envs[b];
    let mut g = gen_::gen_record(ch, env, b);
    // C20's own deviation: ragged per-sample vectors (needs >= 2 samples to be ragged)
    let ri = ch.dev("ragged", cfg.ragged.len() + 1);
    let mut ragged_shape = "";
    if ri > 0 && g.rec.samples.len() >= 2 {
        let (label, key, vals) = &cfg.ragged[ri - 1];
        apply_ragged(&mut g.rec, key, vals);
        ragged_shape = label;
    }
    let dev = deviations(ch);
    let follower = gen_::base_record(b, env.ff);
    let models = [g.rec.clone(), follower.clone()];
    let bufs: Vec<vcf::variant::RecordBuf> = models.iter().map(|m| m.to_record_buf()).collect();
    let which = ["deviated", "follower"];
    // class labels of the deviated values (from the grammar's shape table; never raw values)
    let shape = {
        let mut v: Vec<&str> = g.shapes.iter().map(|(_, s)| *s).filter(|s| *s != "neighbour").collect();
        if !ragged_shape.is_empty() {
            v.push(ragged_shape);
        }
        if v.is_empty() { "base".to_string() } else { v.join("+") }
    };
    let d13 = g.shapes.iter().any(|(_, s)| BCF_UNREPRESENTABLE_SHAPES.contains(s));
    let ploidy0 = g.shapes.iter().any(|(_, s)| *s == "ploidy-0");

    let decoded = |api: usize, to: &str| {
        format!(
            "header = gvcf::gen_::rich_header(({}, {}), {} samples, Implicit); records = [X, base] with X = {} (base `{}`, deviation {dev}{}{}); write as {} with the generic variant writer; reader forced to {}; api {}; writer {to}; read back",
            env.ff.0,
            env.ff.1,
            gen_::BASE_SAMPLES[b],
            g.rec.show(),
            gen_::BASE_NAMES[b],
            if g.shapes.is_empty() { String::new() } else { format!(" [{}]", g.shapes_str()) },
            if ragged_shape.is_empty() { String::new() } else { format!(" [ragged={ragged_shape}]") },
            from.name,
            from.name,
            APIS[api],
        )
    };
    ch.desc(|| decoded(0, "<every target>"));
    let viol = |stage: &str, api: usize, to: &str, rest: &str, exp: String, obs: String| -> Outcome {
        Err(Violation::new(
            format!(
                "family=variant stage=grammar-{stage} from={} api={} to={to} dev={dev} shape={shape} {rest}",
                from.name, APIS[api]
            ),
            decoded(api, to),
            exp,
            obs,
        ))
    };
    // how a pair is judged: exact / may-reject (Err accepted, a silently different value is not) /
    // unjudged (only a panic counts)
    #[derive(Clone, Copy, PartialEq)]
    enum J {
        Exact,
        May,
        Un,
    }
    let judge = |to: Option<&VSet>| -> J {
        let bcf_leg = from.fmt == VFmt::Bcf || to.is_some_and(|t| t.fmt == VFmt::Bcf);
        let vcf_leg = from.fmt == VFmt::Vcf || to.is_some_and(|t| t.fmt == VFmt::Vcf);
        if matches!(g.expect, VExpect::Unjudged(_)) || (d13 && bcf_leg) || (ploidy0 && vcf_leg) {
            J::Un
        } else if g.expect == VExpect::Exact {
            J::Exact
        } else {
            J::May
        }
    };

    let src = match vmc::catch(|| write_var_bufs(from, &env.header, &bufs)) {
        Ok(Ok(b)) => b,
        Ok(Err(_)) => {
            ch.obs("source-writer-rejected");
            ch.tag("source writer rejected the record (per-format checks' subject)");
            return Ok(());
        }
        Err((msg, file)) => {
            return viol("source-write", 2, "-", &format!("symptom=panic msg={} file={file}", vmc::normalise_msg(&msg)), "no panic".into(), msg);
        }
    };
    match judge(None) {
        J::Exact => ch.tag("valid record: judged"),
        J::May => ch.tag("may-reject record accepted by the source writer: Err accepted, silent change is not"),
        J::Un => ch.tag("not a value of the source format / D13 shape: only panics judged"),
    }
    let src_mode = if from.fmt == VFmt::Vcf { FloatMode::NanEq } else { FloatMode::BitsReservedLenient };
    for api in 0..APIS.len() {
        let mut notes: Vec<String> = Vec::new();
        let run = vmc::catch(|| pipe_var(&src, from, api, &cfg.to, &mut notes));
        let js = judge(None);
        let (views, outs) = match run {
            Err((msg, file)) => {
                return viol("pipe", api, "-", &format!("symptom=panic msg={} file={file}", vmc::normalise_msg(&msg)), "no panic".into(), format!("panic: {msg}"));
            }
            Ok(Err(f)) => {
                ch.obs(format!("fail {} {}", f.stage, f.symptom));
                if js != J::Exact {
                    continue;
                }
                return viol(f.stage, api, "-", &format!("symptom={}", f.symptom), "Ok".into(), f.detail);
            }
            Ok(Ok(x)) => x,
        };
        ch.obs_hash((api, &views));
        if js != J::Un {
            if views.len() != models.len() {
                return viol("source-view", api, "-", "symptom=record-count", format!("{}", models.len()), format!("{}", views.len()));
            }
            for (i, (m, v)) in models.iter().zip(&views).enumerate() {
                if let Some(d) = diff_rec(m, v, src_mode) {
                    return viol(
                        "source-view",
                        api,
                        "-",
                        &format!("record={} {} symptom-source=differs-from-written", which[i], d.fp()),
                        format!("written: {}", m.show()),
                        d.detail,
                    );
                }
            }
        }
        for (to, out) in cfg.to.iter().zip(outs) {
            let j = judge(Some(to));
            let text_leg = from.fmt == VFmt::Vcf || to.fmt == VFmt::Vcf;
            // NaN payloads survive only binary legs; BCF-reserved NaNs may come back as any NaN / missing
            let mode = if text_leg { FloatMode::NanEq } else { FloatMode::BitsReservedLenient };
            let dst = match out {
                Ok(b) => b,
                Err(f) => {
                    ch.obs(format!("fail {} {} {}", to.name, f.stage, f.symptom));
                    if j != J::Exact {
                        continue;
                    }
                    // the target format cannot represent the value iff its writer also rejects the
                    // model record itself
                    if write_var_bufs(*to, &env.header, &bufs).is_err() {
                        ch.tag("target writer rejects this value (also as RecordBuf): accepted");
                        continue;
                    }
                    return viol(f.stage, api, to.name, &format!("symptom={}", f.symptom), "Ok (the target writer accepts the same value as a RecordBuf)".into(), f.detail);
                }
            };
            let back = match vmc::catch(|| read_var_views(&dst, *to)) {
                Err((msg, file)) => {
                    return viol("read-back", api, to.name, &format!("symptom=panic msg={} file={file}", vmc::normalise_msg(&msg)), "no panic".into(), format!("panic: {msg}"));
                }
                Ok(Err(f)) => {
                    if j != J::Exact {
                        continue;
                    }
                    return viol(f.stage, api, to.name, &format!("symptom={}", f.symptom), "Ok".into(), f.detail);
                }
                Ok(Ok(b)) => b,
            };
            if j == J::Un {
                continue;
            }
            if back.len() != views.len() {
                return viol("read-back", api, to.name, "symptom=record-count", format!("{}", views.len()), format!("{}", back.len()));
            }
            for (i, (v, t)) in views.iter().zip(&back).enumerate() {
                if let Some(d) = diff_rec(v, t, mode) {
                    return viol(
                        "read-back",
                        api,
                        to.name,
                        &format!("record={} {} symptom-target=differs-from-source", which[i], d.fp()),
                        format!("source reader reported {}", v.show()),
                        format!("target file reads back differently: {}", d.detail),
                    );
                }
            }
            ch.steps(3);
        }
        if js != J::Un {
            if let Some(n) = notes.first() {
                return viol("source-view", api, "-", "symptom=len-disagrees-with-iter", "len() = number of items iter() yields".into(), n.clone());
            }
        }
    }
    if !ragged_shape.is_empty() {
        ch.tag(crate::intern(format!("ragged: {ragged_shape}")));
    }
    Ok(())
}
