fn main() {
    println!("MACHINERY-ERROR property=C20 check not built yet");
    std::process::exit(2);
}
