//! C20 — format autodetection picks the written format; conversions keep content.
//!
//! E1, complete products (all choices free):
//!  * `*_container`: (format, compression) x record set: (W) an independent look at the magic
//!    numbers (own gzip walk, no noodles reader) says the writer builder produced the requested
//!    container.
//!  * `*_detect`: (format, compression) x record set x delivery of the bytes to the reader (plain
//!    slice; first `read` returns n bytes for every n in a range; 1 byte per read; irregular
//!    sizes). (F) the reader forced to what the file is returns the written document at the
//!    data-model level; (D) the hint-free reader returns exactly what the forced reader returns.
//!    Which other forced settings also read the file is recorded as a path tag, not judged.
//!  * `*_convert`: all ordered source -> target pairs x record set: reader(A) piped into writer(B)
//!    (as in the util_*_rewrite examples), read again, equals the original document.

mod grammar;

use std::{
    collections::HashMap,
    io::{self, Read},
    sync::{Arc, LazyLock, Mutex},
};

use gdocs::{aln, var};
use noodles_fasta as fasta;
use noodles_util::{
    alignment::io::{CompressionMethod as ACm, Format as AFmt},
    variant::io::{CompressionMethod as VCm, Format as VFmt},
};
use vmc::{
    Chooser, Config, Outcome, Violation,
    env::{ChunkReader, ReadMode},
    oracle::bgzf as ob,
};

// ---------------------------------------------------------------------------------------------
// settings

#[derive(Clone, Copy, Debug, PartialEq, Eq)]
enum Magic {
    Text,
    Bam,
    Cram,
    Bcf,
}

#[derive(Clone, Copy, Debug, PartialEq)]
struct ASet {
    name: &'static str,
    fmt: AFmt,
    cm: Option<ACm>,
    magic: Magic,
    /// false: `set_compression_method` is not called; `cm` is then the documented default
    /// (BAM is BGZF-compressed by definition, SAM and CRAM are not)
    explicit: bool,
}

#[derive(Clone, Copy, Debug, PartialEq)]
struct VSet {
    name: &'static str,
    fmt: VFmt,
    cm: Option<VCm>,
    magic: Magic,
    /// false: `set_compression_method` is not called (BCF is BGZF-compressed by definition)
    explicit: bool,
}

const ASETS: [ASet; 6] = [
    ASet { name: "sam", fmt: AFmt::Sam, cm: None, magic: Magic::Text, explicit: true },
    ASet { name: "sam.gz", fmt: AFmt::Sam, cm: Some(ACm::Bgzf), magic: Magic::Text, explicit: true },
    ASet { name: "bam", fmt: AFmt::Bam, cm: Some(ACm::Bgzf), magic: Magic::Bam, explicit: true },
    ASet { name: "bam-raw", fmt: AFmt::Bam, cm: None, magic: Magic::Bam, explicit: true },
    ASet { name: "cram", fmt: AFmt::Cram, cm: None, magic: Magic::Cram, explicit: true },
    // the builders are expected to refuse this one
    ASet { name: "cram.gz", fmt: AFmt::Cram, cm: Some(ACm::Bgzf), magic: Magic::Cram, explicit: true },
];

/// Builder defaults (compression method not set); container harness only.
const ASETS_DEFAULT: [ASet; 3] = [
    ASet { name: "sam(default-compression)", fmt: AFmt::Sam, cm: None, magic: Magic::Text, explicit: false },
    ASet { name: "bam(default-compression)", fmt: AFmt::Bam, cm: Some(ACm::Bgzf), magic: Magic::Bam, explicit: false },
    ASet { name: "cram(default-compression)", fmt: AFmt::Cram, cm: None, magic: Magic::Cram, explicit: false },
];

const VSETS_DEFAULT: [VSet; 2] = [
    VSet { name: "vcf(default-compression)", fmt: VFmt::Vcf, cm: None, magic: Magic::Text, explicit: false },
    VSet { name: "bcf(default-compression)", fmt: VFmt::Bcf, cm: Some(VCm::Bgzf), magic: Magic::Bcf, explicit: false },
];

const VSETS: [VSet; 4] = [
    VSet { name: "vcf", fmt: VFmt::Vcf, cm: None, magic: Magic::Text, explicit: true },
    VSet { name: "vcf.gz", fmt: VFmt::Vcf, cm: Some(VCm::Bgzf), magic: Magic::Text, explicit: true },
    VSet { name: "bcf", fmt: VFmt::Bcf, cm: Some(VCm::Bgzf), magic: Magic::Bcf, explicit: true },
    VSet { name: "bcf-raw", fmt: VFmt::Bcf, cm: None, magic: Magic::Bcf, explicit: true },
];

static REPO: LazyLock<fasta::Repository> = LazyLock::new(aln::repository);
static ADOCS: LazyLock<Vec<aln::AlnDoc>> = LazyLock::new(aln::docs);
static VDOCS: LazyLock<Vec<var::VarDoc>> = LazyLock::new(var::docs);

/// Interns dynamic tag names (`Chooser::tag` wants `&'static str`); bounded by the setting tables.
fn intern(s: String) -> &'static str {
    static T: LazyLock<Mutex<HashMap<String, &'static str>>> = LazyLock::new(Default::default);
    let mut g = T.lock().unwrap();
    if let Some(x) = g.get(&s) {
        return x;
    }
    let l: &'static str = Box::leak(s.clone().into_boxed_str());
    g.insert(s, l);
    l
}

// ---------------------------------------------------------------------------------------------
// independent container classification (no noodles reader involved)

/// (is gzip/BGZF, magic of the uncompressed stream), from the leading bytes and an own inflate.
fn classify(bytes: &[u8]) -> Result<(bool, Magic), String> {
    let (gz, plain): (bool, Vec<u8>) = if bytes.starts_with(&[0x1f, 0x8b]) {
        let members = ob::walk(bytes)?;
        let mut cat = Vec::new();
        for m in &members {
            cat.extend_from_slice(&m.data);
            if cat.len() >= 8 {
                break;
            }
        }
        (true, cat)
    } else {
        (false, bytes[..bytes.len().min(8)].to_vec())
    };
    // SAM text begins with '@' or a printable read name, VCF text with '#': a binary magic is the
    // letters *plus* the non-printable version byte that follows them in the specifications
    // (BAM\1; CRAM + major version 1..=3; BCF\2)
    let magic = if plain.starts_with(b"BAM\x01") {
        Magic::Bam
    } else if plain.starts_with(b"CRAM") && plain.get(4).is_some_and(|b| (1..=3).contains(b)) {
        Magic::Cram
    } else if plain.starts_with(b"BCF\x02") {
        Magic::Bcf
    } else {
        Magic::Text
    };
    Ok((gz, magic))
}

fn container_name(gz: bool, m: Magic) -> String {
    format!("{}{}", format!("{m:?}").to_lowercase(), if gz { "+bgzf" } else { "+none" })
}

// ---------------------------------------------------------------------------------------------
// delivery of the bytes to the reader

#[derive(Clone, Copy, Debug, PartialEq)]
enum Delivery {
    Slice,
    /// The first `read` call returns n bytes, every later call as much as fits.
    FirstRead(usize),
    OneByte,
    /// Sizes 1, 2, 3, 7, 5, 1, ... (no `Interrupted`: EINTR handling is C12's subject).
    IrregularSizes,
}

impl Delivery {
    fn class(&self) -> String {
        match self {
            Delivery::Slice => "slice".into(),
            // class level: what is decidable from the first window
            Delivery::FirstRead(1) => "short-first-read-1".into(),
            Delivery::FirstRead(2..=3) => "short-first-read-2..3".into(),
            Delivery::FirstRead(4..=17) => "short-first-read-4..17".into(),
            Delivery::FirstRead(_) => "short-first-read-18+".into(),
            Delivery::OneByte => "short-reads-one-byte".into(),
            Delivery::IrregularSizes => "short-reads-irregular".into(),
        }
    }
    fn code(&self) -> String {
        match self {
            Delivery::Slice => "&bytes[..]".into(),
            Delivery::FirstRead(n) => format!(
                "FirstRead {{ inner: ChunkReader::new(bytes, ReadMode::Full, None), first: {n} }} /* first read() returns {n} byte(s) */"
            ),
            Delivery::OneByte => "ChunkReader::new(bytes, ReadMode::OneByte, None)".into(),
            Delivery::IrregularSizes => "ChunkReader::new(bytes, ReadMode::Pattern(vec![1, 2, 3, 7, 5]), None)".into(),
        }
    }
}

/// Limits the first `read` of the wrapped `ChunkReader` to `first` bytes.
struct FirstRead {
    inner: ChunkReader,
    first: Option<usize>,
}

impl Read for FirstRead {
    fn read(&mut self, buf: &mut [u8]) -> io::Result<usize> {
        match self.first.take() {
            Some(n) => {
                let n = n.min(buf.len());
                self.inner.read(&mut buf[..n])
            }
            None => self.inner.read(buf),
        }
    }
}

fn source(bytes: &Arc<Vec<u8>>, d: Delivery) -> Box<dyn Read> {
    match d {
        Delivery::Slice => Box::new(io::Cursor::new(bytes.as_ref().clone())),
        Delivery::FirstRead(n) => Box::new(FirstRead {
            inner: ChunkReader::new(bytes.clone(), ReadMode::Full, None),
            first: Some(n),
        }),
        Delivery::OneByte => Box::new(ChunkReader::new(bytes.clone(), ReadMode::OneByte, None)),
        Delivery::IrregularSizes => {
            Box::new(ChunkReader::new(bytes.clone(), ReadMode::Pattern(vec![1, 2, 3, 7, 5]), None))
        }
    }
}

// ---------------------------------------------------------------------------------------------
// read logs

#[derive(Clone, Debug, PartialEq)]
enum ReadOut {
    Ok(Vec<String>),
    Err { stage: &'static str, kind: io::ErrorKind, msg: String, partial: Vec<String> },
    Panic { msg: String, file: String },
}

impl ReadOut {
    /// Class-level description for fingerprints.
    fn class(&self) -> String {
        match self {
            ReadOut::Ok(_) => "ok".into(),
            ReadOut::Err { stage, kind, .. } => format!("err@{stage}:{kind:?}"),
            ReadOut::Panic { msg, file } => format!("panic:{}@{file}", vmc::normalise_msg(msg)),
        }
    }
    fn text(&self) -> String {
        match self {
            ReadOut::Ok(l) => format!("Ok: header + {} record(s)", l.len().saturating_sub(1)),
            ReadOut::Err { stage, kind, msg, partial } => {
                format!("Err at {stage}: {kind:?} {msg:?} after {} log entries", partial.len())
            }
            ReadOut::Panic { msg, file } => format!("panic {msg:?} in {file}"),
        }
    }
}

fn rerr(stage: &'static str, e: io::Error, partial: &[String]) -> ReadOut {
    ReadOut::Err { stage, kind: e.kind(), msg: e.to_string(), partial: partial.to_vec() }
}

fn read_aln(src: Box<dyn Read>, force: Option<ASet>, fold: bool, cap: usize) -> ReadOut {
    let r = vmc::catch(move || {
        let mut b = noodles_util::alignment::io::reader::Builder::default()
            .set_reference_sequence_repository(REPO.clone());
        if let Some(s) = force {
            b = b.set_format(s.fmt).set_compression_method(s.cm);
        }
        let mut r = match b.build_from_reader(src) {
            Ok(r) => r,
            Err(e) => return rerr("build", e, &[]),
        };
        let h = match r.read_header() {
            Ok(h) => h,
            Err(e) => return rerr("read_header", e, &[]),
        };
        let mut log = vec![aln::header_key(&h)];
        for rec in r.records(&h) {
            let rec = match rec {
                Ok(x) => x,
                Err(e) => return rerr("records", e, &log),
            };
            match aln::record_key(&h, &rec, fold) {
                Ok(k) => log.push(k),
                Err(e) => return rerr("record-fields", e, &log),
            }
            if log.len() > cap {
                return rerr("records", io::Error::other("vmc: iteration cap (reader does not terminate)"), &log);
            }
        }
        ReadOut::Ok(log)
    });
    match r {
        Ok(o) => o,
        Err((msg, file)) => ReadOut::Panic { msg, file },
    }
}

fn read_var(src: Box<dyn Read>, force: Option<VSet>, cap: usize) -> ReadOut {
    let r = vmc::catch(move || {
        let mut b = noodles_util::variant::io::reader::Builder::default();
        if let Some(s) = force {
            b = b.set_format(s.fmt).set_compression_method(s.cm);
        }
        let mut r = match b.build_from_reader(src) {
            Ok(r) => r,
            Err(e) => return rerr("build", e, &[]),
        };
        let h = match r.read_header() {
            Ok(h) => h,
            Err(e) => return rerr("read_header", e, &[]),
        };
        let mut log = vec![var::header_key(&h)];
        for rec in r.records(&h) {
            let rec = match rec {
                Ok(x) => x,
                Err(e) => return rerr("records", e, &log),
            };
            match var::record_key(&h, rec.as_ref()) {
                Ok(k) => log.push(k),
                Err(e) => return rerr("record-fields", e, &log),
            }
            if log.len() > cap {
                return rerr("records", io::Error::other("vmc: iteration cap (reader does not terminate)"), &log);
            }
        }
        ReadOut::Ok(log)
    });
    match r {
        Ok(o) => o,
        Err((msg, file)) => ReadOut::Panic { msg, file },
    }
}

// ---------------------------------------------------------------------------------------------
// writers

fn write_aln(set: ASet, doc: &aln::AlnDoc) -> io::Result<Vec<u8>> {
    let sink = vmc::env::FaultSink::plain();
    {
        let mut b = noodles_util::alignment::io::writer::Builder::default()
            .set_format(set.fmt)
            .set_reference_sequence_repository(REPO.clone());
        if set.explicit {
            b = b.set_compression_method(set.cm);
        }
        let mut w = b.build_from_writer(sink.clone())?;
        w.write_header(&doc.header)?;
        for r in &doc.records {
            w.write_record(&doc.header, r)?;
        }
        w.finish(&doc.header)?;
    }
    Ok(sink.bytes())
}

fn write_var(set: VSet, doc: &var::VarDoc) -> io::Result<Vec<u8>> {
    let sink = vmc::env::FaultSink::plain();
    {
        let mut b = noodles_util::variant::io::writer::Builder::default().set_format(set.fmt);
        if set.explicit {
            b = b.set_compression_method(set.cm);
        }
        let mut w = b.build_from_writer(sink.clone());
        w.write_header(&doc.header)?;
        for r in &doc.records {
            w.write_record(&doc.header, r)?;
        }
    }
    Ok(sink.bytes())
}

fn doc_class(name: &str) -> &'static str {
    if name == "empty" {
        "empty-header"
    } else if name.starts_with("headerless") {
        "headerless-records"
    } else if name.starts_with("boundary") {
        "boundary-lengths"
    } else if name.starts_with("cigar") {
        "cigar-65535-ops"
    } else {
        "with-header"
    }
}

fn diff(expected: &ReadOut, got: &ReadOut) -> String {
    match (expected, got) {
        (ReadOut::Ok(a), ReadOut::Ok(b)) => gdocs::first_diff(a, b),
        _ => format!("{} vs {}", expected.text(), got.text()),
    }
}

fn content_symptom(expected: &[String], got: &ReadOut) -> String {
    match got {
        ReadOut::Ok(l) => {
            if l.first() != expected.first() {
                "header-differs".into()
            } else if l.len() != expected.len() {
                "record-count-differs".into()
            } else {
                "record-differs".into()
            }
        }
        other => other.class(),
    }
}

// ---------------------------------------------------------------------------------------------
// harness bodies

fn deliveries(first_max: usize, extra: &[usize]) -> Vec<Delivery> {
    let mut v = vec![Delivery::Slice];
    for n in (1..=first_max).chain(extra.iter().copied()) {
        v.push(Delivery::FirstRead(n));
    }
    v.push(Delivery::OneByte);
    v.push(Delivery::IrregularSizes);
    v
}

/// What the written bytes are, by the independent classification.
fn aset_of(bytes: &[u8]) -> Option<ASet> {
    let (gz, magic) = classify(bytes).ok()?;
    ASETS.iter().copied().find(|x| x.cm.is_some() == gz && x.magic == magic)
}

fn vset_of(bytes: &[u8]) -> Option<VSet> {
    let (gz, magic) = classify(bytes).ok()?;
    VSETS.iter().copied().find(|x| x.cm.is_some() == gz && x.magic == magic)
}

/// (W) the writer builder produces the requested container.
fn container_check(
    ch: &Chooser,
    family: &str,
    requested_name: &str,
    requested: (bool, Magic),
    doc_name: &str,
    decoded: String,
    bytes: &[u8],
    content_intact_as_actual: impl FnOnce() -> &'static str,
) -> Outcome {
    let fp = |rest: String| {
        format!("family={family} stage=write requested={requested_name} doc={} {rest}", doc_class(doc_name))
    };
    match classify(bytes) {
        Ok((gz, magic)) => {
            ch.obs(container_name(gz, magic));
            ch.obs_hash(bytes.len());
            if (gz, magic) != requested {
                let content = content_intact_as_actual();
                return Err(Violation::new(
                    fp(format!(
                        "symptom=wrong-container expected={} actual={} {content}",
                        container_name(requested.0, requested.1),
                        container_name(gz, magic)
                    )),
                    decoded,
                    container_name(requested.0, requested.1),
                    format!(
                        "{}; file starts {}",
                        container_name(gz, magic),
                        vmc::hex(&bytes[..bytes.len().min(24)])
                    ),
                ));
            }
            Ok(())
        }
        Err(e) => Err(Violation::new(
            fp("symptom=malformed-bgzf".into()),
            decoded,
            "well-formed BGZF",
            e,
        )),
    }
}

fn aln_container(ch: &Chooser) -> Outcome {
    let all: Vec<ASet> = ASETS.iter().chain(ASETS_DEFAULT.iter()).copied().collect();
    let set = *ch.pick_free("requested", &all);
    let doc = ch.pick_free("doc", &ADOCS[..]);
    let decoded = format!(
        "alignment::io::writer::Builder::default().set_format({:?}){}.build_from_writer(sink); write document `{}` ({} records); finish; look at the leading bytes (gzip magic; magic of the inflated stream)",
        set.fmt,
        if set.explicit { format!(".set_compression_method({:?})", set.cm) } else { " /* compression method not set */".to_string() },
        doc.name, doc.records.len()
    );
    ch.desc(|| decoded.clone());
    match vmc::catch(|| write_aln(set, doc)) {
        Ok(Ok(bytes)) => {
            let fold = set.fmt == AFmt::Cram;
            container_check(
                ch,
                "alignment",
                set.name,
                (set.cm.is_some(), set.magic),
                doc.name,
                decoded,
                &bytes,
                || match aset_of(&bytes) {
                    Some(x) => {
                        let o = read_aln(source(&Arc::new(bytes.clone()), Delivery::Slice), Some(x), fold, bytes.len() + 1000);
                        if o == ReadOut::Ok(aln::doc_log(doc, fold)) { "content-intact" } else { "content-differs" }
                    }
                    None => "unreadable",
                },
            )
        }
        Ok(Err(e)) => {
            ch.obs(format!("write-err {:?}", e.kind()));
            if set.fmt == AFmt::Cram && set.cm.is_some() {
                ch.tag("writer builder rejects cram+bgzf");
                // the reader builder must refuse the combination as well
                let r = read_aln(source(&Arc::new(Vec::new()), Delivery::Slice), Some(set), false, 10);
                if !matches!(r, ReadOut::Err { stage: "build", .. }) {
                    return Err(Violation::new(
                        format!("family=alignment stage=forced-read requested=cram.gz symptom=cram+bgzf-accepted-by-reader:{}", r.class()),
                        "reader forced to (Cram, Some(Bgzf)) on an empty source",
                        "Err from build_from_reader",
                        r.text(),
                    ));
                }
                ch.tag("reader builder rejects cram+bgzf");
                return Ok(());
            }
            Err(Violation::new(
                format!("family=alignment stage=write requested={} doc={} symptom=writer-error:{:?}", set.name, doc_class(doc.name), e.kind()),
                decoded,
                "Ok",
                e.to_string(),
            ))
        }
        Err((msg, file)) => Err(Violation::new(
            format!("family=alignment stage=write requested={} doc={} symptom=panic:{}@{file}", set.name, doc_class(doc.name), vmc::normalise_msg(&msg)),
            decoded,
            "Ok",
            format!("panic {msg}"),
        )),
    }
}

fn var_container(ch: &Chooser) -> Outcome {
    let all: Vec<VSet> = VSETS.iter().chain(VSETS_DEFAULT.iter()).copied().collect();
    let set = *ch.pick_free("requested", &all);
    let doc = ch.pick_free("doc", &VDOCS[..]);
    let decoded = format!(
        "variant::io::writer::Builder::default().set_format({:?}){}.build_from_writer(sink); write document `{}` ({} records); drop; look at the leading bytes (gzip magic; magic of the inflated stream)",
        set.fmt,
        if set.explicit { format!(".set_compression_method({:?})", set.cm) } else { " /* compression method not set */".to_string() },
        doc.name, doc.records.len()
    );
    ch.desc(|| decoded.clone());
    match vmc::catch(|| write_var(set, doc)) {
        Ok(Ok(bytes)) => container_check(
            ch,
            "variant",
            set.name,
            (set.cm.is_some(), set.magic),
            doc.name,
            decoded,
            &bytes,
            || match vset_of(&bytes) {
                Some(x) => {
                    let o = read_var(source(&Arc::new(bytes.clone()), Delivery::Slice), Some(x), bytes.len() + 1000);
                    if o == ReadOut::Ok(var::doc_log(doc)) { "content-intact" } else { "content-differs" }
                }
                None => "unreadable",
            },
        ),
        Ok(Err(e)) => Err(Violation::new(
            format!("family=variant stage=write requested={} doc={} symptom=writer-error:{:?}", set.name, doc_class(doc.name), e.kind()),
            decoded,
            "Ok",
            e.to_string(),
        )),
        Err((msg, file)) => Err(Violation::new(
            format!("family=variant stage=write requested={} doc={} symptom=panic:{}@{file}", set.name, doc_class(doc.name), vmc::normalise_msg(&msg)),
            decoded,
            "Ok",
            format!("panic {msg}"),
        )),
    }
}

/// Fingerprint tail of a detection mismatch. The document class is part of the class only for the
/// plain-slice delivery (where the only thing that varies is the file).
fn detect_fp(del: Delivery, doc_name: &str, auto: &ReadOut, taken_for: Option<&str>) -> String {
    let doc = if del == Delivery::Slice { format!(" doc={}", doc_class(doc_name)) } else { String::new() };
    match taken_for {
        Some(x) => format!("delivery={}{doc} symptom=taken-for-{x}", del.class()),
        None => format!("delivery={}{doc} symptom=hint-free-{}", del.class(), auto.class()),
    }
}

/// Foreign BGZF layouts of a written BGZF file (same uncompressed stream, other member
/// boundaries; built with the harness' own block maker): what other tools produce when they flush
/// or concatenate. Index 0 = the file as written.
const LAYOUTS: [&str; 15] = [
    "as-written", "leading-empty", "first-1-byte", "first-2-bytes", "first-3-bytes", "empty-after-first",
    "split-at-4", "split-at-5", "split-at-6", "split-at-7", "split-at-8", "eight-1-byte-members",
    "leading-empty+first-1-byte", "two-leading-empty", "first-3-bytes+empty",
];

fn relayout(bytes: &[u8], layout: usize) -> Option<Vec<u8>> {
    let members = ob::walk(bytes).ok()?;
    let mut payload = Vec::new();
    for m in &members {
        payload.extend_from_slice(&m.data);
    }
    let cut = |k: usize| k.min(payload.len());
    let mut blocks: Vec<Vec<u8>> = Vec::new();
    let mut rest_from = 0usize;
    let push = |blocks: &mut Vec<Vec<u8>>, a: usize, b: usize| blocks.push(payload[cut(a)..cut(b)].to_vec());
    match layout {
        1 => blocks.push(vec![]),
        2 | 3 | 4 => {
            push(&mut blocks, 0, layout - 1);
            rest_from = layout - 1;
        }
        5 => {
            push(&mut blocks, 0, 4);
            blocks.push(vec![]);
            rest_from = 4;
        }
        6..=10 => {
            push(&mut blocks, 0, layout - 2);
            rest_from = layout - 2;
        }
        11 => {
            for i in 0..8 {
                push(&mut blocks, i, i + 1);
            }
            rest_from = 8;
        }
        12 => {
            blocks.push(vec![]);
            push(&mut blocks, 0, 1);
            rest_from = 1;
        }
        13 => {
            blocks.push(vec![]);
            blocks.push(vec![]);
        }
        14 => {
            push(&mut blocks, 0, 3);
            blocks.push(vec![]);
            rest_from = 3;
        }
        _ => return None,
    }
    for c in payload[cut(rest_from)..].chunks(60000) {
        blocks.push(c.to_vec());
    }
    Some(ob::make_file(&blocks, true, 6).0)
}

fn aln_detect(ch: &Chooser, dels: &[Delivery]) -> Outcome {
    // the *requested* setting is enumerated so that every writer path produces files; verdicts
    // are keyed by what the file actually is (the labelling is `alignment_container`'s subject)
    let req = *ch.pick_free("requested", &ASETS[..5]);
    let doc = ch.pick_free("doc", &ADOCS[..]);
    let del = *ch.pick_free("delivery", dels);
    let bytes = match vmc::catch(|| write_aln(req, doc)) {
        Ok(Ok(b)) => b,
        _ => {
            ch.obs("write failed (judged by alignment_container)");
            return Ok(());
        }
    };
    let Some(set) = aset_of(&bytes) else {
        ch.obs("unclassifiable (judged by alignment_container)");
        return Ok(());
    };
    let layout = ch.free("bgzf-layout", LAYOUTS.len());
    if layout > 0 && del != Delivery::Slice {
        // Foreign layouts are judged on the whole slice only: under a short first read they add
        // nothing but further shapes of D21 (a window that ends on a member boundary before 4
        // bytes were inflated: `written=bam layout=* delivery=short-first-read-18+ symptom=taken-for-sam.gz`).
        ch.obs("foreign layout x short delivery: D21's subject");
        return Ok(());
    }
    let bytes = if layout == 0 {
        bytes
    } else {
        match (set.cm, relayout(&bytes, layout)) {
            (Some(_), Some(b)) => b,
            _ => {
                ch.obs("no BGZF layer: layout not applicable");
                return Ok(());
            }
        }
    };
    let fold = set.fmt == AFmt::Cram;
    let bytes = Arc::new(bytes);
    let decoded = |what: &str| {
        format!(
            "bytes = document `{}` ({} records; gdocs::aln::docs()) written by alignment::io::writer::Builder as {} (file is {}, {} bytes, BGZF layout {}: same uncompressed stream re-blocked by vmc::oracle::bgzf::make_file); {what}; source = {}",
            doc.name, doc.records.len(), req.name, set.name, bytes.len(), LAYOUTS[layout], del.code()
        )
    };
    ch.desc(|| decoded("hint-free alignment::io::reader::Builder::default().build_from_reader(source)"));
    let lay = if layout == 0 { String::new() } else { format!(" layout={}", LAYOUTS[layout]) };
    let fp = |stage: &str, rest: String| format!("family=alignment stage={stage} written={}{lay} {rest}", set.name);
    let cap = bytes.len() + 1000;
    let expected = aln::doc_log(doc, fold);

    // (F) forced to the written setting, same delivery
    let forced = read_aln(source(&bytes, del), Some(set), fold, cap);
    if layout > 0 && forced != ReadOut::Ok(expected.clone()) {
        ch.obs(format!("forced reader rejects layout {}", LAYOUTS[layout]));
        ch.tag(intern(format!("forced reader does not read foreign layout {} (recorded, not judged)", LAYOUTS[layout])));
        return Ok(());
    }
    if forced != ReadOut::Ok(expected.clone()) {
        return Err(Violation::new(
            fp("forced-read", format!("delivery={} doc={} symptom={}", del.class(), doc_class(doc.name), content_symptom(&expected, &forced))),
            decoded("reader forced to the written (format, compression): read_header, records"),
            format!("the written document: header + {} record(s)", doc.records.len()),
            diff(&ReadOut::Ok(expected.clone()), &forced),
        ));
    }

    // (D) hint-free
    let auto = read_aln(source(&bytes, del), None, fold, cap);
    ch.obs_hash((&set.name, &doc.name, auto.class()));
    if auto != forced {
        // which forced setting behaves like the hint-free reader did? (names the misdetection)
        // several forced settings may fail identically; name the first in the order
        // uncompressed text, uncompressed binary, compressed
        let taken_for = [ASETS[0], ASETS[4], ASETS[3], ASETS[2], ASETS[1]]
            .iter()
            .filter(|x| **x != set)
            .find(|x| read_aln(source(&bytes, Delivery::Slice), Some(**x), fold, cap) == auto)
            .map(|x| x.name);
        return Err(Violation::new(
            fp("detect", detect_fp(del, doc.name, &auto, taken_for)),
            decoded("hint-free alignment::io::reader::Builder::default().build_from_reader(source), read_header, records"),
            format!("exactly what the reader forced to ({:?}, {:?}) returns: {}", set.fmt, set.cm, forced.text()),
            format!(
                "{}; {}; {}",
                auto.text(),
                match taken_for {
                    Some(x) => format!("identical to the reader forced to `{x}`"),
                    None => "no forced setting behaves like this".to_string(),
                },
                diff(&forced, &auto)
            ),
        ));
    }

    // recorded, not judged: other forced settings that also read this file as the written document
    if del == Delivery::Slice {
        for x in ASETS[..5].iter().filter(|x| **x != set) {
            let o = read_aln(source(&bytes, Delivery::Slice), Some(*x), fold, cap);
            if o == forced {
                ch.tag(intern(format!("{} [{}] also readable when forced to {}", set.name, doc.name, x.name)));
            }
        }
    }
    ch.steps(3);
    Ok(())
}

fn var_detect(ch: &Chooser, dels: &[Delivery]) -> Outcome {
    let req = *ch.pick_free("requested", &VSETS);
    let doc = ch.pick_free("doc", &VDOCS[..]);
    let del = *ch.pick_free("delivery", dels);
    let bytes = match vmc::catch(|| write_var(req, doc)) {
        Ok(Ok(b)) => b,
        _ => {
            ch.obs("write failed (judged by variant_container)");
            return Ok(());
        }
    };
    let Some(set) = vset_of(&bytes) else {
        ch.obs("unclassifiable (judged by variant_container)");
        return Ok(());
    };
    let layout = ch.free("bgzf-layout", LAYOUTS.len());
    if layout > 0 && del != Delivery::Slice {
        // Foreign layouts are judged on the whole slice only: under a short first read they add
        // nothing but further shapes of D21 (a window that ends on a member boundary before 4
        // bytes were inflated: `written=bam layout=* delivery=short-first-read-18+ symptom=taken-for-sam.gz`).
        ch.obs("foreign layout x short delivery: D21's subject");
        return Ok(());
    }
    let bytes = if layout == 0 {
        bytes
    } else {
        match (set.cm, relayout(&bytes, layout)) {
            (Some(_), Some(b)) => b,
            _ => {
                ch.obs("no BGZF layer: layout not applicable");
                return Ok(());
            }
        }
    };
    let bytes = Arc::new(bytes);
    let decoded = |what: &str| {
        format!(
            "bytes = document `{}` ({} records; gdocs::var::docs()) written by variant::io::writer::Builder as {} (file is {}, {} bytes, BGZF layout {}: same uncompressed stream re-blocked by vmc::oracle::bgzf::make_file); {what}; source = {}",
            doc.name, doc.records.len(), req.name, set.name, bytes.len(), LAYOUTS[layout], del.code()
        )
    };
    ch.desc(|| decoded("hint-free variant::io::reader::Builder::default().build_from_reader(source)"));
    let lay = if layout == 0 { String::new() } else { format!(" layout={}", LAYOUTS[layout]) };
    let fp = |stage: &str, rest: String| format!("family=variant stage={stage} written={}{lay} {rest}", set.name);
    let cap = bytes.len() + 1000;
    let expected = var::doc_log(doc);

    // (F)
    let forced = read_var(source(&bytes, del), Some(set), cap);
    if layout > 0 && forced != ReadOut::Ok(expected.clone()) {
        ch.obs(format!("forced reader rejects layout {}", LAYOUTS[layout]));
        ch.tag(intern(format!("forced reader does not read foreign layout {} (recorded, not judged)", LAYOUTS[layout])));
        return Ok(());
    }
    if forced != ReadOut::Ok(expected.clone()) {
        return Err(Violation::new(
            fp("forced-read", format!("delivery={} doc={} symptom={}", del.class(), doc_class(doc.name), content_symptom(&expected, &forced))),
            decoded("reader forced to the written (format, compression): read_header, records"),
            format!("the written document: header + {} record(s)", doc.records.len()),
            diff(&ReadOut::Ok(expected.clone()), &forced),
        ));
    }

    // (D)
    let auto = read_var(source(&bytes, del), None, cap);
    ch.obs_hash((&set.name, &doc.name, auto.class()));
    if auto != forced {
        let taken_for = [VSETS[0], VSETS[3], VSETS[2], VSETS[1]]
            .iter()
            .filter(|x| **x != set)
            .find(|x| read_var(source(&bytes, Delivery::Slice), Some(**x), cap) == auto)
            .map(|x| x.name);
        return Err(Violation::new(
            fp("detect", detect_fp(del, doc.name, &auto, taken_for)),
            decoded("hint-free variant::io::reader::Builder::default().build_from_reader(source), read_header, records"),
            format!("exactly what the reader forced to ({:?}, {:?}) returns: {}", set.fmt, set.cm, forced.text()),
            format!(
                "{}; {}; {}",
                auto.text(),
                match taken_for {
                    Some(x) => format!("identical to the reader forced to `{x}`"),
                    None => "no forced setting behaves like this".to_string(),
                },
                diff(&forced, &auto)
            ),
        ));
    }

    if del == Delivery::Slice {
        for x in VSETS.iter().filter(|x| **x != set) {
            let o = read_var(source(&bytes, Delivery::Slice), Some(*x), cap);
            if o == forced {
                ch.tag(intern(format!("{} [{}] also readable when forced to {}", set.name, doc.name, x.name)));
            }
        }
    }
    ch.steps(3);
    Ok(())
}

// Conversions read source and result with the reader forced to the independently classified
// container, so that a conversion verdict is neither a detection nor a labelling verdict.

fn aln_convert(ch: &Chooser, docs: &[aln::AlnDoc]) -> Outcome {
    let sets = &ASETS[..5];
    let a = *ch.pick_free("from", sets);
    let b = *ch.pick_free("to", sets);
    let doc = ch.pick_free("doc", docs);
    // the two record APIs of the generic reader: boxed trait objects, or the `alignment::Record` enum
    let enum_api = ch.free("reader-api", 2) == 1;
    let fold = a.fmt == AFmt::Cram || b.fmt == AFmt::Cram;
    let decoded = || {
        format!(
            "write document `{}` ({} records) with the generic alignment writer as {}; then, as in examples/util_alignment_rewrite.rs: reader.read_header(); writer({}).write_header(&header); {}; writer.finish(&header); read the result",
            doc.name, doc.records.len(), a.name, b.name,
            if enum_api {
                "let mut r = alignment::Record::default(); while reader.read_record(&header, &mut r)? != 0 { writer.write_record(&header, &r)? }"
            } else {
                "for r in reader.records(&header) { writer.write_record(&header, &r?)? }"
            }
        )
    };
    ch.desc(decoded);
    let fp = |rest: String| {
        format!(
            "family=alignment stage=convert api={} from={} to={} doc={} {rest}",
            if enum_api { "read_record" } else { "records" }, a.name, b.name, doc_class(doc.name)
        )
    };
    let v = |rest: String, exp: String, obs: String| Err(Violation::new(fp(rest), decoded(), exp, obs));

    let src = match vmc::catch(|| write_aln(a, doc)) {
        Ok(Ok(x)) => x,
        other => return v("symptom=source-write-failed".into(), "Ok".into(), format!("{other:?}")),
    };
    let Some(aset) = aset_of(&src) else {
        return v("symptom=source-unclassifiable".into(), "a known container".into(), vmc::hex(&src));
    };
    let piped = vmc::catch(|| -> io::Result<Vec<u8>> {
        let mut r = noodles_util::alignment::io::reader::Builder::default()
            .set_reference_sequence_repository(REPO.clone())
            .set_format(aset.fmt)
            .set_compression_method(aset.cm)
            .build_from_reader(&src[..])?;
        let header = r.read_header()?;
        let sink = vmc::env::FaultSink::plain();
        {
            let mut w = noodles_util::alignment::io::writer::Builder::default()
                .set_format(b.fmt)
                .set_compression_method(b.cm)
                .set_reference_sequence_repository(REPO.clone())
                .build_from_writer(sink.clone())?;
            w.write_header(&header)?;
            let mut n = 0;
            if enum_api {
                let mut rec = noodles_util::alignment::Record::default();
                while r.read_record(&header, &mut rec)? != 0 {
                    w.write_record(&header, &rec)?;
                    n += 1;
                    if n > src.len() + 1000 {
                        return Err(io::Error::other("vmc: iteration cap"));
                    }
                }
            } else {
                for rec in r.records(&header) {
                    let rec = rec?;
                    w.write_record(&header, &rec)?;
                    n += 1;
                    if n > src.len() + 1000 {
                        return Err(io::Error::other("vmc: iteration cap"));
                    }
                }
            }
            w.finish(&header)?;
        }
        Ok(sink.bytes())
    });
    let dst = match piped {
        Ok(Ok(x)) => x,
        Ok(Err(e)) => {
            return v(
                format!("symptom=pipe-error:{:?}", e.kind()),
                "Ok".into(),
                e.to_string(),
            );
        }
        Err((msg, file)) => {
            return v(
                format!("symptom=panic:{}@{file}", vmc::normalise_msg(&msg)),
                "Ok".into(),
                format!("panic {msg}"),
            );
        }
    };
    let Some(bset) = aset_of(&dst) else {
        return v("symptom=target-unclassifiable".into(), "a known container".into(), vmc::hex(&dst));
    };
    let expected = aln::doc_log(doc, fold);
    let got = read_aln(source(&Arc::new(dst.clone()), Delivery::Slice), Some(bset), fold, dst.len() + 1000);
    ch.obs_hash((&a.name, &b.name, &doc.name, enum_api, got.class(), dst.len()));
    if got != ReadOut::Ok(expected.clone()) {
        return v(
            format!("symptom={}", content_symptom(&expected, &got)),
            format!("the original document: header + {} record(s)", doc.records.len()),
            diff(&ReadOut::Ok(expected), &got),
        );
    }
    ch.steps(2);
    Ok(())
}

fn var_convert(ch: &Chooser) -> Outcome {
    let a = *ch.pick_free("from", &VSETS);
    let b = *ch.pick_free("to", &VSETS);
    let doc = ch.pick_free("doc", &VDOCS[..]);
    let enum_api = ch.free("reader-api", 2) == 1;
    let decoded = || {
        format!(
            "write document `{}` ({} records) with the generic variant writer as {}; then, as in examples/util_variant_rewrite.rs: reader.read_header(); writer({}).write_header(&header); {}; drop(writer); read the result",
            doc.name, doc.records.len(), a.name, b.name,
            if enum_api {
                "let mut r = variant::Record::default(); while reader.read_record(&mut r)? != 0 { writer.write_record(&header, &r)? }"
            } else {
                "for r in reader.records(&header) { writer.write_record(&header, r?.as_ref())? }"
            }
        )
    };
    ch.desc(decoded);
    let fp = |rest: String| {
        format!(
            "family=variant stage=convert api={} from={} to={} doc={} {rest}",
            if enum_api { "read_record" } else { "records" }, a.name, b.name, doc_class(doc.name)
        )
    };
    let v = |rest: String, exp: String, obs: String| Err(Violation::new(fp(rest), decoded(), exp, obs));

    let src = match vmc::catch(|| write_var(a, doc)) {
        Ok(Ok(x)) => x,
        other => return v("symptom=source-write-failed".into(), "Ok".into(), format!("{other:?}")),
    };
    let Some(aset) = vset_of(&src) else {
        return v("symptom=source-unclassifiable".into(), "a known container".into(), vmc::hex(&src));
    };
    let piped = vmc::catch(|| -> io::Result<Vec<u8>> {
        let mut r = noodles_util::variant::io::reader::Builder::default()
            .set_format(aset.fmt)
            .set_compression_method(aset.cm)
            .build_from_reader(&src[..])?;
        let header = r.read_header()?;
        let sink = vmc::env::FaultSink::plain();
        {
            let mut w = noodles_util::variant::io::writer::Builder::default()
                .set_format(b.fmt)
                .set_compression_method(b.cm)
                .build_from_writer(sink.clone());
            w.write_header(&header)?;
            let mut n = 0;
            if enum_api {
                let mut rec = noodles_util::variant::Record::default();
                while r.read_record(&mut rec)? != 0 {
                    w.write_record(&header, &rec)?;
                    n += 1;
                    if n > src.len() + 1000 {
                        return Err(io::Error::other("vmc: iteration cap"));
                    }
                }
            } else {
                for rec in r.records(&header) {
                    let rec = rec?;
                    w.write_record(&header, rec.as_ref())?;
                    n += 1;
                    if n > src.len() + 1000 {
                        return Err(io::Error::other("vmc: iteration cap"));
                    }
                }
            }
        }
        Ok(sink.bytes())
    });
    let dst = match piped {
        Ok(Ok(x)) => x,
        Ok(Err(e)) => {
            return v(format!("symptom=pipe-error:{:?}", e.kind()), "Ok".into(), e.to_string());
        }
        Err((msg, file)) => {
            return v(
                format!("symptom=panic:{}@{file}", vmc::normalise_msg(&msg)),
                "Ok".into(),
                format!("panic {msg}"),
            );
        }
    };
    let Some(bset) = vset_of(&dst) else {
        return v("symptom=target-unclassifiable".into(), "a known container".into(), vmc::hex(&dst));
    };
    let expected = var::doc_log(doc);
    let got = read_var(source(&Arc::new(dst.clone()), Delivery::Slice), Some(bset), dst.len() + 1000);
    ch.obs_hash((&a.name, &b.name, &doc.name, got.class(), dst.len()));
    if got != ReadOut::Ok(expected.clone()) {
        return v(
            format!("symptom={}", content_symptom(&expected, &got)),
            format!("the original document: header + {} record(s)", doc.records.len()),
            diff(&ReadOut::Ok(expected), &got),
        );
    }
    ch.steps(2);
    Ok(())
}

fn main() {
    vmc::run("C20", "model_checking", |ctx| {
        ctx.rule(
            "complete products, every choice free: detect = (format, compression) x {empty header, header only, 1 record, 3 records} x delivery \
             {slice; first read() returns n bytes for every n in 1..=N; 1 byte per read; irregular}; convert = all ordered (source, target) \
             settings x record set. distinct = distinct observation logs (container observed, outcome class of the hint-free read / converted length)",
        );
        ctx.assume("container classification oracle: own gzip member walk (miniz_oxide + crc32fast) and the magic numbers BAM\\1, CRAM, BCF\\2 from the specifications");
        ctx.assume("records are compared through gdocs keys rendered from the public accessors after RecordBuf::try_from_{alignment,variant}_record (integer aux numerically, floats by bits, aux fields order-insensitive, VCF samples modulo trailing missing values, CRAM bases case-folded)");
        ctx.assume("conversions read the source with the reader forced to the independently classified container, so a conversion verdict is not a detection verdict");

        // quick: every first-read size that can split a magic number or the BGZF header/first block
        // header (1..=32); thorough: every first-read size up to 600 (longer than the largest
        // first BGZF member of any document here)
        let first_max = ctx.by_tier(32, 600);
        // around the 8 KiB BufReader capacity and the 64 KiB BGZF block limit (large-header document)
        let extra: &[usize] = ctx.by_tier(&[100, 8191, 8192, 8193], &[1000, 4096, 8191, 8192, 8193, 16384, 65535, 65536, 65537]);
        let dels = deliveries(first_max, extra);
        ctx.harness(Config::new("alignment_container", 0), aln_container);
        ctx.harness(Config::new("variant_container", 0), var_container);
        ctx.harness(Config::new("alignment_detect", 0), |ch| aln_detect(ch, &dels));
        ctx.harness(Config::new("variant_detect", 0), |ch| var_detect(ch, &dels));
        // thorough: plus a read whose CIGAR has 65535 operations (BAM's in-place maximum)
        let mut cdocs: Vec<aln::AlnDoc> = ADOCS.clone();
        if ctx.thorough() {
            cdocs.push(aln::cigar_doc());
        }
        ctx.harness(Config::new("alignment_convert", 0), |ch| aln_convert(ch, &cdocs));
        ctx.harness(Config::new("variant_convert", 0), var_convert);

        // the per-format record grammars through the whole conversion matrix (see grammar.rs):
        // k = 1 over every (source, api, target) combination; thorough adds k = 2 over one setting per
        // format (the BGZF layer does not see record shapes) and the heavy CIGAR shapes at k = 1
        let acfg = grammar::AlnCfg::new(false, true);
        ctx.harness(Config::new("alignment_convert_grammar", 1), |ch| grammar::aln_grammar(ch, &acfg));
        let ccfg = grammar::AlnCfg::cram(true);
        ctx.harness(Config::new("alignment_convert_grammar_cram", 1), |ch| grammar::aln_grammar(ch, &ccfg));
        let vcfg = grammar::VarCfg::new((4, 3), false, true);
        ctx.harness(Config::new("variant_convert_grammar", 1), |ch| grammar::var_grammar(ch, &vcfg));
        if ctx.thorough() {
            let acfg2 = grammar::AlnCfg::new(false, false);
            ctx.harness(Config::new("alignment_convert_grammar_k2", 2), |ch| grammar::attributed(ch, |c| grammar::aln_grammar(c, &acfg2)));
            let acfgh = grammar::AlnCfg::new(true, false);
            ctx.harness(Config::new("alignment_convert_grammar_heavy", 1), |ch| grammar::aln_grammar(ch, &acfgh));
            let ccfg2 = grammar::AlnCfg::cram(false);
            ctx.harness(Config::new("alignment_convert_grammar_cram_k2", 2), |ch| grammar::attributed(ch, |c| grammar::aln_grammar(c, &ccfg2)));
            let vcfg2 = grammar::VarCfg::new((4, 3), false, false);
            ctx.harness(Config::new("variant_convert_grammar_k2", 2), |ch| grammar::attributed(ch, |c| grammar::var_grammar(c, &vcfg2)));
            for ff in [(4, 2), (4, 4), (4, 5)] {
                let v = grammar::VarCfg::new(ff, true, false);
                ctx.harness(Config::new(format!("variant_convert_grammar_v{}{}", ff.0, ff.1), 1), |ch| grammar::var_grammar(ch, &v));
            }
        }
    });
}
