//! Standalone reproductions (public API only) of two raw-header adapter defects.
//!
//! cargo run --release --offline -p c06 --example header_reader_repro

use std::io::{BufRead, Read};

use noodles_bam as bam;
use noodles_sam as sam;

fn main() -> std::io::Result<()> {
    // (1) sam::io::Reader::header_reader() as BufRead: consuming less than the window fill_buf() offered
    //     (allowed by the BufRead contract) ends the header at the next call.
    let data = b"@HD\tVN:1.6\n@CO\tcomment\n*\t4\t*\t0\t255\t*\t*\t0\t0\t*\t*\n";
    let mut reader = sam::io::Reader::new(&data[..]);
    let mut hr = reader.header_reader();
    let mut got = Vec::new();
    loop {
        let w = hr.fill_buf()?;
        if w.is_empty() {
            break;
        }
        got.push(w[0]);
        hr.consume(1);
    }
    println!("(1) sam header_reader, fill_buf + consume(1): {:?}", String::from_utf8_lossy(&got));
    let ok1 = got == b"@HD\tVN:1.6\n@CO\tcomment\n";

    // (2) bam raw_sam_header_reader(): header text whose last line has no newline, followed by NUL padding
    //     (l_text counts the padding, SAMv1 §4.2): the padding is handed out as header text.
    let text = b"@HD\tVN:1.6\n@CO\tlast line";
    let mut bam_bytes = b"BAM\x01".to_vec();
    bam_bytes.extend_from_slice(&((text.len() + 3) as u32).to_le_bytes());
    bam_bytes.extend_from_slice(text);
    bam_bytes.extend_from_slice(&[0, 0, 0]);
    bam_bytes.extend_from_slice(&0u32.to_le_bytes()); // n_ref
    let mut reader = bam::io::Reader::from(&bam_bytes[..]);
    let mut hr = reader.header_reader();
    hr.read_magic_number()?;
    let mut raw = hr.raw_sam_header_reader()?;
    let mut got = Vec::new();
    raw.read_to_end(&mut got)?;
    println!("(2) bam raw_sam_header_reader, read_to_end: {:?}", String::from_utf8_lossy(&got));
    let header = bam::io::Reader::from(&bam_bytes[..]).read_header()?;
    println!("    read_header(): comments = {:?}", header.comments());
    let ok2 = got == text;

    assert!(ok1, "(1) header truncated by a partial consume");
    assert!(ok2, "(2) NUL padding delivered as header text");
    Ok(())
}
