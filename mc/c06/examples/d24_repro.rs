//! Standalone reproduction (public API only): the lazy `sam::Record` cannot iterate its data when an
//! empty `B` array is followed by another field, although noodles' own SAM writer produces that text
//! and the eager reader (`read_record_buf`) accepts it.
//!
//! cargo run --release --offline -p c06 --example d24_repro

use noodles_bam as bam;
use noodles_sam::{
    self as sam,
    alignment::{
        RecordBuf,
        io::Write as _,
        record::data::field::Tag,
        record_buf::data::field::{Value, value::Array},
    },
};

fn main() -> std::io::Result<()> {
    let header = sam::Header::default();
    let record = RecordBuf::builder()
        .set_data(
            [
                (Tag::new(b'X', b'A'), Value::Array(Array::UInt8(vec![]))),
                (Tag::new(b'X', b'B'), Value::from(1)),
            ]
            .into_iter()
            .collect(),
        )
        .build();

    // noodles' own SAM text
    let mut w = sam::io::Writer::new(Vec::new());
    w.write_alignment_record(&header, &record)?;
    let text = w.into_inner();
    println!("written : {:?}", String::from_utf8_lossy(&text));

    // eager read: fine
    let mut r = sam::io::Reader::new(&text[..]);
    let mut eager = RecordBuf::default();
    r.read_record_buf(&header, &mut eager)?;
    println!("eager   : {} data fields, equal to input: {}", eager.data().len(), eager == record);

    // lazy read: the line is accepted, but its data cannot be iterated
    let mut r = sam::io::Reader::new(&text[..]);
    let mut lazy = sam::Record::default();
    r.read_record(&mut lazy)?;
    // NB: take(4) — the iterator never advances past the error (it yields the same Err forever, cf. D18)
    let fields: Vec<_> = lazy.data().iter().take(4).map(|x| x.map(|(t, _)| format!("{t:?}")).map_err(|e| e.to_string())).collect();
    println!("lazy    : data().iter().take(4) -> {fields:?}");

    // consequence: SAM -> BAM conversion by piping records() into a BAM writer fails
    let mut r = sam::io::Reader::new(&text[..]);
    let mut bw = bam::io::Writer::from(Vec::new());
    bw.write_header(&header)?;
    for result in r.records() {
        let rec = result?;
        match bw.write_alignment_record(&header, &rec) {
            Ok(()) => println!("SAM->BAM: ok"),
            Err(e) => println!("SAM->BAM: Err({e})"),
        }
    }

    // the same fields in the other order work (the empty array is the last field)
    let text2 = b"*\t4\t*\t0\t255\t*\t*\t0\t0\t*\t*\tXB:i:1\tXA:B:C\n";
    let mut r = sam::io::Reader::new(&text2[..]);
    let mut lazy = sam::Record::default();
    r.read_record(&mut lazy)?;
    let n = lazy.data().iter().filter(|x| x.is_ok()).count();
    println!("reordered (array last): {n} fields iterate fine");
    Ok(())
}
