//! Standalone reproduction (public API only): `sam::io::Writer::write_alignment_record` writes column by
//! column straight into the sink, so a record it REJECTS part-way leaves its first columns in the output;
//! the next accepted record is glued onto that fragment and the file no longer parses.
//! (`bam::io::Writer` encodes into a scratch buffer first and is not affected.)
//!
//! cargo run --release --offline -p c06 --example sam_writer_partial_line_repro

use noodles_sam::{
    self as sam,
    alignment::{
        RecordBuf,
        io::Write as _,
        record_buf::{QualityScores, Sequence},
    },
};

fn main() -> std::io::Result<()> {
    let header = sam::Header::default();
    let good = RecordBuf::builder().set_name("good").set_sequence(Sequence::from(b"AC")).build();
    // two bases, three quality scores: invalid, and the writer says so
    let bad = RecordBuf::builder()
        .set_name("bad")
        .set_sequence(Sequence::from(b"AC"))
        .set_quality_scores(QualityScores::from(vec![1, 2, 3]))
        .build();

    let mut w = sam::io::Writer::new(Vec::new());
    println!("write(bad)  -> {:?}", w.write_alignment_record(&header, &bad).map_err(|e| e.to_string()));
    println!("write(good) -> {:?}", w.write_alignment_record(&header, &good).map_err(|e| e.to_string()));
    let text = w.into_inner();
    println!("output      : {:?}", String::from_utf8_lossy(&text));

    let mut r = sam::io::Reader::new(&text[..]);
    let mut rec = RecordBuf::default();
    let mut n = 0;
    loop {
        match r.read_record_buf(&header, &mut rec) {
            Ok(0) => break,
            Ok(_) => {
                n += 1;
                println!("read back   : name={:?}", rec.name());
            }
            Err(e) => {
                println!("read back   : Err({e})");
                break;
            }
        }
    }
    assert!(n == 1 && rec.name().map(|x| x.to_vec()) == Some(b"good".to_vec()), "the file does not contain exactly the accepted record");
    Ok(())
}
