fn main() {}
