//! C06 — SAM text records and headers round-trip, the text is a fixed point of noodles' own output,
//! and SAM and BAM carry the same content (records and headers), also through conversions in both
//! directions.
//!
//! E1, k-deviation over the record grammar of `gsam::gen` (C05's grammar restricted to what SAM text
//! can carry, plus SAM-only shapes) and over the header grammar of `gsam::hgen`.
//!
//! Oracles: the input model value (integer tags numerically, as the statement says), an independent
//! naive SAM text parser (`gsam::samtext`), byte equality of the second write, the BAM rendering of
//! the same data decoded by noodles' BAM reader and by the independent raw BAM parser.

use gsam::{
    Expect, GHeader, GRec,
    conv::{build_header_api, build_record, dedup_aux, parse_header_text, view_buf, view_header, view_lazy},
    r#gen::{Alphabet, Base, bases, gen_record, neighbours},
    hgen::{HeaderShape, expect_header, gen_header},
    io::{Container, read_bam_eager, read_bam_lazy, read_sam_eager, read_sam_lazy, std_gheader, std_header, write_bam, write_sam},
    model::{diff, diff_header, esc_full},
    rawbam,
    reuse::{self, Fmt},
    samtext,
    spec::{expect_bam, expect_sam, norm_bam, norm_both, norm_sam},
};
use noodles_sam::{self as sam, alignment::RecordBuf};
use vmc::{Chooser, Config, Outcome, Violation};

struct Cfg {
    alphabet: Alphabet,
    bases: Vec<Base>,
    n_ref: usize,
    header: sam::Header,
    /// number of records in the file: free (thorough) or one deviation (quick)
    nrec_free: bool,
}

fn shape_of(g: &GRec) -> &'static str {
    if g.cigar.len() > 65535 {
        "ops>65535"
    } else if g.cigar.len() == 65535 {
        "ops=65535"
    } else {
        "small"
    }
}

trait ErrText {
    fn text(&self) -> String;
}
impl ErrText for std::io::Error {
    fn text(&self) -> String {
        self.to_string()
    }
}
impl ErrText for gsam::io::WriteErr {
    fn text(&self) -> String {
        format!("{}: {}", self.step, self.err)
    }
}

/// Class-level rendering of an error message for fingerprints (digits collapsed, no spaces).
fn err_class(msg: &str) -> String {
    let m = msg.rsplit(": ").next().unwrap_or(msg);
    vmc::normalise_msg(m).replace('=', "~")
}

fn dyn_recs(v: &[RecordBuf]) -> Vec<&dyn sam::alignment::Record> {
    v.iter().map(|r| r as &dyn sam::alignment::Record).collect()
}

/// Compares two decoded record lists under a normalisation; returns (index, field, left, right).
fn diff_lists(a: &[GRec], b: &[GRec], norm: fn(&GRec) -> GRec) -> Option<(String, String, String)> {
    if a.len() != b.len() {
        return Some(("record-count".into(), a.len().to_string(), b.len().to_string()));
    }
    for (x, y) in a.iter().zip(b) {
        if let Some(d) = diff(&norm(x), &norm(y)) {
            return Some(d);
        }
    }
    None
}

fn record_body(ch: &Chooser, cfg: &Cfg) -> Outcome {
    let base = ch.pick_free("base", &cfg.bases);
    let three = if cfg.nrec_free { *ch.pick_free("records", &[false, true]) } else { *ch.pick("records", &[false, true]) };
    let n_ref = cfg.n_ref;
    let generated = gen_record(ch, &cfg.alphabet, base, n_ref);
    let g = &generated.rec;
    let shape = shape_of(g);
    let describe = || {
        format!(
            "header: {} references; file of {} record(s); record: {}",
            n_ref,
            if three { 3 } else { 1 },
            g.render()
        )
    };
    ch.desc(|| format!("base={} {}", base.label, describe()));
    let v = |stage: &str, field: &str, symptom: &str, expected: String, observed: String| -> Outcome {
        Err(Violation::new(
            format!("stage={stage} field={field} shape={shape} symptom={symptom}"),
            describe(),
            expected,
            observed,
        ))
    };
    let header = &cfg.header;
    let ref_names: Vec<Vec<u8>> = std_gheader(n_ref).refs().into_iter().map(|x| x.0).collect();

    let input = build_record(g);
    let mut model = g.clone();
    model.aux = dedup_aux(&g.aux);
    {
        let built = view_buf(&input);
        if built != model {
            vmc::machinery(format!("harness model and built RecordBuf disagree: {:?}", diff(&model, &built)));
        }
    }
    let es = expect_sam(&model, n_ref);
    let eb = expect_bam(&model, n_ref);
    let (na, nb) = neighbours(n_ref);
    let (ra, rb) = (build_record(&na), build_record(&nb));
    let (recs, models, ix): (Vec<&dyn sam::alignment::Record>, Vec<GRec>, usize) = if three {
        (vec![&ra, &input, &rb], vec![na.clone(), model.clone(), nb.clone()], 1)
    } else {
        (vec![&input], vec![model.clone()], 0)
    };

    // ---- (a) SAM write → text is the SAM rendering of x → parse back == x -------------------------
    let t1 = match write_sam(header, &recs) {
        Err(e) => {
            if e.record != Some(ix) {
                return v("sam-write", "framing", "neighbour-or-header-rejected", "Ok".into(), format!("{}: {}", e.step, e.err));
            }
            ch.obs(b"sam-rejected");
            ch.obs(es.why());
            if es == Expect::Accept {
                return v("sam-write", "record", "valid-record-rejected", "Ok (valid SAM record)".into(), format!("Err({})", e.err));
            }
            ch.tag("sam writer rejected (outside the SAM data model)");
            return Ok(());
        }
        Ok(t) => t,
    };
    let judged = !matches!(es, Expect::Ambiguous(_));
    if let Expect::Either(why) = es {
        ch.tag("sam writer accepted a value outside the data model");
        ch.tag(why);
    }
    // independent reading of the text
    if judged {
        let (_, lines) = match samtext::split_file(&t1) {
            Ok(x) => x,
            Err(e) => return v("text", "layout", "not-sam-text", "header lines then alignment lines".into(), e),
        };
        if lines.len() != recs.len() {
            return v("text", "layout", "record-count", recs.len().to_string(), lines.len().to_string());
        }
        for (i, (l, m)) in lines.iter().zip(&models).enumerate() {
            match samtext::parse_record_line(l, &ref_names) {
                Err(e) => return v("text", "record", "line-not-parseable-by-spec", "a SAMv1 alignment line".into(), e),
                Ok(p) => {
                    if let Some((f, a, b)) = diff(&norm_sam(m), &p) {
                        return v(if i == ix { "text" } else { "text-neighbour" }, &f, "text-differs-from-value", a, b);
                    }
                }
            }
        }
        // '=' is used exactly when the mate reference equals the reference (SAMv1 §1.4 RNEXT)
        let cols: Vec<&[u8]> = lines[ix].split(|&c| c == b'\t').collect();
        let same = model.rid.is_some() && model.rid == model.mrid;
        if (cols[6] == b"=") != same {
            return v(
                "text",
                "rnext",
                "equals-sign-misused",
                format!("RNEXT {} '='", if same { "is" } else { "is not" }),
                String::from_utf8_lossy(cols[6]).into_owned(),
            );
        }
        if same {
            ch.tag("text: RNEXT '='");
        }
    }
    let (h_s, recs_s) = match read_sam_eager(&t1) {
        Ok(x) => x,
        Err(e) => {
            if !judged {
                return Ok(());
            }
            return v("sam-read", "record", "own-output-unreadable", "Ok".into(), format!("Err({e})"));
        }
    };
    let dec_s: Vec<GRec> = recs_s.iter().map(view_buf).collect();
    if judged {
        if let Some((f, a, b)) = diff_lists(&models, &dec_s, norm_sam) {
            return v("sam-read", &f, "value-differs", a, b);
        }
    }

    // the same text read into one reused, pre-dirtied RecordBuf: nothing of the buffer's earlier content
    // or of the previous record may survive
    match reuse::read_reused_dirty(Fmt::Sam, &t1) {
        Err(e) => {
            if judged {
                return v("sam-read-reused", "record", "own-output-unreadable", "Ok".into(), format!("Err({e})"));
            }
        }
        Ok(got) => {
            if got.len() != dec_s.len() {
                return v("sam-read-reused", "layout", "record-count", dec_s.len().to_string(), got.len().to_string());
            }
            for (f, r) in dec_s.iter().zip(&got) {
                if let Some((fld, a, b)) = diff(f, r) {
                    return v("sam-read-reused", &fld, "reused-buffer-differs-from-fresh", format!("fresh: {a}"), format!("reused: {b}"));
                }
            }
        }
    }

    // ---- (b) fixed point -----------------------------------------------------------------------------
    match write_sam(&h_s, &dyn_recs(&recs_s)) {
        Err(e) => return v("fixed-point", "record", "second-write-error", "Ok".into(), format!("{}: {}", e.step, e.err)),
        Ok(t2) => {
            if t2 != t1 {
                let i = t1.iter().zip(&t2).position(|(x, y)| x != y).unwrap_or(t1.len().min(t2.len()));
                let lo = i.saturating_sub(20);
                return v(
                    "fixed-point",
                    "text",
                    "second-write-differs",
                    format!("…{}", esc_full(&t1[lo..(i + 30).min(t1.len())])),
                    format!("…{}", esc_full(&t2[lo..(i + 30).min(t2.len())])),
                );
            }
        }
    }

    // ---- (c) SAM ≡ BAM ---------------------------------------------------------------------------------
    let b1 = match write_bam(header, &recs, Container::Raw) {
        Err(e) => {
            ch.obs(b"bam-rejected");
            if eb == Expect::Accept && e.record == Some(ix) {
                return v("bam-write", "record", "valid-record-rejected", "Ok".into(), format!("Err({})", e.err));
            }
            if e.record != Some(ix) {
                return v("bam-write", "framing", "neighbour-or-header-rejected", "Ok".into(), format!("{}: {}", e.step, e.err));
            }
            ch.tag("bam writer rejected (SAM-only value)");
            return Ok(());
        }
        Ok(b) => b,
    };
    let both_valid = es == Expect::Accept && eb == Expect::Accept;
    let (h_b, recs_b) = match read_bam_eager(&b1, Container::Raw) {
        Ok(x) => x,
        Err(e) => {
            if !both_valid {
                return Ok(());
            }
            return v("bam-read", "record", "own-output-unreadable", "Ok".into(), format!("Err({e})"));
        }
    };
    let dec_b: Vec<GRec> = recs_b.iter().map(view_buf).collect();
    if judged && !matches!(eb, Expect::Ambiguous(_)) {
        if let Some((f, a, b)) = diff_lists(&dec_s, &dec_b, norm_both) {
            return v("sam-vs-bam", &f, "content-differs", format!("SAM: {a}"), format!("BAM: {b}"));
        }
        if let Some((w, a, b)) = diff_header(&view_header(&h_s), &view_header(&h_b)) {
            return v("sam-vs-bam", &format!("header-{w}"), "content-differs", format!("SAM: {a}"), format!("BAM: {b}"));
        }
    }

    // ---- (d) conversions by piping a reader into a writer -------------------------------------------
    // Judged only for records valid in both formats: a value one format cannot carry is allowed to fail.
    let tolerate = !both_valid;
    // feature named in pipe-error fingerprints: an empty B array that is not the last field
    let empty_b_not_last = model.aux.len() > 1
        && model.aux[..model.aux.len() - 1].iter().any(|(_, x)| {
            use gsam::GVal::*;
            match x {
                BI8(a) => a.is_empty(),
                BU8(a) => a.is_empty(),
                BI16(a) => a.is_empty(),
                BU16(a) => a.is_empty(),
                BI32(a) => a.is_empty(),
                BU32(a) => a.is_empty(),
                BF(a) => a.is_empty(),
                _ => false,
            }
        });
    macro_rules! step {
        ($stage:expr, $what:expr, $e:expr) => {
            match $e {
                Ok(x) => x,
                Err(e) => {
                    if tolerate {
                        ch.tag("pipe error tolerated (value not valid in both formats)");
                        return Ok(());
                    }
                    let t = e.text();
                    return v(
                        $stage,
                        $what,
                        &format!("pipe-error err={} emptyB-not-last={empty_b_not_last}", err_class(&t)),
                        "Ok".into(),
                        format!("Err({t})"),
                    );
                }
            }
        };
    }
    let mut deferred: Option<Violation> = None;
    let mut content = |stage: &str, start: &[GRec], end: &[GRec], norm: fn(&GRec) -> GRec| -> Option<Outcome> {
        if let Some((f, a, b)) = diff_lists(start, end, norm) {
            let x = v(stage, &f, "content-differs", format!("start: {a}"), format!("end: {b}"));
            if tolerate {
                return None;
            }
            // a difference confined to the aux list of a >65535-op record is reported after the other pipes ran
            if f.starts_with("aux") && shape == "ops>65535" {
                if deferred.is_none() {
                    deferred = x.err();
                }
                return None;
            }
            return Some(x);
        }
        None
    };
    // SAM → BAM → SAM, eager records
    {
        let b = step!("pipe-sam-bam-sam", "sam-to-bam", write_bam(&h_s, &dyn_recs(&recs_s), Container::Raw));
        let (hb, rbs) = step!("pipe-sam-bam-sam", "bam-read", read_bam_eager(&b, Container::Raw));
        let t3 = step!("pipe-sam-bam-sam", "bam-to-sam", write_sam(&hb, &dyn_recs(&rbs)));
        let (h3, r3) = step!("pipe-sam-bam-sam", "sam-read", read_sam_eager(&t3));
        let d3: Vec<GRec> = r3.iter().map(view_buf).collect();
        if let Some(x) = content("pipe-sam-bam-sam", &dec_s, &d3, norm_both) {
            return x;
        }
        if let Some((w, a, b)) = diff_header(&view_header(&h_s), &view_header(&h3)) {
            return v("pipe-sam-bam-sam", &format!("header-{w}"), "content-differs", a, b);
        }
    }
    // BAM → SAM → BAM, eager records
    {
        let t = step!("pipe-bam-sam-bam", "bam-to-sam", write_sam(&h_b, &dyn_recs(&recs_b)));
        let (hs, rs) = step!("pipe-bam-sam-bam", "sam-read", read_sam_eager(&t));
        let b2 = step!("pipe-bam-sam-bam", "sam-to-bam", write_bam(&hs, &dyn_recs(&rs), Container::Raw));
        let (h2, r2) = step!("pipe-bam-sam-bam", "bam-read", read_bam_eager(&b2, Container::Raw));
        let d2: Vec<GRec> = r2.iter().map(view_buf).collect();
        if let Some(x) = content("pipe-bam-sam-bam", &dec_b, &d2, norm_sam) {
            return x;
        }
        if let Some((w, a, b)) = diff_header(&view_header(&h_b), &view_header(&h2)) {
            return v("pipe-bam-sam-bam", &format!("header-{w}"), "content-differs", a, b);
        }
    }
    // the same conversions with the lazy record types the readers hand out (`records()` iterators)
    {
        let (hl, lz) = step!("pipe-lazy-sam-to-bam", "sam-read", read_sam_lazy(&t1));
        let lzd: Vec<&dyn sam::alignment::Record> = lz.iter().map(|r| r as &dyn sam::alignment::Record).collect();
        let b = step!("pipe-lazy-sam-to-bam", "sam-to-bam", write_bam(&hl, &lzd, Container::Raw));
        let (_, rbs) = step!("pipe-lazy-sam-to-bam", "bam-read", read_bam_eager(&b, Container::Raw));
        let d: Vec<GRec> = rbs.iter().map(view_buf).collect();
        if let Some(x) = content("pipe-lazy-sam-to-bam", &dec_s, &d, norm_both) {
            return x;
        }
        // and the lazy SAM view itself agrees with the eager parse of the same line
        match view_lazy(&lz[ix], &hl) {
            Err((f, m)) => {
                if !tolerate {
                    return v("sam-lazy", &f, "accessor-error", "the eagerly parsed value".into(), m);
                }
            }
            Ok(l) => {
                if let Some((f, a, b)) = diff(&norm_sam(&dec_s[ix]), &norm_sam(&l)) {
                    if !tolerate {
                        return v("sam-lazy", &f, "lazy-differs-from-eager", format!("eager: {a}"), format!("lazy: {b}"));
                    }
                }
            }
        }
    }
    {
        let (hl, lz) = step!("pipe-lazy-bam-to-sam", "bam-read", read_bam_lazy(&b1, Container::Raw));
        let lzd: Vec<&dyn sam::alignment::Record> = lz.iter().map(|r| r as &dyn sam::alignment::Record).collect();
        let t = step!("pipe-lazy-bam-to-sam", "bam-to-sam", write_sam(&hl, &lzd));
        let (_, rs) = step!("pipe-lazy-bam-to-sam", "sam-read", read_sam_eager(&t));
        let d: Vec<GRec> = rs.iter().map(view_buf).collect();
        if let Some(x) = content("pipe-lazy-bam-to-sam", &dec_b, &d, norm_sam) {
            return x;
        }
        // BAM → BAM with lazy records (a plain copy loop)
        let b2 = step!("pipe-lazy-bam-to-bam", "bam-to-bam", write_bam(&hl, &lzd, Container::Raw));
        match read_bam_eager(&b2, Container::Raw) {
            Err(e) => {
                if !tolerate {
                    let x = v("pipe-lazy-bam-to-bam", "record", "copy-unreadable", "Ok".into(), format!("Err({e})"));
                    if shape == "ops>65535" {
                        if deferred.is_none() {
                            deferred = x.err();
                        }
                    } else {
                        return x;
                    }
                }
            }
            Ok((_, r2)) => {
                let d2: Vec<GRec> = r2.iter().map(view_buf).collect();
                if let Some(x) = content("pipe-lazy-bam-to-bam", &dec_b, &d2, norm_sam) {
                    return x;
                }
            }
        }
    }

    // ---- (e) the same documents as Box<dyn Record> (alignment_records() -> trait forwarders -> writers) ----
    if both_valid {
        let mut srcs: Vec<(Fmt, &[u8])> = vec![(Fmt::Sam, &t1[..])];
        if shape != "ops>65535" {
            // (the lazy bam::Record of a >65535-op record is D7)
            srcs.push((Fmt::Bam(Container::Raw), &b1[..]));
        }
        for (src, bytes) in srcs {
            if let Err(m) = gsam::dynpath::check_dyn_paths(src, bytes, &models, false) {
                return v(
                    "dyn",
                    &m.field,
                    &format!("differs-from-record source={} path={}", FMT_NAME(src), m.reader.replace(' ', "_")),
                    format!("record {}: {}", m.index, m.expected),
                    m.observed,
                );
            }
        }
    }

    // ---- observations ------------------------------------------------------------------------------------
    ch.obs(b"accepted");
    ch.obs_hash(&dec_s);
    ch.obs_hash(t1.len());
    if model.aux.iter().any(|(_, x)| matches!(x, gsam::GVal::F(_) | gsam::GVal::BF(_))) {
        ch.tag("record: float aux value");
    }
    if model.aux.iter().any(|(_, x)| matches!(x, gsam::GVal::H(_))) {
        ch.tag("record: hex aux value");
    }
    if model.aux.iter().any(|(_, x)| x.type_code().starts_with('B')) {
        ch.tag("record: array aux value");
    }
    if norm_bam(&model).seq != model.seq {
        ch.tag("record: bases BAM folds (compared modulo folding)");
    }
    match shape {
        "ops>65535" => ch.tag("record: >65535 CIGAR ops"),
        "ops=65535" => ch.tag("record: exactly 65535 CIGAR ops"),
        _ => {}
    }
    ch.steps(recs.len() as u64 * 14);
    match deferred {
        Some(x) => Err(x),
        None => Ok(()),
    }
}

// ------------------------------------------------------------------------------------------------------------

/// Ordered pairs and triples of records that differ in which optional fields are present, written as
/// one SAM file (and as BAM, for SAM ≡ BAM through the same entry points) and read through every reader
/// entry point (see `gsam::reuse`).
fn reuse_body(ch: &Chooser, set: &[(&'static str, GRec)], header: &sam::Header) -> Outcome {
    const POS: [&str; 3] = ["first", "second", "third"];
    let fmt = *ch.pick_free("format", &[Fmt::Sam, Fmt::Bam(Container::Raw)]);
    let len = *ch.pick_free("length", &[2usize, 3]);
    let idx: Vec<usize> = (0..len).map(|i| ch.free(POS[i], set.len())).collect();
    let seq: Vec<&GRec> = idx.iter().map(|&i| &set[i].1).collect();
    let labels: Vec<&str> = idx.iter().map(|&i| set[i].0).collect();
    let describe = || {
        let recs: Vec<String> = seq.iter().map(|g| g.render()).collect();
        format!("3 references; {fmt:?} file of records [{}]: {}", labels.join(", "), recs.join(" | "))
    };
    ch.desc(|| describe());
    let f = match fmt {
        Fmt::Sam => "sam",
        Fmt::Bam(_) => "bam",
    };
    match reuse::check_sequence(fmt, header, &seq) {
        Ok(n) => {
            ch.obs_hash(n); // file length: an output, not the choice vector
            ch.steps(len as u64 * 8);
            Ok(())
        }
        Err(m) => Err(Violation::new(
            format!("stage=reuse format={f} reader={} field={} symptom=record-differs-from-its-expectation", m.reader, m.field),
            describe(),
            format!("record {} ({}): {}", m.index, labels.get(m.index).copied().unwrap_or("?"), m.expected),
            m.observed,
        )),
    }
}

fn header_body(ch: &Chooser, shape: &HeaderShape) -> Outcome {
    let m = gen_header(ch, shape);
    let with_record = *ch.pick("record", &[false, true]);
    let expect = expect_header(&m);
    let mut t0 = m.to_text();
    let rec_line: &[u8] = b"q1\t4\t*\t0\t255\t*\t*\t0\t0\tAC\t*\tXA:i:1\n";
    if with_record {
        t0.extend_from_slice(rec_line);
    }
    let describe = || format!("SAM text: \"{}\"", esc_full(&t0));
    ch.desc(|| format!("{} [{}]", describe(), expect.why()));
    let why = expect.why();
    let v = |stage: &str, what: &str, symptom: &str, expected: String, observed: String| -> Outcome {
        Err(Violation::new(format!("stage={stage} what={what} symptom={symptom}"), describe(), expected, observed))
    };
    let valid = expect == Expect::Accept;

    // parse the generated text
    let (h, recs0) = match read_sam_eager(&t0) {
        Ok(x) => x,
        Err(e) => {
            ch.obs(b"parse-rejected");
            ch.obs(why);
            if valid {
                return v("parse", "header", "valid-header-rejected", "Ok".into(), format!("Err({e})"));
            }
            ch.tag("invalid header rejected by the parser");
            return Ok(());
        }
    };
    if recs0.len() != with_record as usize {
        return v("parse", "boundary", "header-record-boundary", format!("{} record(s)", with_record as usize), format!("{}", recs0.len()));
    }
    let vh = view_header(&h);
    if valid {
        // the value the text denotes
        if let Some((w, a, b)) = diff_header(&m.canonical(), &vh) {
            return v("parse", &w, "value-differs-from-text", a, b);
        }
        // the same value built through the typed API is the same value
        match build_header_api(&m) {
            Err(e) => vmc::machinery(format!("cannot build valid header through the API: {e}")),
            Ok(api) => {
                if let Some((w, a, b)) = diff_header(&vh, &view_header(&api)) {
                    return v("api", &w, "api-built-differs-from-parsed", a, b);
                }
                match write_sam(&api, &[]) {
                    Err(e) => return v("api", "write", "valid-header-rejected", "Ok".into(), format!("{}", e.err)),
                    Ok(t) => match parse_header_text(&t) {
                        Err(e) => return v("api", "read", "own-output-unreadable", "Ok".into(), e.to_string()),
                        Ok(h2) => {
                            if let Some((w, a, b)) = diff_header(&view_header(&api), &view_header(&h2)) {
                                return v("api", &w, "value-differs", a, b);
                            }
                        }
                    },
                }
            }
        }
    }

    // (a) write, read back
    let t1 = match write_sam(&h, &dyn_recs(&recs0)) {
        Err(e) => {
            ch.obs(b"write-rejected");
            ch.obs(why);
            if valid {
                return v("sam-write", "header", "valid-header-rejected", "Ok".into(), format!("{}: {}", e.step, e.err));
            }
            ch.tag("invalid header rejected by the SAM writer");
            return Ok(());
        }
        Ok(t) => t,
    };
    if !valid {
        ch.tag("invalid header accepted by parser and writer");
        ch.tag(why);
    }
    // what was written, read independently: same lines, kinds grouped, nothing lost
    match samtext::split_file(&t1) {
        Err(e) => return v("text", "layout", "not-sam-text", "header lines".into(), e),
        Ok((lines, recs)) => {
            if let Some((w, a, b)) = diff_header(&vh, &lines.canonical()) {
                return v("text", &w, "text-differs-from-value", a, b);
            }
            if recs.len() != recs0.len() {
                return v("text", "boundary", "record-count", recs0.len().to_string(), recs.len().to_string());
            }
        }
    }
    let (h1, recs1) = match read_sam_eager(&t1) {
        Ok(x) => x,
        Err(e) => return v("sam-read", "header", "own-output-unreadable", "Ok".into(), format!("Err({e})")),
    };
    if let Some((w, a, b)) = diff_header(&vh, &view_header(&h1)) {
        return v("sam-read", &w, "value-differs", a, b);
    }
    if recs1.len() != recs0.len() {
        return v("sam-read", "boundary", "header-record-boundary", recs0.len().to_string(), recs1.len().to_string());
    }
    // (b) fixed point
    match write_sam(&h1, &dyn_recs(&recs1)) {
        Err(e) => return v("fixed-point", "header", "second-write-error", "Ok".into(), e.err.to_string()),
        Ok(t2) => {
            if t2 != t1 {
                return v("fixed-point", "text", "second-write-differs", esc_full(&t1), esc_full(&t2));
            }
        }
    }
    // (c) BAM
    let b1 = match write_bam(&h, &dyn_recs(&recs0), Container::Raw) {
        Err(e) => {
            ch.obs(b"bam-write-rejected");
            if valid {
                return v("bam-write", "header", "valid-header-rejected", "Ok".into(), format!("{}: {}", e.step, e.err));
            }
            ch.tag("invalid header rejected by the BAM writer");
            return Ok(());
        }
        Ok(b) => b,
    };
    match rawbam::parse_stream(&b1) {
        Err(e) => return v("bam-raw", "layout", "stream-malformed", "BAM".into(), e),
        Ok((rh, _)) => {
            let want: Vec<(Vec<u8>, i32)> = vh.refs().into_iter().map(|(n, l)| (n, l as i32)).collect();
            if rh.refs != want {
                return v("bam-raw", "references", "binary-dictionary-differs", format!("{want:?}"), format!("{:?}", rh.refs));
            }
            let mut text = rh.text.clone();
            while text.last() == Some(&0) {
                text.pop();
            }
            match samtext::split_file(&text) {
                Err(e) => return v("bam-raw", "text", "not-sam-text", "header lines".into(), e),
                Ok((lines, _)) => {
                    if let Some((w, a, b)) = diff_header(&vh, &lines.canonical()) {
                        return v("bam-raw", &w, "text-differs-from-value", a, b);
                    }
                }
            }
        }
    }
    let (hb, recsb) = match read_bam_eager(&b1, Container::Raw) {
        Ok(x) => x,
        Err(e) => return v("bam-read", "header", "own-output-unreadable", "Ok".into(), format!("Err({e})")),
    };
    if let Some((w, a, b)) = diff_header(&vh, &view_header(&hb)) {
        return v("sam-vs-bam", &w, "content-differs", format!("SAM: {a}"), format!("BAM: {b}"));
    }
    if recsb.len() != recs0.len() {
        return v("sam-vs-bam", "boundary", "record-count", recs0.len().to_string(), recsb.len().to_string());
    }
    // (d) SAM → BAM → SAM reproduces the decoded content (and, being noodles' own output, the text)
    match write_sam(&hb, &dyn_recs(&recsb)) {
        Err(e) => return v("pipe-sam-bam-sam", "header", "pipe-error", "Ok".into(), e.err.to_string()),
        Ok(t3) => match read_sam_eager(&t3) {
            Err(e) => return v("pipe-sam-bam-sam", "header", "pipe-error", "Ok".into(), e.to_string()),
            Ok((h3, _)) => {
                if let Some((w, a, b)) = diff_header(&vh, &view_header(&h3)) {
                    return v("pipe-sam-bam-sam", &w, "content-differs", a, b);
                }
                // BAM → SAM → BAM
                match write_bam(&h3, &[], Container::Raw).map_err(|e| e.err).and_then(|b| read_bam_eager(&b, Container::Raw)) {
                    Err(e) => return v("pipe-bam-sam-bam", "header", "pipe-error", "Ok".into(), e.to_string()),
                    Ok((h4, _)) => {
                        if let Some((w, a, b)) = diff_header(&view_header(&hb), &view_header(&h4)) {
                            return v("pipe-bam-sam-bam", &w, "content-differs", a, b);
                        }
                    }
                }
            }
        },
    }

    ch.obs(b"accepted");
    ch.obs_hash(&vh);
    let kinds: Vec<[u8; 2]> = m.lines.iter().map(|l| l.kind()).collect();
    let mut sorted = kinds.clone();
    sorted.sort_by_key(|k| [b"HD", b"SQ", b"RG", b"PG", b"CO"].iter().position(|x| *x == k));
    if kinds != sorted {
        ch.tag("text: record kinds interleaved (first write canonicalises)");
    }
    if vh.refs().is_empty() {
        ch.tag("header: no references");
    }
    if vh.refs().iter().any(|(_, l)| *l == (1 << 31) - 1) {
        ch.tag("header: LN 2^31-1");
    }
    if m.lines.iter().any(|l| matches!(l, gsam::GLine::Co(c) if c.is_empty())) {
        ch.tag("header: empty comment");
    }
    if m.lines.iter().any(|l| matches!(l, gsam::GLine::Co(c) if c.contains(&b'\t'))) {
        ch.tag("header: comment with tab");
    }
    if m.lines.iter().any(|l| l.get(b"PP").is_some()) {
        ch.tag("header: PG chain (PP)");
    }
    ch.steps(10);
    Ok(())
}

/// Every sequence of up to three `write_alignment_record` calls on ONE writer over accepted records and
/// one record per rejection reason (see `gsam::wseq`): rejected writes return `Err` and leave nothing
/// behind; the file holds exactly the accepted records.
fn wseq_body(ch: &Chooser, ops: &[(&'static str, GRec)], header: &sam::Header, fmts: &[Fmt]) -> Outcome {
    const POS: [&str; 3] = ["op1", "op2", "op3"];
    let fmt = *ch.pick_free("target", fmts);
    let mut idx = Vec::new();
    for p in POS {
        let k = ch.free(p, ops.len() + 1);
        if k == 0 {
            break;
        }
        idx.push(k - 1);
    }
    let seq: Vec<&GRec> = idx.iter().map(|&i| &ops[i].1).collect();
    let labels: Vec<&str> = idx.iter().map(|&i| ops[i].0).collect();
    let describe = || {
        let recs: Vec<String> = seq.iter().map(|g| g.render()).collect();
        format!("3 references; one {fmt:?} writer; write_alignment_record x [{}]: {}", labels.join(", "), recs.join(" | "))
    };
    ch.desc(|| describe());
    match gsam::wseq::check_ops(fmt, header, 3, &seq) {
        Ok(o) => {
            ch.obs_hash(&o);
            if o.accepted.windows(2).any(|w| !w[0] && w[1]) {
                ch.tag("writer: accepted write directly after a rejected one");
            }
            ch.steps(idx.len() as u64 + 9);
            Ok(())
        }
        Err(f) => Err(Violation::new(
            format!("stage=writer-seq format={} what={} field={} after-reject={}", FMT_NAME(fmt), f.what, f.field, f.after_reject),
            describe(),
            f.expected,
            f.observed,
        )),
    }
}

#[allow(non_snake_case)]
fn FMT_NAME(f: Fmt) -> &'static str {
    match f {
        Fmt::Sam => "sam",
        Fmt::Bam(Container::Raw) => "bam-raw",
        Fmt::Bam(Container::Bgzf) => "bam-bgzf",
    }
}

/// Records travelling as `Box<dyn Record>` (see `gsam::dynpath`): each record of the field-presence set
/// (plus mate-reference shapes) as its own document and the whole set as one document, from every source
/// format, through the trait forwarders, the generic conversion, every writer and `noodles_util`.
fn dyn_body(ch: &Chooser, set: &[(&'static str, GRec)], header: &sam::Header) -> Outcome {
    let src = *ch.pick_free("source", &[Fmt::Sam, Fmt::Bam(Container::Raw), Fmt::Bam(Container::Bgzf)]);
    let d = ch.free("document", set.len() + 1);
    let docs: Vec<&(&'static str, GRec)> = if d == set.len() { set.iter().collect() } else { vec![&set[d]] };
    let want: Vec<GRec> = docs.iter().map(|x| x.1.clone()).collect();
    let labels: Vec<&str> = docs.iter().map(|x| x.0).collect();
    let describe = || {
        let recs: Vec<String> = want.iter().map(|g| g.render()).collect();
        format!("3 references; {} file of records [{}]: {}", FMT_NAME(src), labels.join(", "), recs.join(" | "))
    };
    ch.desc(|| describe());
    let bufs: Vec<RecordBuf> = want.iter().map(build_record).collect();
    let bytes = match src {
        Fmt::Sam => write_sam(header, &dyn_recs(&bufs)),
        Fmt::Bam(c) => write_bam(header, &dyn_recs(&bufs), c),
    };
    let bytes = match bytes {
        Ok(b) => b,
        Err(e) => vmc::machinery(format!("dyn harness: the record set must be writable: {}: {}", e.step, e.err)),
    };
    match gsam::dynpath::check_dyn_paths(src, &bytes, &want, true) {
        Ok(()) => {
            ch.obs_hash((bytes.len(), want.len()));
            if want.iter().any(|g| g.rid != g.mrid) {
                ch.tag("dyn: mate reference differs from reference");
            }
            ch.steps(want.len() as u64 * 12);
            Ok(())
        }
        Err(m) => Err(Violation::new(
            format!("stage=dyn source={} path={} field={} symptom=differs-from-record", FMT_NAME(src), m.reader.replace(' ', "_"), m.field),
            describe(),
            format!("record {} ({}): {}", m.index, labels.get(m.index).copied().unwrap_or("?"), m.expected),
            m.observed,
        )),
    }
}

/// `header_reader()` / `raw_sam_header_reader()` driven through every `Read` destination size, the std
/// conveniences and the `BufRead` side (see `gsam::hdrraw`).
fn header_reader_body(ch: &Chooser, docs: &[(&'static str, GHeader)]) -> Outcome {
    use gsam::hdrraw::{self, BamText, Under};
    let target = *ch.pick_free("target", &[Fmt::Sam, Fmt::Bam(Container::Raw), Fmt::Bam(Container::Bgzf)]);
    let (dl, doc) = ch.pick_free("doc", docs);
    let nrec = *ch.pick_free("records", &[2usize, 0]);
    let recs = hdrraw::trailing_records(nrec);
    let longest = doc.lines.iter().map(|l| l.to_text().len()).max().unwrap_or(0);
    let (layout_name, sam_nl, bam_layout, under): (String, bool, BamText, Under) = match target {
        Fmt::Sam => {
            let under = ch.pick_free("under", &hdrraw::unders()).clone();
            let nonl = if nrec == 0 { *ch.pick_free("layout", &[false, true]) } else { false };
            ((if nonl { "no-final-newline" } else { "plain" }).to_string(), nonl, BamText::Plain, under)
        }
        Fmt::Bam(_) => {
            let l = *ch.pick_free(
                "layout",
                &[BamText::Plain, BamText::NulPadded(1), BamText::NulPadded(100), BamText::NoFinalNewline, BamText::NoFinalNewlineNulPadded(7)],
            );
            let n = match l {
                BamText::Plain => "plain",
                BamText::NulPadded(_) => "nul-padded",
                BamText::NoFinalNewline => "no-final-newline",
                BamText::NoFinalNewlineNulPadded(_) => "no-final-newline+nul-padded",
            };
            (n.to_string(), false, l, Under::Slice)
        }
    };
    let modes = hdrraw::modes(longest);
    let mode = ch.pick_free("mode", &modes).clone();
    let describe = || {
        format!(
            "{} file: header doc `{dl}` ({} lines, longest {longest} bytes, layout {layout_name}) + {nrec} records; source windows {under:?}; \
             header_reader(){} driven by {mode:?}; header text = \"{}\"",
            FMT_NAME(target),
            doc.lines.len(),
            if target == Fmt::Sam { "" } else { ".raw_sam_header_reader()" },
            if longest > 400 { "(see gsam::hdrraw::header_docs)".to_string() } else { esc_full(&doc.to_text()) },
        )
    };
    ch.desc(|| describe());
    let r = match target {
        Fmt::Sam => hdrraw::check_sam(doc, sam_nl, &recs, &under, &mode),
        Fmt::Bam(c) => hdrraw::check_bam(doc, bam_layout, &recs, c, &mode),
    };
    match r {
        Ok(n) => {
            ch.obs_hash((n, nrec));
            if matches!(mode, hdrraw::Mode::Read(k) if k < longest) {
                ch.tag("header_reader: read() destination shorter than a header line");
            }
            ch.steps(3);
            Ok(())
        }
        Err(f) if f.what == "harness" => vmc::machinery(format!("header_reader harness: {}", f.observed)),
        Err(f) => Err(Violation::new(
            // NUL padding handed out as text does not depend on how the adapter is driven: one class
            if f.what == "nul-padding-delivered-as-header-text" {
                format!("stage=header-reader target=bam layout={layout_name} mode=any what={}", f.what)
            } else if target == Fmt::Sam
                && f.what == "header-truncated"
                && matches!(mode.class(longest).as_str(), "fill_buf/consume(partial)" | "read+fill_buf-mixed")
            {
                // a partial consume() on the BufRead side: one class, whatever the layout
                "stage=header-reader target=sam layout=any mode=bufread-partial-consume what=header-truncated".to_string()
            } else {
                format!("stage=header-reader target={} layout={layout_name} mode={} what={}", FMT_NAME(target), mode.class(longest), f.what)
            },
            describe(),
            f.expected,
            f.observed,
        )),
    }
}

/// Counts at and above the internal caps of the header path (see `gsam::hcaps`): one document per count,
/// SAM <-> BAM in both directions, raw and BGZF, plus the binary-only-dictionary variant.
fn caps_body(ch: &Chooser, docs: &[gsam::hcaps::Doc]) -> Outcome {
    let doc = ch.pick_free("document", docs);
    let container = *ch.pick_free("container", &[Container::Raw, Container::Bgzf]);
    let describe = || {
        format!(
            "header document `{}` ({} lines, {} bytes of text; gsam::hcaps::docs) + 2 records (first reference; last reference with mate on the middle one), BAM as {container:?}",
            doc.label,
            doc.header.lines.len(),
            doc.header.to_text().len()
        )
    };
    ch.desc(|| describe());
    match gsam::hcaps::check_doc(doc, container) {
        Ok((s, b)) => {
            ch.obs_hash((s, b));
            if doc.header.refs().len() > 65536 {
                ch.tag("caps: more than 65536 references");
            }
            if doc.binary_only {
                ch.tag("caps: binary-only dictionary variant");
            }
            ch.steps(20);
            Ok(())
        }
        Err(f) => {
            let class = doc.label.split('=').next().unwrap_or("?");
            let above = if class == "n_ref" { format!(" refs>65536={}", doc.header.refs().len() > 65536) } else { String::new() };
            Err(Violation::new(format!("stage=caps-{} doc={class}{above} what={}", f.stage, f.what), describe(), f.expected, f.observed))
        }
    }
}

fn main() {
    unsafe {
        libc::mallopt(libc::M_MMAP_THRESHOLD, 32 << 20);
        libc::mallopt(libc::M_TRIM_THRESHOLD, i32::MAX);
        libc::mallopt(libc::M_TOP_PAD, 64 << 20);
    }
    vmc::run("C06", "model_checking", |ctx| {
        ctx.rule(
            "records: every record within k field deviations of each of 4 base records over the SAM-carriable grammar \
             (incl. '=' mate reference, '*' fields, floats, B arrays, hex, full printable range), in files of 1 and 3 records; \
             headers: 0..3 @SQ x 0..2 @RG x 0..3 @PG x 0..2 @CO (free) with every line k deviations from its default over \
             standard/user tags, LN bounds, tag orders, line orders and invalid shapes, with/without a following record; \
             distinct = distinct decoded contents observed",
        );
        ctx.rule(
            "caps: one document per count at cap-1/cap/cap+1/well above: n_ref 65535/65536/65537/70000 (thorough +131073, 200000), \
             65537 @RG lines (thorough: @RG/@PG/@CO at 65535..65537, 200000 @CO), header text length 8191..8193 and 65535..65537 \
             (thorough: 2^20-1, 2^20, 2^24+1) x {raw, BGZF}: SAM<->BAM both directions + BAM with a binary-only dictionary",
        );
        ctx.rule(
            "dyn: every record of the field-presence set (+ mate-reference shapes) alone and all together x source {SAM, BAM raw, BAM BGZF}, \
             read by alignment_records()/noodles_util as Box<dyn Record> (and util's enum Record), every trait accessor, \
             try_from_alignment_record, write_alignment_record into every writer; every record-grammar execution valid in both formats \
             also travels as Box<dyn Record> | header_reader: 4 header docs (long lines, '@' runs, a line > 8 KiB) x layouts x source \
             windows x every read() destination size 1..=longest+2 (dense to 162) + read_to_end/read_to_string/io::copy/read_until + \
             fill_buf/consume patterns, SAM and BAM (raw_sam_header_reader; NUL padding, no final newline)",
        );
        ctx.rule(
            "writer sequences: every sequence of 0..3 write_alignment_record calls on one sam::io::Writer over 4 accepted records \
             and one record per rejection reason (29 operations): the text holds exactly the accepted records",
        );
        ctx.rule(
            "reuse: every ordered pair and triple over 20 records differing in which optional fields are present x {SAM, BAM}, \
             each file read through 8 reader entry points (fresh, reused clean, reused dirty RecordBuf, record_bufs(), reused/fresh \
             lazy record, records(), lazy->reused RecordBuf); every record-grammar execution also re-reads its text into one reused \
             pre-dirtied RecordBuf",
        );
        ctx.assume("Rust's str::parse::<f32>/<i64> (independent reading of the text noodles writes)");
        ctx.assume("RecordBuf setters/constructors store the given field values (checked per execution by viewing the built record)");
        let mk = |wide: bool, heavy: bool, nrec_free: bool| Cfg {
            alphabet: Alphabet::sam(wide, heavy),
            bases: bases(),
            n_ref: 3,
            header: std_header(3),
            nrec_free,
        };
        let _: Option<GHeader> = None;
        // counts at and above the internal caps of the header path
        {
            let docs = gsam::hcaps::docs(!ctx.quick());
            ctx.harness(Config::new("count_caps", 0).threads(4), |ch| caps_body(ch, &docs));
        }
        // records as Box<dyn Record> through the format-agnostic traits and noodles_util
        {
            let mut set = reuse::record_set();
            let full = reuse::full();
            set.push(("mate-on-same-reference", GRec { mrid: full.rid, ..full.clone() }));
            set.push(("unmapped-with-mate-placed", GRec { flags: 0x4 | 0x1 | 0x40, rid: None, pos: None, mapq: 255, cigar: vec![], mrid: Some(1), mpos: Some(5), ..full.clone() }));
            set.push(("mapped-mate-unset-pos-kept", GRec { mrid: None, ..full.clone() }));
            let h3 = std_header(3);
            ctx.harness(Config::new("dyn_record_paths", 0), |ch| dyn_body(ch, &set, &h3));
        }
        // the raw-header adapters
        {
            let docs = gsam::hdrraw::header_docs();
            ctx.harness(Config::new("header_reader_sweep", 0), |ch| header_reader_body(ch, &docs));
        }
        // accepted and rejected writes interleaved on one writer
        {
            let ops = gsam::wseq::op_set();
            let h3 = std_header(3);
            ctx.harness(Config::new("sam_writer_sequences", 0), |ch| wseq_body(ch, &ops, &h3, &[Fmt::Sam]));
        }
        // field-presence transitions between consecutive records, every reader entry point
        {
            let set = reuse::record_set();
            let h3 = std_header(3);
            ctx.harness(Config::new("sam_reuse_pairs_triples", 0), |ch| reuse_body(ch, &set, &h3));
        }
        if ctx.quick() {
            let cfg = mk(false, false, false);
            ctx.harness(Config::new("sam_record_k2", 2), |ch| record_body(ch, &cfg));
            // the >65535-op CIGAR (CG convention across SAM <-> BAM) costs ~30 ms per execution: every single
            // deviation in the quick tier, pairs in the thorough tier
            let cfg = mk(false, true, true);
            ctx.harness(Config::new("sam_record_long_k1", 1), |ch| record_body(ch, &cfg));
            let shape = HeaderShape::quick();
            ctx.harness(Config::new("sam_header_k2", 2), |ch| header_body(ch, &shape));
        } else {
            // k=3 over the base alphabets; the widened alphabets and the long-CIGAR entries take part at k=2 below
            let light = mk(false, false, false);
            ctx.harness(Config::new("sam_record_k3", 3), |ch| record_body(ch, &light));
            let heavy = mk(true, true, true);
            ctx.harness(Config::new("sam_record_k2_wide", 2), |ch| record_body(ch, &heavy));
            let shape = HeaderShape::thorough();
            ctx.harness(Config::new("sam_header_k3", 3), |ch| header_body(ch, &shape));
        }
    });
}
