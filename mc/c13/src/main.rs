//! C13 — a truncated file yields a prefix of the original records, then EOF or an error.
//!
//! E3, complete over cut points: every byte offset `0..=len` of every corpus document in scope (BGZF, BAM,
//! BCF, CRAM, bgzipped SAM / VCF, BAI / CSI / tabix / gzi / fai / crai), for every reader API. The three
//! > 64 KiB documents are cut at every offset within 64 bytes of a block boundary and at every 251st byte in
//! between (stated as such in the evidence).
//!
//! Oracle: the log of the prefix is `r0 … r(m-1)` identical to the first m items of the log of the complete
//! file, then `EOF` or `Err`. Additionally: raw (uncompressed) BAM / BCF record streams cut inside a record
//! and CRAM files cut inside a container must end in `Err`; binary index readers must return `Err` for every
//! proper prefix except where the tail is optional (`n_no_coor`, the BGZF EOF marker of CSI / tabix).

use std::{
    collections::HashSet,
    hash::{Hash, Hasher},
    sync::Mutex,
};

use vmc::{Outcome, Violation};
use vnd::{Api, BgzfRead, Doc, Format, Opts, drive::bgzf_read_all};

fn short(s: &str) -> String {
    if s.len() > 300 {
        let mut e = 300;
        while !s.is_char_boundary(e) {
            e -= 1;
        }
        format!("{}…", &s[..e])
    } else {
        s.to_string()
    }
}

fn hex_full(b: &[u8]) -> String {
    b.iter().map(|x| format!("{x:02x}")).collect()
}

fn line_kind(l: &str) -> &str {
    let k = l.split([':', '[']).next().unwrap_or("?");
    if k.len() > 12 { "?" } else { k }
}

fn is_terminal(l: &str) -> bool {
    l.starts_with("end: ")
}

/// Position class of a cut in a sequence of units given by their end offsets.
fn unit_class(ends: &[usize], first_start: usize, k: usize, unit: &str, hdr: usize, trailer: usize) -> String {
    if k < first_start {
        return "in-file-header".into();
    }
    if k == first_start || ends.binary_search(&k).is_ok() {
        return format!("{unit}-boundary");
    }
    let i = ends.partition_point(|&e| e <= k);
    let start = if i == 0 { first_start } else { ends[i - 1] };
    let end = ends.get(i).copied().unwrap_or(usize::MAX);
    if k - start < hdr {
        format!("in-{unit}-header")
    } else if end != usize::MAX && end - k <= trailer {
        format!("in-{unit}-trailer")
    } else {
        format!("in-{unit}")
    }
}

fn cut_class(doc: &Doc, k: usize) -> String {
    if k == doc.bytes.len() {
        return "complete".into();
    }
    if doc.format.is_bgzf() {
        unit_class(&doc.item_ends, 0, k, "block", 18, 8)
    } else if doc.format == Format::Cram {
        let c = unit_class(&doc.item_ends, doc.header_end, k, "container", 0, 0);
        // the last container of a noodles-written file is the EOF container (23-byte header incl. its CRC32, 15-byte
        // body): a cut inside its HEADER is judged like a cut inside any container; only a cut inside its BODY (the
        // header, checksum included, is complete) is the known clean-EOF behaviour and keeps its own class
        if c == "in-container" {
            let (_, cs) = vnd::walk::cram(&doc.bytes);
            if let Some(e) = cs.last().filter(|c| c.is_eof) {
                if k > e.start && k < e.body {
                    return "in-eof-container-header".into();
                }
                if k >= e.body {
                    return "in-eof-container-body".into();
                }
            }
        }
        c
    } else if doc.format == Format::Crai {
        "in-gzip-member".into()
    } else if doc.format == Format::Fai {
        if doc.item_ends.binary_search(&k).is_ok() || k == 0 { "line-boundary".into() } else { "in-line".into() }
    } else if k == doc.header_end && doc.header_end < doc.bytes.len() {
        "before-optional-tail".into()
    } else {
        "in-index".into()
    }
}

/// The cut offsets of a document.
fn cuts(doc: &Doc) -> Vec<usize> {
    let len = doc.bytes.len();
    if !doc.big {
        return (0..=len).collect();
    }
    let mut v: Vec<usize> = (0..=len).step_by(251).collect();
    let mut near = vec![0usize, len];
    near.extend(doc.item_ends.iter().copied());
    for b in near {
        for d in 0..=64usize {
            if b + d <= len {
                v.push(b + d);
            }
            if b >= d {
                v.push(b - d);
            }
        }
    }
    v.sort_unstable();
    v.dedup();
    v
}

struct Row {
    doc: usize,
    api: Api,
    /// The ASYNC reader of the format (vnd::adrive; `api` is then only a placeholder).
    asyn: bool,
    cuts: Vec<usize>,
    spec: Vec<String>,
}

fn locate(_rows: &[Row], starts: &[u64], i: u64) -> (usize, usize) {
    let r = starts.partition_point(|&s| s <= i) - 1;
    (r, (i - starts[r]) as usize)
}

fn starts_of(rows: &[Row]) -> (Vec<u64>, u64) {
    let mut s = Vec::new();
    let mut t = 0u64;
    for r in rows {
        s.push(t);
        t += r.cuts.len() as u64;
    }
    (s, t)
}

/// Checks the prefix property of `got` against `spec`; returns (symptom, expected, observed) on failure.
fn prefix_check(spec: &[String], got: &[String]) -> Result<usize, (String, String, String)> {
    let Some(last) = got.last() else {
        return Err(("empty-log".into(), "a terminal line".into(), "nothing".into()));
    };
    if !is_terminal(last) {
        return Err(("no-terminal".into(), "EOF or Err".into(), short(last)));
    }
    if last.contains(vnd::NONTERM) {
        return Err((format!("non-termination-after-{}-items", if got.len() > 1 { "some" } else { "no" }), "EOF or Err".into(), short(last)));
    }
    let m = got.len() - 1;
    let n = spec.len() - 1; // items of the complete file
    for i in 0..m {
        if i >= n {
            return Err((
                format!("fabricated-{}", line_kind(&got[i])),
                format!("at most {n} items (the complete file has no item {i})"),
                format!("item {i}: {}", short(&got[i])),
            ));
        }
        // the virtual position after the last item read depends on whether a following block (e.g. the EOF
        // marker) exists; it is compared for every item but the last one of the prefix
        if got[i] != spec[i] && !(i + 1 == m && strip_vpos(&got[i]) == strip_vpos(&spec[i])) {
            let what = if i + 1 == m { "altered-last" } else { "altered" };
            return Err((format!("{what}-{}", line_kind(&spec[i])), format!("item {i}: {}", short(&spec[i])), format!("item {i}: {}", short(&got[i]))));
        }
    }
    Ok(m)
}

fn strip_vpos(l: &str) -> &str {
    match l.rfind(" @") {
        Some(p) if l[p + 2..].bytes().all(|c| c.is_ascii_digit() || c == b':') => &l[..p],
        _ => l,
    }
}

fn fingerprint(doc: &Doc, api: &str, layer: &str, cut: &str, symptom: &str) -> String {
    format!("format={} layer={layer} api={api} cut={cut} symptom={symptom}", doc.format)
}

fn main() {
    vmc::run("C13", "fault_enumeration", |ctx| {
        let mut docs = vnd::corpus(ctx.thorough());
        // engineered documents (vnd::extra): length prefixes whose low bytes are zero (BCF l_shared = 256 / 512 /
        // 65536, l_indiv = 256, BAM block_size = 256 / 512, n_no_coor = 256, a CRAM container length that is a
        // multiple of 256), so that a reader decoding a zero-padded partial prefix as "0 = end of file" is exposed
        // ... and documents with a single record larger than a BGZF block (`big-*`, cut like the other big documents)
        docs.extend(vnd::extra(ctx.thorough()).into_iter().filter(|d| d.name.starts_with("eng-") || (d.name.starts_with("big-") && !d.raw)));
        ctx.rule("every byte offset 0..=len of every corpus document in scope (BGZF, BAM, BCF, CRAM, SAM.gz, VCF.gz, BAI, CSI, tabix, gzi, fai, crai) x reader API; the three > 64 KiB documents at every offset within 64 bytes of a block boundary plus every 251st byte; raw BAM / BCF / CSI / tabix streams at every uncompressed offset; BGZF payload through read(4096) / fill_buf / read_to_end / read(64 KiB) / read(128 KiB) / read_exact(7); distinct = distinct (document, prefix log) pairs");
        ctx.assume("the log of the complete file (read by the same sync reader) equals what was written (decided by C05-C10)");
        ctx.assume("CRAM documents differ byte-wise between processes (std RandomState in the CRAM writer): a replay by index addresses the same offset of a structurally identical document");
        ctx.assume("miniz_oxide / crc32fast (re-sealing of uncompressed CSI / tabix prefixes) are correct");

        let in_scope = |f: Format| matches!(f, Format::Bam | Format::Bcf | Format::Cram | Format::SamGz | Format::VcfGz | Format::Bai | Format::Csi | Format::Tbi | Format::Gzi | Format::Fai | Format::Crai);
        let distinct: Mutex<HashSet<u64>> = Mutex::new(HashSet::new());
        let note = |doc: usize, layer: u8, log: &[String]| {
            let mut h = std::collections::hash_map::DefaultHasher::new();
            (doc, layer, log).hash(&mut h);
            distinct.lock().unwrap().insert(h.finish());
        };
        let mut big_cut_counts = Vec::new();

        // ------------------------------------------------------------------ (0) the async BAM record reader over an
        // uncompressed stream whose source answers `Interrupted` once near the end: every cut x transfer size x
        // position of the interruption (none / at the end-reporting read / 1..3 bytes before it). A reader that
        // restarts its "how much have I read" count after a retry reports a cut inside a length prefix whose
        // delivered bytes are zero (block_size = 256 / 512: `eng-` documents) as a clean end of file.
        {
            let bams: Vec<&Doc> = docs.iter().filter(|d| d.format == Format::Bam && !d.big && d.inner.is_some()).collect();
            let chunks = [usize::MAX, 1, 3];
            let mut cases: Vec<(usize, usize)> = Vec::new(); // (doc, cut)
            for (i, d) in bams.iter().enumerate() {
                let n = d.inner.as_ref().unwrap().bytes.len();
                for k in 0..=n {
                    cases.push((i, k));
                }
            }
            let full: Vec<Vec<String>> = bams.iter().map(|d| vnd::adrive::bam_raw_async_log(&d.inner.as_ref().unwrap().bytes, usize::MAX, None, 100_000)).collect();
            for (d, l) in bams.iter().zip(&full) {
                if !l.last().is_some_and(|x| vnd::is_end_eof(x)) || l.len() != d.inner.as_ref().unwrap().record_ends.len() + 2 {
                    vmc::machinery(format!("raw async BAM log of the complete stream of {} is not header + records + EOF: {:?}", d.name, l.last()));
                }
            }
            let per = (chunks.len() * 5) as u64;
            let (bams, cases, full, note) = (&bams, &cases, &full, &note);
            ctx.sweep(
                "async_bam_interrupted_cuts",
                cases.len() as u64 * per,
                |i| {
                    let (di, k) = cases[(i / per) as usize];
                    format!("doc={} uncompressed stream cut={k} variant={}", bams[di].name, i % per)
                },
                |i| -> Outcome {
                    let (di, k) = cases[(i / per) as usize];
                    let v = (i % per) as usize;
                    let (chunk, iv) = (chunks[v / 5], v % 5);
                    let d = bams[di];
                    let inner = d.inner.as_ref().unwrap();
                    let interrupt_at = match iv {
                        0 => None,
                        j => match k.checked_sub(j - 1) {
                            Some(p) => Some(p),
                            None => return Ok(()),
                        },
                    };
                    let got = vnd::adrive::bam_raw_async_log(&inner.bytes[..k], chunk, interrupt_at, 100_000);
                    note(1_000_000 + di, 9, &got);
                    let m = inner.record_ends.partition_point(|&e| e <= k);
                    let at_boundary = k == inner.header_end || inner.record_ends.binary_search(&k).is_ok();
                    let (want_body, want_end): (&[String], &str) = if k < inner.header_end { (&[], "Err") } else { (&full[di][..1 + m], if at_boundary { "EOF" } else { "Err" }) };
                    let end = got.last().unwrap();
                    let got_end = if vnd::is_end_eof(end) { "EOF" } else if vnd::is_end_err(end) { "Err" } else { "?" };
                    let body = &got[..got.len() - 1];
                    let body_ok = body == want_body;
                    if body_ok && got_end == want_end {
                        return Ok(());
                    }
                    // the interruption itself may surface as an error (tokio's read_exact does not retry
                    // `Interrupted`, and the property allows "a prefix, then an error"): with an interruption
                    // injected, an error after any prefix of the complete records is accepted; a clean end is
                    // accepted only at a boundary after exactly the complete records
                    if iv != 0 && got_end == "Err" && k >= inner.header_end && body.len() <= want_body.len() && body == &want_body[..body.len()] {
                        return Ok(());
                    }
                    if iv != 0 && got_end == "Err" && k < inner.header_end && body.is_empty() {
                        return Ok(());
                    }
                    let symptom = if !body_ok { "records-differ-from-prefix" } else if got_end == "EOF" { "clean-eof-inside-a-record" } else { "error-at-a-record-boundary" };
                    Err(Violation::new(
                        format!("format=BAM layer=raw-async api=Async cut={} symptom={symptom} interruption={}", if at_boundary { "boundary" } else if k < inner.header_end { "in-header" } else { "in-record" }, if iv == 0 { "none" } else { "once-near-end" }),
                        format!(
                            "doc={} uncompressed BAM stream ({} bytes) truncated to {k}; bam::async::io::Reader::from(source), read_header + read_record_buf loop; source delivers <= {} bytes per read and answers Interrupted once when {:?} bytes have been delivered; stream (hex): {}",
                            d.name,
                            inner.bytes.len(),
                            if chunk == usize::MAX { "all available".to_string() } else { chunk.to_string() },
                            interrupt_at,
                            hex_full(&inner.bytes)
                        ),
                        format!("{} complete record(s), then {want_end}", m),
                        format!("{} line(s) before the end, then {}", got.len() - 1, short(end)),
                    ))
                },
            );
        }

        // ------------------------------------------------------------------ (a) file-level cuts
        let mut rows: Vec<Row> = Vec::new();
        for (i, d) in docs.iter().enumerate() {
            if !in_scope(d.format) {
                continue;
            }
            let c = cuts(d);
            if d.big {
                big_cut_counts.push(format!("{}: {} of {} offsets", d.name, c.len(), d.bytes.len() + 1));
            }
            for &api in Api::all_for(d.format) {
                let spec = vnd::read_log(d.format, &d.bytes[..], &Opts::for_doc(d).api(api));
                rows.push(Row { doc: i, api, asyn: false, cuts: c.clone(), spec });
            }
        }
        // the same complete cut sweep through the async reader of every format in scope (C16 compares sync / async at
        // a bounded number of cuts; the exhaustive sweep per reader is this check's)
        for (i, d) in docs.iter().enumerate() {
            if !in_scope(d.format) {
                continue;
            }
            let mut o = Opts::for_doc(d).api(Api::Eager);
            o.vpos = false;
            if let Some(spec) = vnd::adrive::read_log_async(d.format, &d.bytes, &o) {
                rows.push(Row { doc: i, api: Api::Eager, asyn: true, cuts: cuts(d), spec });
            }
        }
        let (starts, total) = starts_of(&rows);
        {
            let (rows, starts, docs, note) = (&rows, &starts, &docs, &note);
            ctx.sweep(
                "file_cuts",
                total,
                |i| {
                    let (r, c) = locate(rows, starts, i);
                    format!("doc={} api={} cut={} of {}", docs[rows[r].doc].name, if rows[r].asyn { "Async".to_string() } else { format!("{:?}", rows[r].api) }, rows[r].cuts[c], docs[rows[r].doc].bytes.len())
                },
                |i| -> Outcome {
                    let (r, c) = locate(rows, starts, i);
                    let row = &rows[r];
                    let d = &docs[row.doc];
                    let k = row.cuts[c];
                    let mut o = Opts::for_doc(d).api(row.api);
                    let got = if row.asyn {
                        o.vpos = false;
                        vnd::adrive::read_log_async(d.format, &d.bytes[..k], &o).unwrap_or_default()
                    } else {
                        vnd::read_log(d.format, &d.bytes[..k], &o)
                    };
                    note(row.doc, if row.asyn { 4 } else { 0 }, &got);
                    let cls = cut_class(d, k);
                    let api = if row.asyn { "Async".to_string() } else { format!("{:?}", row.api) };
                    let decoded = || {
                        format!(
                            "doc={} ({} bytes, set {}) api={} truncated to {k} bytes ({cls}); complete file (hex): {}",
                            d.name,
                            d.bytes.len(),
                            d.set,
                            if row.asyn { "Async (the format's async reader, vnd::adrive::read_log_async)".to_string() } else { format!("{:?}", row.api) },
                            if d.bytes.len() <= 1600 { hex_full(&d.bytes) } else { format!("{} (regenerate with vnd::corpus)", vmc::hex(&d.bytes)) }
                        )
                    };
                    let spec = &row.spec;
                    let spec_is_err = vnd::is_end_err(spec.last().unwrap());
                    if k == d.bytes.len() {
                        if &got != spec {
                            return Err(Violation::new(fingerprint(d, &api, "file", &cls, "complete-file-differs"), decoded(), "the complete log", "a different log"));
                        }
                        return Ok(());
                    }
                    if spec_is_err {
                        // the complete file itself cannot be read with this API (crai read_index, see NOTES): only no-panic is judged
                        return Ok(());
                    }
                    let ended_err = vnd::is_end_err(got.last().unwrap());
                    if matches!(d.format, Format::Bai | Format::Gzi | Format::Csi | Format::Tbi) {
                        // binary index: Err for every proper prefix, except where only an optional tail is missing
                        if ended_err && got.len() == 1 {
                            return Ok(());
                        }
                        let want: Option<Vec<String>> = match d.format {
                            Format::Bai if k >= d.header_end => {
                                let mut w = spec.clone();
                                w[0] = strip_n_no_coor(&w[0]);
                                Some(w)
                            }
                            Format::Csi | Format::Tbi if k >= last_data_member_end(d) => Some(spec.clone()),
                            _ => None,
                        };
                        return match want {
                            Some(w) if w == got => Ok(()),
                            Some(w) => Err(Violation::new(fingerprint(d, &api, "file", &cls, "index-differs-beyond-optional-tail"), decoded(), short(&w[0]), short(&got[0]))),
                            None => Err(Violation::new(fingerprint(d, &api, "file", &cls, "truncated-index-accepted"), decoded(), "Err", format!("Ok: {}", short(&got[0])))),
                        };
                    }
                    if matches!(d.format, Format::SamGz | Format::VcfGz) && members_within(d, k) < text_header_end(d) {
                        // the text delivered ends inside the header: it is a different, shorter header and nothing can
                        // detect that (design scope note); only "no records, no panic" is required
                        if got.len() <= 2 && got.iter().all(|l| l.starts_with("header:") || is_terminal(l)) {
                            return Ok(());
                        }
                    }
                    let m = match prefix_check(spec, &got) {
                        Ok(m) => m,
                        Err((symptom, exp, obs)) => return Err(Violation::new(fingerprint(d, &api, "file", &cls, &symptom), decoded(), exp, obs)),
                    };
                    if d.format == Format::Cram && (cls == "in-container" || cls == "in-eof-container-header" || cls == "in-eof-container-body") && !ended_err {
                        return Err(Violation::new(
                            fingerprint(d, &api, "file", &cls, "clean-eof-inside-container"),
                            decoded(),
                            "Err (the file ends inside a container)",
                            format!("{m} items then EOF"),
                        ));
                    }
                    Ok(())
                },
            );
        }

        // ------------------------------------------------------------------ (b) raw record / index streams
        let mut raw_rows: Vec<Row> = Vec::new();
        for (i, d) in docs.iter().enumerate() {
            if !matches!(d.format, Format::Bam | Format::Bcf | Format::Csi | Format::Tbi) || (d.big && !d.name.starts_with("big-")) {
                continue;
            }
            let inner = d.inner.as_ref().unwrap();
            // big-record documents: every offset within 64 bytes of the header end / a record end, every 251st byte
            let raw_cut_list: Vec<usize> = if d.big {
                let len = inner.bytes.len();
                let mut v: Vec<usize> = (0..=len).step_by(251).collect();
                for b in std::iter::once(inner.header_end).chain(inner.record_ends.iter().copied()).chain([0, len]) {
                    for dd in 0..=64usize {
                        if b + dd <= len {
                            v.push(b + dd);
                        }
                        if b >= dd {
                            v.push(b - dd);
                        }
                    }
                }
                v.sort_unstable();
                v.dedup();
                v
            } else {
                (0..=inner.bytes.len()).collect()
            };
            for &api in Api::all_for(d.format) {
                let spec = match d.format {
                    Format::Bam | Format::Bcf => vnd::read_log(d.format, &inner.bytes[..], &Opts::for_doc(d).api(api).raw(true).len(inner.bytes.len())),
                    _ => vnd::read_log(d.format, &d.bytes[..], &Opts::for_doc(d).api(api)),
                };
                raw_rows.push(Row { doc: i, api, asyn: false, cuts: raw_cut_list.clone(), spec });
            }
        }
        let (raw_starts, raw_total) = starts_of(&raw_rows);
        {
            let (rows, starts, docs, note) = (&raw_rows, &raw_starts, &docs, &note);
            ctx.sweep(
                "raw_cuts",
                raw_total,
                |i| {
                    let (r, c) = locate(rows, starts, i);
                    format!("doc={} api={:?} uncompressed stream cut at {}", docs[rows[r].doc].name, rows[r].api, rows[r].cuts[c])
                },
                |i| -> Outcome {
                    let (r, c) = locate(rows, starts, i);
                    let row = &rows[r];
                    let d = &docs[row.doc];
                    let inner = d.inner.as_ref().unwrap();
                    let k = row.cuts[c];
                    let api = format!("{:?}", row.api);
                    let is_index = matches!(d.format, Format::Csi | Format::Tbi);
                    let got = if is_index {
                        // an uncompressed prefix, re-sealed as a well-formed BGZF file with EOF marker
                        let (file, _) = vmc::oracle::bgzf::make_file(&[inner.bytes[..k].to_vec()], true, 6);
                        vnd::read_log(d.format, &file[..], &Opts::for_doc(d).api(row.api).len(file.len()))
                    } else {
                        vnd::read_log(d.format, &inner.bytes[..k], &Opts::for_doc(d).api(row.api).raw(true).len(k))
                    };
                    note(row.doc, 1, &got);
                    let cls = if k == inner.bytes.len() {
                        "complete".to_string()
                    } else if is_index {
                        if k == inner.header_end && inner.header_end < inner.bytes.len() { "before-optional-tail".into() } else { "in-index".into() }
                    } else if k < inner.header_end {
                        "in-header".into()
                    } else if k == inner.header_end || inner.record_ends.binary_search(&k).is_ok() {
                        "record-boundary".into()
                    } else {
                        "in-record".into()
                    };
                    let decoded = || {
                        format!(
                            "doc={} api={:?}: uncompressed {} stream ({} bytes) cut at {k} ({cls}){}; stream (hex): {}",
                            d.name,
                            row.api,
                            d.format,
                            inner.bytes.len(),
                            if is_index { ", re-compressed into one BGZF block + EOF marker" } else { ", fed to Reader::from(stream)" },
                            if inner.bytes.len() <= 1600 { hex_full(&inner.bytes) } else { vmc::hex(&inner.bytes) }
                        )
                    };
                    let spec = &row.spec;
                    if k == inner.bytes.len() {
                        if &got != spec {
                            return Err(Violation::new(fingerprint(d, &api, "uncompressed", &cls, "complete-stream-differs"), decoded(), "the complete log", "a different log"));
                        }
                        return Ok(());
                    }
                    let ended_err = vnd::is_end_err(got.last().unwrap());
                    if is_index {
                        if ended_err && got.len() == 1 {
                            return Ok(());
                        }
                        if k >= inner.header_end {
                            let mut want = spec.clone();
                            want[0] = strip_n_no_coor(&want[0]);
                            if got != want {
                                return Err(Violation::new(fingerprint(d, &api, "uncompressed", &cls, "index-differs-beyond-optional-tail"), decoded(), short(&want[0]), short(&got[0])));
                            }
                            return Ok(());
                        }
                        return Err(Violation::new(fingerprint(d, &api, "uncompressed", &cls, "truncated-index-accepted"), decoded(), "Err", format!("Ok: {}", short(&got[0]))));
                    }
                    let m = match prefix_check(spec, &got) {
                        Ok(m) => m,
                        Err((symptom, exp, obs)) => return Err(Violation::new(fingerprint(d, &api, "uncompressed", &cls, &symptom), decoded(), exp, obs)),
                    };
                    if cls == "in-record" && !ended_err {
                        return Err(Violation::new(
                            fingerprint(d, &api, "uncompressed", &cls, "clean-eof-inside-record"),
                            decoded(),
                            "Err (the stream ends inside a record)",
                            format!("{m} items then EOF"),
                        ));
                    }
                    Ok(())
                },
            );
        }

        // ------------------------------------------------------------------ (c) BGZF payload bytes
        let modes: Vec<(BgzfRead, &'static str)> = vec![
            (BgzfRead::Read(4096), "read(4096)"),
            (BgzfRead::FillBuf, "fill_buf"),
            (BgzfRead::ReadToEnd, "read_to_end"),
            (BgzfRead::Read(65536), "read(65536)"),
            (BgzfRead::Read(131072), "read(131072)"),
            (BgzfRead::ReadExact(7), "read_exact(7)"),
            (BgzfRead::Read(1), "read(1)"),
        ];
        struct BRow {
            doc: usize,
            mode: usize,
            cuts: Vec<usize>,
        }
        let mut brows = Vec::new();
        for (i, d) in docs.iter().enumerate() {
            // every BGZF-framed document is also a BGZF payload stream
            if !d.format.is_bgzf() {
                continue;
            }
            if d.format != Format::Bgzf && ctx.quick() && !matches!(d.format, Format::Bam | Format::VcfGz) {
                continue;
            }
            let c = cuts(d);
            if d.big && d.format == Format::Bgzf {
                big_cut_counts.push(format!("{}: {} of {} offsets", d.name, c.len(), d.bytes.len() + 1));
            }
            for m in 0..modes.len() {
                if d.big && m == 6 {
                    continue;
                }
                brows.push(BRow { doc: i, mode: m, cuts: c.clone() });
            }
        }
        let mut bstarts = Vec::new();
        let mut btotal = 0u64;
        for r in &brows {
            bstarts.push(btotal);
            btotal += r.cuts.len() as u64;
        }
        {
            let (rows, starts, docs, modes, distinct) = (&brows, &bstarts, &docs, &modes, &distinct);
            let loc = |i: u64| {
                let r = starts.partition_point(|&s| s <= i) - 1;
                (r, (i - starts[r]) as usize)
            };
            ctx.sweep(
                "bgzf_bytes",
                btotal,
                |i| {
                    let (r, c) = loc(i);
                    format!("doc={} {} cut={} of {}", docs[rows[r].doc].name, modes[rows[r].mode].1, rows[r].cuts[c], docs[rows[r].doc].bytes.len())
                },
                |i| -> Outcome {
                    let (r, c) = loc(i);
                    let row = &rows[r];
                    let d = &docs[row.doc];
                    let k = row.cuts[c];
                    let (mode, mode_name) = modes[row.mode];
                    let full = &d.inner.as_ref().unwrap().bytes;
                    let (data, calls, res) = bgzf_read_all(&d.bytes[..k], mode, full.len() + k + 1000, full.len() + 200_000);
                    {
                        let mut h = std::collections::hash_map::DefaultHasher::new();
                        (row.doc, 2u8, data.len(), res.is_ok(), calls.len()).hash(&mut h);
                        distinct.lock().unwrap().insert(h.finish());
                    }
                    let cls = cut_class(d, k);
                    let decoded = || {
                        format!(
                            "doc={} ({} bytes, payload {} bytes, members end at {:?}) truncated to {k} bytes ({cls}), payload pulled with bgzf::io::Reader::{mode_name} until Ok(0)/Err; file (hex): {}",
                            d.name,
                            d.bytes.len(),
                            full.len(),
                            d.item_ends,
                            if d.bytes.len() <= 1600 { hex_full(&d.bytes) } else { format!("{} (regenerate with vnd::corpus)", vmc::hex(&d.bytes)) }
                        )
                    };
                    let fp = |symptom: &str| format!("format=bgzf layer=bgzf-payload read={mode_name} cut={cls} symptom={symptom}");
                    // what was delivered must be a prefix of the payload
                    let common = data.iter().zip(full.iter()).take_while(|(a, b)| a == b).count();
                    if data.len() > full.len() || common < data.len() {
                        // classify: does the surplus repeat the previous block?
                        // everything up to the end of the last complete block was delivered correctly and the surplus
                        // follows it (D22: the large-buffer path returns the previous block's length again), or the
                        // divergence lies inside the complete blocks
                        let symptom = if common >= members_within(d, k) { "surplus-after-last-complete-block" } else { "fabricated-bytes" };
                        let _ = repeats_previous(d, &data, common);
                        return Err(Violation::new(
                            fp(symptom),
                            decoded(),
                            format!("a prefix of the {} payload bytes, then Ok(0) or Err", full.len()),
                            format!("{} bytes delivered in {} calls, first {} agree with the payload; outcome {}", data.len(), calls.len(), common, outcome_name(&res)),
                        ));
                    }
                    if let Err(None) = res {
                        return Err(Violation::new(fp("non-termination"), decoded(), "Ok(0) or Err after finitely many calls", format!("{} calls without end", calls.len())));
                    }
                    if k == d.bytes.len() && (data.len() != full.len() || res.is_err()) && !matches!(mode, BgzfRead::ReadExact(_)) {
                        return Err(Violation::new(fp("complete-file-not-read"), decoded(), format!("{} bytes then Ok(0)", full.len()), format!("{} bytes, {}", data.len(), outcome_name(&res))));
                    }
                    // bytes of a member that is not completely present must not be delivered
                    let whole: usize = members_within(d, k);
                    if data.len() > whole {
                        return Err(Violation::new(fp("bytes-of-incomplete-block"), decoded(), format!("at most the {whole} bytes of the complete blocks"), format!("{} bytes", data.len())));
                    }
                    Ok(())
                },
            );
        }

        // ------------------------------------------------------------------ (d) truncation x indexed access
        // For every cut of a data document that has an index: open the cut file with the index of the COMPLETE file,
        // read the header and run a sequence of region queries (+ query_unmapped) on the same reader (vnd::query).
        // Every query must yield a prefix (in order) of the complete file's answer; a shorter answer must end in Err
        // unless the first missing record lies in data that is not there at all (its BGZF member / CRAM container
        // starts at or after the cut, or fewer than 18 bytes of the member are present: the sequential EOF rule).
        {
            let all_extra = vnd::extra(ctx.thorough());
            let mut pool: Vec<Doc> = docs.clone();
            for d in all_extra {
                if !pool.iter().any(|x| x.name == d.name) {
                    pool.push(d);
                }
            }
            struct IRow {
                data: Doc,
                index: Doc,
                gzi: Option<Doc>,
                cuts: Vec<usize>,
                full: Vec<String>,
                /// (rendering key, start offset of the first unit that holds the record, end offset of the last one)
                units: Vec<(String, usize, usize)>,
            }
            let key_of = |line: &str| -> String {
                // sequential eager lines: "rec[i]: bs=N <render>" / "rec[i]: n=N <render>" / "rec[i]: <render>"
                let body = line.split_once("]: ").map(|x| x.1).unwrap_or(line);
                let body = match body.split_once(' ') {
                    Some((a, b)) if a.starts_with("bs=") || a.starts_with("n=") => b,
                    _ => body,
                };
                body.trim_start().to_string()
            };
            // renderings of the i-th record of the complete file as the sequential eager and lazy readers give them
            // (a query yields the lazy record type for some formats)
            let seq_keys = |d: &Doc| -> Vec<Vec<String>> {
                let mut per: Vec<Vec<String>> = Vec::new();
                for api in [Api::Eager, Api::Lazy] {
                    let mut o = Opts::for_doc(d).api(api);
                    o.vpos = false;
                    let log = vnd::read_log(d.format, &d.bytes[..], &o);
                    let keys: Vec<String> = log.iter().filter(|l| l.starts_with("rec[")).map(|l| key_of(l)).collect();
                    if per.is_empty() {
                        per = keys.into_iter().map(|k| vec![k]).collect();
                    } else if keys.len() == per.len() {
                        for (p, k) in per.iter_mut().zip(keys) {
                            p.push(k);
                        }
                    }
                }
                per
            };
            let mut irows: Vec<IRow> = Vec::new();
            for d in pool.iter() {
                if d.big || d.raw || d.index_of.is_some() || d.name.starts_with("eng-") {
                    continue;
                }
                let text_kind = d.format == Format::Bgzf && d.set.ends_with(".gz");
                if !(text_kind || matches!(d.format, Format::Bam | Format::Bcf | Format::VcfGz | Format::SamGz | Format::Cram)) {
                    continue;
                }
                let Some(index) = pool.iter().find(|x| x.index_of.as_deref() == Some(d.name.as_str()) && !x.name.contains("n_no_coor")) else { continue };
                let gzi = pool.iter().find(|x| x.name == format!("gzi-of-{}", d.name)).cloned();
                let full = if d.set == "fasta.gz" {
                    match &gzi {
                        Some(g) => vnd::query::fasta_gz_query_log(&d.bytes, &index.bytes, &g.bytes),
                        None => continue,
                    }
                } else {
                    vnd::query::query_log(d.format, &d.set, &d.bytes, index.format, &index.bytes)
                };
                // record positions, in file order
                let mut units: Vec<(String, usize, usize)> = Vec::new();
                if d.format == Format::Cram {
                    let (_, cs) = vnd::walk::cram(&d.bytes);
                    let seq = seq_keys(d);
                    let mut it = seq.iter();
                    for c in cs.iter().skip(1) {
                        for _ in 0..c.n_records.max(0) {
                            if let Some(ks) = it.next() {
                                for k in ks {
                                    units.push((k.clone(), c.start, c.end));
                                }
                            }
                        }
                    }
                } else if let Some(inner) = &d.inner {
                    let member_of = |u: usize| -> (usize, usize) {
                        // file offsets (start, end) of the member holding uncompressed offset u
                        let m = inner.member_starts.partition_point(|&s| s <= u).saturating_sub(1);
                        let start = if m == 0 { 0 } else { d.item_ends[m - 1] };
                        (start, d.item_ends[m])
                    };
                    if matches!(d.format, Format::Bam | Format::Bcf) {
                        let seq = seq_keys(d);
                        let mut ustart = inner.header_end;
                        for (ks, &uend) in seq.iter().zip(inner.record_ends.iter()) {
                            for k in ks {
                                units.push((k.clone(), member_of(ustart).0, member_of(uend.saturating_sub(1)).1));
                            }
                            ustart = uend;
                        }
                    } else {
                        // text: one unit per line, keyed by the escaped line (IndexedReader records) and, for SAM.gz /
                        // VCF.gz, additionally by the rendering of the sequential read
                        let mut ls = 0usize;
                        let mut lines: Vec<(usize, usize)> = Vec::new();
                        for &le in inner.record_ends.iter() {
                            lines.push((ls, le));
                            ls = le;
                        }
                        let seq: Vec<Vec<String>> = if matches!(d.format, Format::SamGz | Format::VcfGz) { seq_keys(d) } else { Vec::new() };
                        let marker = match d.format {
                            Format::SamGz => b'@',
                            _ => b'#',
                        };
                        let mut ri = 0usize;
                        for &(a, b) in &lines {
                            let raw = &inner.bytes[a..b];
                            let t = raw.strip_suffix(b"\n").unwrap_or(raw);
                            let t = t.strip_suffix(b"\r").unwrap_or(t);
                            let (s0, e1) = (member_of(a).0, member_of(b.saturating_sub(1).max(a)).1);
                            units.push((format!("line={}", vnd::esc(t)), s0, e1));
                            if !t.is_empty() && t[0] != marker {
                                for k in seq.get(ri).into_iter().flatten() {
                                    units.push((k.clone(), s0, e1));
                                }
                                ri += 1;
                            }
                        }
                    }
                }
                irows.push(IRow { data: d.clone(), index: index.clone(), gzi, cuts: cuts(d), full, units });
            }
            let mut istarts = Vec::new();
            let mut itotal = 0u64;
            for r in &irows {
                istarts.push(itotal);
                itotal += r.cuts.len() as u64;
            }
            let (irows, istarts, distinct) = (&irows, &istarts, &distinct);
            let loc = |i: u64| {
                let r = istarts.partition_point(|&s| s <= i) - 1;
                (r, (i - istarts[r]) as usize)
            };
            // label -> (records, terminal)
            fn parse(log: &[String]) -> Vec<(String, Vec<String>, Option<String>)> {
                let mut out: Vec<(String, Vec<String>, Option<String>)> = Vec::new();
                for l in log {
                    let (label, rec, term) = if let Some(p) = l.find(" rec[") {
                        (l[..p].to_string(), l[p..].split_once("]: ").map(|x| x.1.trim_start().to_string()), None)
                    } else if let Some(p) = l.find(": done n=") {
                        (l[..p].to_string(), None, Some("done".to_string()))
                    } else if let Some(p) = l.find(": Err(") {
                        (l[..p].to_string(), None, Some(l[p + 2..].to_string()))
                    } else {
                        continue;
                    };
                    if out.last().map(|x| x.0 != label).unwrap_or(true) {
                        out.push((label.clone(), Vec::new(), None));
                    }
                    let e = out.last_mut().unwrap();
                    if let Some(r) = rec {
                        e.1.push(r);
                    }
                    if term.is_some() {
                        e.2 = term;
                    }
                }
                out
            }
            ctx.sweep(
                "indexed_cuts",
                itotal,
                |i| {
                    let (r, c) = loc(i);
                    format!("data={} index={} cut={} of {}", irows[r].data.name, irows[r].index.name, irows[r].cuts[c], irows[r].data.bytes.len())
                },
                |i| -> Outcome {
                    let (r, c) = loc(i);
                    let row = &irows[r];
                    let d = &row.data;
                    let k = row.cuts[c];
                    let fasta = d.set == "fasta.gz";
                    let got = if fasta {
                        vnd::query::fasta_gz_query_log(&d.bytes[..k], &row.index.bytes, &row.gzi.as_ref().unwrap().bytes)
                    } else {
                        vnd::query::query_log(d.format, &d.set, &d.bytes[..k], row.index.format, &row.index.bytes)
                    };
                    {
                        let mut h = std::collections::hash_map::DefaultHasher::new();
                        (&d.name, 3u8, &got).hash(&mut h);
                        distinct.lock().unwrap().insert(h.finish());
                    }
                    let fmt = if d.format == Format::Bgzf { d.set.clone() } else { d.format.name().to_string() };
                    let cls = if d.format == Format::Cram { unit_class(&d.item_ends, d.header_end, k, "container", 0, 0) } else { cut_class(d, k) };
                    let fp = |label: &str, symptom: &str| {
                        let kind = label.split(' ').take_while(|w| !w.contains(':') || w.len() < 2).collect::<Vec<_>>().join("-");
                        let kind = if label.starts_with("indexed query") { "indexed-query" } else if label.starts_with("query") { "query" } else if label.starts_with("fasta") { "fasta-query" } else { kind.as_str() };
                        format!("format={fmt} index={} layer=indexed-access op={kind} cut={cls} symptom={symptom}", row.index.format)
                    };
                    let decoded = |label: &str| {
                        format!(
                            "data={} ({} bytes) truncated to {k} bytes ({cls}), index of the complete file = {}{}; one reader: read_header, then the query sequence of vnd::query::query_log; failing query: {label}; data (hex): {}; index (hex): {}",
                            d.name,
                            d.bytes.len(),
                            row.index.name,
                            row.gzi.as_ref().map(|g| format!(" + {}", g.name)).unwrap_or_default(),
                            if d.bytes.len() <= 1600 { hex_full(&d.bytes) } else { vmc::hex(&d.bytes) },
                            hex_full(&row.index.bytes)
                        )
                    };
                    if let Some(l) = got.iter().find(|l| l.contains(vnd::NONTERM)) {
                        return Err(Violation::new(fp("query", "non-termination"), decoded("?"), "finitely many records", short(l)));
                    }
                    if k == d.bytes.len() {
                        if got != row.full {
                            return Err(Violation::new(fp("query", "complete-file-differs"), decoded("?"), "the complete answer", "a different log"));
                        }
                        return Ok(());
                    }
                    if fasta {
                        for (a, b) in row.full.iter().zip(got.iter()) {
                            if a != b && !b.contains(": Err(") && !b.starts_with("end: Err(") {
                                let label = a.split(": ").next().unwrap_or("fasta");
                                let symptom = if b.len() < a.len() && a.starts_with(b.split("seq#").next().unwrap_or("?")) { "short-sequence-no-error" } else { "altered-sequence" };
                                return Err(Violation::new(fp(label, symptom), decoded(label), short(a), short(b)));
                            }
                        }
                        return Ok(());
                    }
                    let full = parse(&row.full);
                    let cut = parse(&got);
                    for (label, recs, term) in &cut {
                        if label == "header" {
                            continue;
                        }
                        let Some((_, frecs, fterm)) = full.iter().find(|x| &x.0 == label) else { continue };
                        for (j, rline) in recs.iter().enumerate() {
                            match frecs.get(j) {
                                Some(f) if f == rline => {}
                                Some(f) => {
                                    // the S8 family of the sequential sweep (a bgzipped text cut at a member boundary
                                    // inside a line: the partial last line parses) keeps its symptom word
                                    let s8 = j + 1 == recs.len() && !matches!(d.format, Format::Bam | Format::Bcf | Format::Cram) && (cls == "block-boundary" || cls == "in-block-header");
                                    let symptom = if s8 { "altered-last-rec" } else { "altered-or-reordered-record" };
                                    return Err(Violation::new(fp(label, symptom), decoded(label), format!("record {j}: {}", short(f)), format!("record {j}: {}", short(rline))));
                                }
                                None => return Err(Violation::new(fp(label, "fabricated-record"), decoded(label), format!("{} records", frecs.len()), format!("record {j}: {}", short(rline)))),
                            }
                        }
                        let ended_err = matches!(term, Some(t) if t != "done");
                        if recs.len() < frecs.len() && !ended_err && matches!(fterm, Some(t) if t == "done") {
                            // clean end of a shorter answer: acceptable only if the first missing record is not there
                            let missing = &frecs[recs.len()];
                            let key = missing.as_str();
                            let find_unit = |key: &str| row.units.iter().find(|u| u.0 == key || (u.0.len() > key.len() && u.0.starts_with(key) && u.0.as_bytes()[key.len()] == b' ') || (key.contains(" line=") && key.ends_with(&u.0) && u.0.starts_with("line=")));
                            let mut unit = find_unit(key);
                            if unit.is_none() {
                                // gff.gz / gtf.gz format-level queries: the n-th record of `query R` is the n-th line of
                                // `indexed query R` (same index, same region, same filter)
                                if let Some((_, irecs, _)) = full.iter().find(|x| x.0 == format!("indexed {label}")) {
                                    if irecs.len() == frecs.len() {
                                        unit = find_unit(&irecs[recs.len()]);
                                    }
                                }
                            }
                            let Some((_, ustart, uend)) = unit else {
                                eprintln!("C13 indexed_cuts: cannot locate {} ({label}): {}", d.name, short(key));
                                vmc::machinery(format!("C13 indexed_cuts: cannot locate a record of the complete answer in {} ({label}): {}", d.name, short(key)));
                            };
                            let absent = *ustart >= k || (d.format != Format::Cram && k - *ustart < 18);
                            if !absent {
                                let symptom = if *uend <= k { "clean-end-drops-available-record" } else { "clean-end-inside-partial-unit" };
                                return Err(Violation::new(
                                    fp(label, symptom),
                                    decoded(label),
                                    format!("{} records, or the first {} followed by Err (the next record's {} occupies file bytes {}..{})", frecs.len(), recs.len(), if d.format == Format::Cram { "container" } else { "BGZF member(s)" }, ustart, uend),
                                    format!("{} records, then a clean end", recs.len()),
                                ));
                            }
                        }
                    }
                    Ok(())
                },
            );
        }

        let n = distinct.lock().unwrap().len() as u64;
        ctx.add_distinct(n, n);
        ctx.extra("big_documents_cut_subset", vmc::json!(big_cut_counts));
        ctx.extra("documents_in_scope", vmc::json!(docs.iter().filter(|d| in_scope(d.format) || d.format == Format::Bgzf).map(|d| format!("{} ({} bytes)", d.name, d.bytes.len())).collect::<Vec<_>>()));
    });
}

fn outcome_name(r: &Result<(), Option<std::io::Error>>) -> String {
    match r {
        Ok(()) => "Ok(0)".into(),
        Err(Some(e)) => format!("Err({:?})", e.kind()),
        Err(None) => "no end within the call cap".into(),
    }
}

fn strip_n_no_coor(line: &str) -> String {
    // "index: … n_no_coor=Some(2) last_first=…" -> n_no_coor=None
    match (line.find("n_no_coor="), line.find(" last_first=")) {
        (Some(a), Some(b)) if a < b => format!("{}n_no_coor=None{}", &line[..a], &line[b..]),
        _ => line.to_string(),
    }
}

/// End (uncompressed offset) of the text header of a bgzipped SAM / VCF document.
fn text_header_end(d: &Doc) -> usize {
    let inner = d.inner.as_ref().unwrap();
    let marker = if d.format == Format::SamGz { b'@' } else { b'#' };
    let mut p = 0;
    while p < inner.bytes.len() && inner.bytes[p] == marker {
        p += inner.bytes[p..].iter().position(|&c| c == b'\n').map(|n| n + 1).unwrap_or(inner.bytes.len() - p);
    }
    p
}

fn last_data_member_end(d: &Doc) -> usize {
    let inner = d.inner.as_ref().unwrap();
    // member i holds data iff its uncompressed start differs from the next one's
    let mut end = 0;
    for (i, &e) in d.item_ends.iter().enumerate() {
        let s = inner.member_starts[i];
        let next = inner.member_starts.get(i + 1).copied().unwrap_or(inner.bytes.len());
        if next > s {
            end = e;
        }
    }
    end
}

/// Number of payload bytes held by the members that lie completely within the first `k` file bytes.
fn members_within(d: &Doc, k: usize) -> usize {
    let inner = d.inner.as_ref().unwrap();
    let n = d.item_ends.partition_point(|&e| e <= k);
    if n == 0 {
        0
    } else {
        inner.member_starts.get(n).copied().unwrap_or(inner.bytes.len())
    }
}

/// True if the bytes after the agreeing prefix are a copy of the block delivered before them.
fn repeats_previous(d: &Doc, data: &[u8], common: usize) -> bool {
    let inner = d.inner.as_ref().unwrap();
    let i = inner.member_starts.partition_point(|&s| s <= common.saturating_sub(1));
    if i == 0 {
        return false;
    }
    let s = inner.member_starts[i - 1];
    let e = inner.member_starts.get(i).copied().unwrap_or(inner.bytes.len());
    let prev = &inner.bytes[s..e];
    let extra = &data[common..];
    // the surplus starts somewhere in a copy of prev
    !prev.is_empty() && !extra.is_empty() && {
        let off = common - s;
        extra.iter().enumerate().take(64).all(|(j, &b)| b == prev[(off + j) % prev.len()]) || extra.iter().enumerate().take(64).all(|(j, &b)| b == prev[j % prev.len()])
    }
}
