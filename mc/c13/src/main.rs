fn main() {
    println!("MACHINERY-ERROR property=C13 check not built yet");
    std::process::exit(2);
}
