//! C05 — BAM record encode/decode are inverse; values that do not fit are rejected; the stored core
//! fields (incl. `bin`) are what SAMv1 prescribes; lazy `bam::Record` accessors ≡ eager `RecordBuf`.
//!
//! E1, k-deviation: every record within k field deviations of four base records, over the grammar
//! of DESIGN.md §4 C05 (`gsam::gen`), with/without reference dictionary, as a single-record raw BAM
//! stream and as the middle record of a three-record BGZF file.
//!
//! Oracles (all written here / in `gsam`, none calls a second noodles function as reference):
//!   * the input value itself (model `GRec`), after the normalisation SAMv1 §4.2.3 prescribes;
//!   * a record-level expectation model (`gsam::spec::expect_bam`): accept / reject / either;
//!   * an independent raw BAM parser and decoder incl. the `CG` convention (`gsam::rawbam`) and the
//!     spec's `reg2bin` C code;
//!   * lazy accessors compared with the eager decode of the same bytes.

use gsam::{
    Expect, GRec,
    conv::{build_record, dedup_aux, view_buf, view_lazy},
    r#gen::{Alphabet, Base, bases, gen_record, neighbours},
    io::{Container, bam_payload, read_bam_eager, read_bam_lazy, std_gheader, std_header, write_bam},
    model::diff,
    rawbam::{self, reg2bin},
    reuse::{self, Fmt},
    spec::{expect_bam, norm_bam},
};
use noodles_sam::{self as sam, alignment::RecordBuf};
use vmc::{Chooser, Config, Outcome, Violation};

#[derive(Clone, Copy, Debug, PartialEq)]
enum FileShape {
    /// one record, `bam::io::Writer::from` (no BGZF layer)
    Raw1,
    /// three records (fixed, generated, fixed), `bam::io::Writer::new` + `try_finish`
    Bgzf3,
    /// three records, no BGZF layer
    Raw3,
}

struct Cfg {
    alphabet: Alphabet,
    bases: Vec<Base>,
    dicts: Vec<usize>,
    files: Vec<FileShape>,
    /// the file shape is enumerated completely (thorough) or costs one deviation (quick)
    files_free: bool,
    headers: Vec<sam::Header>, // indexed by n_ref
}

fn shape_of(g: &GRec) -> &'static str {
    if g.cigar.len() > 65535 {
        "ops>65535"
    } else if g.cigar.len() == 65535 {
        "ops=65535"
    } else if g.seq.len() >= 65536 {
        "seq>=65536"
    } else {
        "small"
    }
}

fn fold_in_place(g: &mut GRec) -> bool {
    let mut changed = false;
    for b in &mut g.seq {
        let f = gsam::spec::fold_base_bam(*b);
        changed |= f != *b;
        *b = f;
    }
    changed
}

fn paste(g: &GRec, n_ref: usize, file: FileShape) -> String {
    format!(
        "header: {} reference(s); file: {file:?}; record: {}",
        n_ref,
        g.render()
    )
}

fn body(ch: &Chooser, cfg: &Cfg) -> Outcome {
    let base = ch.pick_free("base", &cfg.bases);
    let n_ref = *ch.pick_free("dict", &cfg.dicts);
    let file = if cfg.files_free { *ch.pick_free("file", &cfg.files) } else { *ch.pick("file", &cfg.files) };
    let generated = gen_record(ch, &cfg.alphabet, base, n_ref);
    let g = &generated.rec;
    let shape = shape_of(g);
    let describe = || paste(g, n_ref, file);
    ch.desc(|| format!("base={} {}", base.label, describe()));
    let v = |stage: &str, field: &str, symptom: &str, expected: String, observed: String| {
        Err(Violation::new(
            format!("stage={stage} field={field} shape={shape} symptom={symptom}"),
            describe(),
            expected,
            observed,
        ))
    };

    let header = &cfg.headers[n_ref];

    // the value handed to the writer
    let input = build_record(g);
    let mut want = g.clone();
    want.aux = dedup_aux(&g.aux);
    {
        let built = view_buf(&input);
        if built != want {
            vmc::machinery(format!("harness model and built RecordBuf disagree: {:?}", diff(&want, &built)));
        }
    }
    // the expectation is about the value actually handed over (one field per tag)
    let expect = expect_bam(&want, n_ref);
    // SAMv1 §4.2.3: the only normalisation BAM prescribes
    let folded = fold_in_place(&mut want);

    let (na, nb) = neighbours(n_ref);
    let (ra, rb) = (build_record(&na), build_record(&nb));
    let (recs, ix): (Vec<&dyn sam::alignment::Record>, usize) = match file {
        FileShape::Raw1 => (vec![&input], 0),
        FileShape::Bgzf3 | FileShape::Raw3 => (vec![&ra, &input, &rb], 1),
    };
    let (na, nb) = (norm_bam(&na), norm_bam(&nb));
    let models: Vec<&GRec> = match file {
        FileShape::Raw1 => vec![&want],
        _ => vec![&na, &want, &nb],
    };
    let container = if file == FileShape::Bgzf3 { Container::Bgzf } else { Container::Raw };

    // ---- write ---------------------------------------------------------------------------------
    let bytes = match write_bam(header, &recs, container) {
        Err(e) => {
            if e.record != Some(ix) {
                return v("write", "framing", "neighbour-or-header-rejected", "Ok".into(), format!("{}: {}", e.step, e.err));
            }
            ch.obs(b"rejected");
            ch.obs(expect.why());
            return match expect {
                Expect::Accept => v(
                    "write",
                    "record",
                    "valid-record-rejected",
                    "Ok (every field is valid and fits its BAM field)".into(),
                    format!("Err({})", e.err),
                ),
                _ => {
                    ch.tag(match expect {
                        Expect::Reject(_) => "rejected(does-not-fit)",
                        Expect::Either(_) => "rejected(outside-data-model)",
                        _ => "rejected(ambiguous)",
                    });
                    Ok(())
                }
            };
        }
        Ok(b) => b,
    };
    if let Expect::Reject(why) = expect {
        return Err(Violation::new(
            format!("stage=write field={why} symptom=accepted-value-that-does-not-fit"),
            describe(),
            format!("Err ({why})"),
            format!("Ok, {} bytes written", bytes.len()),
        ));
    }
    let judged = !matches!(expect, Expect::Ambiguous(_));
    if let Expect::Either(why) = expect {
        ch.tag("accepted(outside-data-model)");
        ch.tag(why);
    }

    // ---- raw parse of what is on the wire --------------------------------------------------------
    let payload = match bam_payload(&bytes, container) {
        Ok(p) => p,
        Err(e) => return v("raw", "bgzf", "container-malformed", "well-formed BGZF".into(), e),
    };
    let (rh, raws) = match rawbam::parse_stream(&payload) {
        Ok(x) => x,
        Err(e) => return v("raw", "layout", "stream-malformed", "magic, header, references, length-prefixed records".into(), e),
    };
    if raws.len() != recs.len() {
        return v("raw", "layout", "record-count", format!("{} records", recs.len()), format!("{} records", raws.len()));
    }
    {
        let want_refs: Vec<(Vec<u8>, i32)> = std_gheader(n_ref).refs().into_iter().map(|(n, l)| (n, l as i32)).collect();
        if rh.refs != want_refs {
            return v("raw", "references", "dictionary-differs", format!("{want_refs:?}"), format!("{:?}", rh.refs));
        }
    }
    let raw = &raws[ix];
    if judged {
        let name_len = g.name.as_ref().map(|n| n.len()).unwrap_or(1) + 1;
        if raw.l_read_name as usize != name_len {
            return v("raw", "l_read_name", "core-field-differs", format!("{name_len}"), format!("{}", raw.l_read_name));
        }
        if raw.l_seq as usize != g.seq.len() {
            return v("raw", "l_seq", "core-field-differs", format!("{}", g.seq.len()), format!("{}", raw.l_seq));
        }
        let nops = g.cigar.len();
        if nops <= 65535 {
            if raw.n_cigar_op as usize != nops {
                return v("raw", "n_cigar_op", "core-field-differs", format!("{nops}"), format!("{}", raw.n_cigar_op));
            }
            if raw.aux.iter().any(|(t, _)| t == b"CG") {
                return v("raw", "aux-CG", "unexpected-CG", "no CG tag (n_cigar_op fits)".into(), "CG present".into());
            }
        } else {
            // SAMv1 §4.2.2: placeholder kSmN and the real CIGAR in CG:B,I
            let ph = [((g.seq.len() as u32) << 4) | 4, ((g.ref_span() as u32) << 4) | 3];
            if raw.n_cigar_op != 2 || raw.cigar != ph {
                return v(
                    "raw",
                    "cigar-placeholder",
                    "core-field-differs",
                    format!("n_cigar_op=2, ops {}S{}N", g.seq.len(), g.ref_span()),
                    format!("n_cigar_op={}, raw ops {:x?}", raw.n_cigar_op, &raw.cigar[..raw.cigar.len().min(4)]),
                );
            }
            let enc: Vec<u32> = g.cigar.iter().map(|(k, l)| ((*l as u32) << 4) | *k as u32).collect();
            let cgs: Vec<_> = raw.aux.iter().filter(|(t, _)| t == b"CG").collect();
            if cgs.len() != 1 || cgs[0].1 != gsam::GVal::BU32(enc) {
                return v(
                    "raw",
                    "aux-CG",
                    "core-field-differs",
                    format!("exactly one CG:B,I with the {nops} encoded ops"),
                    format!("{} CG field(s): {:?}", cgs.len(), cgs.first().map(|x| x.1.render())),
                );
            }
            ch.tag("wire: kSmN placeholder + CG:B,I");
        }
        // bin (SAMv1 §4.2.1 + §5.3)
        match g.pos {
            None => {
                if raw.bin != 4680 {
                    return v("raw", "bin", "core-field-differs", "4680 = reg2bin(-1, 0)".into(), format!("{}", raw.bin));
                }
            }
            Some(p) => {
                let beg = p as i64 - 1;
                let span = g.ref_span().max(1) as i64;
                if beg + span <= 1 << 29 {
                    let by_cigar = reg2bin(beg, beg + span);
                    let len_one = reg2bin(beg, beg + 1);
                    // an unmapped read (0x4) is "treated as being length one" by the spec; a CIGAR on
                    // such a read is outside what the statement fixes, so both readings are accepted
                    let ok = raw.bin as i64 == by_cigar || (g.flags & 4 != 0 && raw.bin as i64 == len_one);
                    if !ok {
                        return v(
                            "raw",
                            "bin",
                            "core-field-differs",
                            format!("reg2bin({beg}, {}) = {by_cigar}", beg + span),
                            format!("{}", raw.bin),
                        );
                    }
                    ch.tag("bin checked against reg2bin");
                }
            }
        }
        // independent decode of the wire bytes (incl. CG convention) equals the input
        for (i, (r, m)) in raws.iter().zip(&models).enumerate() {
            match r.decode() {
                Err(e) => return v("raw", "record", "not-decodable-by-spec", "a record decodable as SAMv1 §4.2 says".into(), e),
                Ok((d, used_cg)) => {
                    if let Some((f, a, b)) = diff(m, &d) {
                        let stage = if i == ix { "raw" } else { "raw-neighbour" };
                        return v(stage, &f, "wire-value-differs", a, b);
                    }
                    if i == ix && used_cg != (nops > 65535) {
                        return v("raw", "cigar", "cg-convention-misapplied", format!("{}", nops > 65535), format!("{used_cg}"));
                    }
                }
            }
        }
    }

    // ---- eager read ------------------------------------------------------------------------------
    let (h2, bufs) = match read_bam_eager(&bytes, container) {
        Ok(x) => x,
        Err(e) => {
            if !judged {
                return Ok(());
            }
            return v("read", "record", "own-output-unreadable", "Ok".into(), format!("Err({e})"));
        }
    };
    if bufs.len() != recs.len() {
        return v("read", "layout", "record-count", format!("{}", recs.len()), format!("{}", bufs.len()));
    }
    if h2.reference_sequences().len() != n_ref {
        return v("read", "references", "dictionary-differs", format!("{n_ref}"), format!("{}", h2.reference_sequences().len()));
    }
    let eager: Vec<GRec> = bufs.iter().map(view_buf).collect();
    if judged {
        for (i, (e, m)) in eager.iter().zip(&models).enumerate() {
            if let Some((f, a, b)) = diff(m, e) {
                let stage = if i == ix { "read" } else { "read-neighbour" };
                return v(stage, &f, "value-differs", a, b);
            }
        }
    }

    // ---- the same bytes read into one reused, pre-dirtied RecordBuf ---------------------------------
    // (nothing of the buffer's earlier content or of the previous record may survive)
    match reuse::read_reused_dirty(Fmt::Bam(container), &bytes) {
        Err(e) => return v("read-reused", "record", "own-output-unreadable", "Ok".into(), format!("Err({e})")),
        Ok(got) => {
            if got.len() != eager.len() {
                return v("read-reused", "layout", "record-count", eager.len().to_string(), got.len().to_string());
            }
            for (i, (f, r)) in eager.iter().zip(&got).enumerate() {
                if let Some((fld, a, b)) = diff(f, r) {
                    let stage = if i == ix { "read-reused" } else { "read-reused-neighbour" };
                    return v(stage, &fld, "reused-buffer-differs-from-fresh", format!("fresh: {a}"), format!("reused: {b}"));
                }
            }
        }
    }

    // ---- lazy ≡ eager ----------------------------------------------------------------------------
    let (h3, lazies) = match read_bam_lazy(&bytes, container) {
        Ok(x) => x,
        Err(e) => return v("lazy", "record", "read_record-error", "Ok".into(), format!("Err({e})")),
    };
    if lazies.len() != bufs.len() {
        return v("lazy", "layout", "record-count", format!("{}", bufs.len()), format!("{}", lazies.len()));
    }
    let lz = &lazies[ix];
    let eg = &eager[ix];
    // A difference confined to the aux list is reported only after the remaining lazy checks ran
    // (so that a known aux finding does not hide e.g. a wrong alignment_end on the same record).
    let mut deferred: Option<Violation> = None;
    match view_lazy(lz, &h3) {
        Err((f, m)) => return v("lazy", &f, "accessor-error", "the eagerly decoded value".into(), m),
        Ok(l) => {
            if let Some((f, a, b)) = diff(eg, &l) {
                let x = v("lazy", &f, "lazy-differs-from-eager", format!("eager: {a}"), format!("lazy: {b}"));
                if f.starts_with("aux") {
                    deferred = x.err();
                } else {
                    return x;
                }
            }
        }
    }
    {
        // derived accessor: alignment_end (trait default over the lazy views) vs eager vs model
        use sam::alignment::Record as _;
        let le = lz.alignment_end().transpose().map(|p| p.map(|p| usize::from(p) as u64));
        let ee = bufs[ix].alignment_end().map(|p| usize::from(p) as u64);
        match le {
            Err(e) => return v("lazy", "alignment_end", "accessor-error", format!("{ee:?}"), e.to_string()),
            Ok(le) => {
                if le != ee {
                    return v("lazy", "alignment_end", "lazy-differs-from-eager", format!("eager: {ee:?}"), format!("lazy: {le:?}"));
                }
                if judged && le != g.end() {
                    return v("read", "alignment_end", "value-differs", format!("{:?}", g.end()), format!("{le:?}"));
                }
            }
        }
        // inherent accessors that the trait does not cover
        if lz.cigar().len() != eg.cigar.len() || lz.sequence().len() != eg.seq.len() || lz.quality_scores().len() != eg.qual.len() {
            return v(
                "lazy",
                "lengths",
                "lazy-differs-from-eager",
                format!("cigar {} seq {} qual {}", eg.cigar.len(), eg.seq.len(), eg.qual.len()),
                format!("cigar {} seq {} qual {}", lz.cigar().len(), lz.sequence().len(), lz.quality_scores().len()),
            );
        }
    }
    // lazy → RecordBuf conversion is the documented bridge between the two representations
    match RecordBuf::try_from_alignment_record(&h3, lz) {
        Err(e) => return v("lazy-convert", "record", "conversion-error", "Ok".into(), e.to_string()),
        Ok(c) => {
            if let Some((f, a, b)) = diff(eg, &view_buf(&c)) {
                let x = v("lazy-convert", &f, "lazy-differs-from-eager", format!("eager: {a}"), format!("converted: {b}"));
                if f.starts_with("aux") {
                    deferred = deferred.or(x.err());
                } else {
                    return x;
                }
            }
        }
    }

    // ---- observations ------------------------------------------------------------------------------
    ch.obs(b"accepted");
    if shape == "small" {
        ch.obs_hash((&raw.bin, raw.n_cigar_op, raw.l_seq, raw.l_read_name, raw.block_size, &eager[ix]));
    } else {
        // long records: the (already compared) bulk is summarised by its lengths
        let e = &eager[ix];
        ch.obs_hash((&raw.bin, raw.n_cigar_op, raw.l_seq, raw.l_read_name, raw.block_size));
        ch.obs_hash((&e.name, e.flags, e.rid, e.pos, e.mapq, e.cigar.len(), e.mrid, e.mpos, e.tlen, e.seq.len(), e.qual.len(), &e.aux));
    }
    match shape {
        "ops>65535" => ch.tag("record: >65535 CIGAR ops round-tripped"),
        "ops=65535" => ch.tag("record: exactly 65535 CIGAR ops"),
        "seq>=65536" => ch.tag("record: >=65536 bases"),
        _ => {}
    }
    if g.cigar.len() == 2 && g.cigar[0] == (4, g.seq.len() as u64) && g.cigar[1].0 == 3 {
        ch.tag("record: literal kSmN CIGAR without CG");
    }
    if g.seq.len() % 2 == 1 {
        ch.tag("record: odd sequence length");
    }
    if folded {
        ch.tag("record: bases folded by the BAM alphabet");
    }
    if g.name.as_ref().is_some_and(|n| n.len() == 254) {
        ch.tag("record: 254-byte name");
    }
    if n_ref == 0 {
        ch.tag("header: no reference dictionary");
    }
    ch.steps(recs.len() as u64 * 3);
    match deferred {
        Some(x) => Err(x),
        None => Ok(()),
    }
}

/// Ordered pairs and triples of records that differ in which optional fields are present, written as
/// one file and read through every reader entry point (see `gsam::reuse`).
fn reuse_body(ch: &Chooser, set: &[(&'static str, GRec)], header: &sam::Header, containers: &[Container]) -> Outcome {
    const POS: [&str; 3] = ["first", "second", "third"];
    let container = *ch.pick_free("container", containers);
    let len = *ch.pick_free("length", &[2usize, 3]);
    let idx: Vec<usize> = (0..len).map(|i| ch.free(POS[i], set.len())).collect();
    let seq: Vec<&GRec> = idx.iter().map(|&i| &set[i].1).collect();
    let labels: Vec<&str> = idx.iter().map(|&i| set[i].0).collect();
    let describe = || {
        let recs: Vec<String> = seq.iter().map(|g| g.render()).collect();
        format!("3 references; {container:?} BAM file of records [{}]: {}", labels.join(", "), recs.join(" | "))
    };
    ch.desc(|| describe());
    match reuse::check_sequence(Fmt::Bam(container), header, &seq) {
        Ok(n) => {
            ch.obs_hash(n); // file length: an output, not the choice vector
            ch.steps(len as u64 * 8);
            Ok(())
        }
        Err(m) => Err(Violation::new(
            format!("stage=reuse reader={} field={} symptom=record-differs-from-its-expectation", m.reader, m.field),
            describe(),
            format!("record {} ({}): {}", m.index, labels.get(m.index).copied().unwrap_or("?"), m.expected),
            m.observed,
        )),
    }
}

/// Every sequence of up to three `write_alignment_record` calls on ONE writer over accepted records and
/// one record per rejection reason (see `gsam::wseq`): rejected writes return `Err` and leave nothing
/// behind; the file holds exactly the accepted records.
fn wseq_body(ch: &Chooser, ops: &[(&'static str, GRec)], header: &sam::Header, fmts: &[Fmt]) -> Outcome {
    const POS: [&str; 3] = ["op1", "op2", "op3"];
    let fmt = *ch.pick_free("target", fmts);
    let mut idx = Vec::new();
    for p in POS {
        let k = ch.free(p, ops.len() + 1);
        if k == 0 {
            break;
        }
        idx.push(k - 1);
    }
    let seq: Vec<&GRec> = idx.iter().map(|&i| &ops[i].1).collect();
    let labels: Vec<&str> = idx.iter().map(|&i| ops[i].0).collect();
    let describe = || {
        let recs: Vec<String> = seq.iter().map(|g| g.render()).collect();
        format!("3 references; one {fmt:?} writer; write_alignment_record x [{}]: {}", labels.join(", "), recs.join(" | "))
    };
    ch.desc(|| describe());
    match gsam::wseq::check_ops(fmt, header, 3, &seq) {
        Ok(o) => {
            ch.obs_hash(&o);
            if o.accepted.windows(2).any(|w| !w[0] && w[1]) {
                ch.tag("writer: accepted write directly after a rejected one");
            }
            ch.steps(idx.len() as u64 + 9);
            Ok(())
        }
        Err(f) => Err(Violation::new(
            format!("stage=writer-seq format={} what={} field={} after-reject={}", FMT_NAME(fmt), f.what, f.field, f.after_reject),
            describe(),
            f.expected,
            f.observed,
        )),
    }
}

#[allow(non_snake_case)]
fn FMT_NAME(f: Fmt) -> &'static str {
    match f {
        Fmt::Sam => "sam",
        Fmt::Bam(Container::Raw) => "bam-raw",
        Fmt::Bam(Container::Bgzf) => "bam-bgzf",
    }
}

/// Lazy records re-written through the three entry points (see `gsam::lazyrw`).
fn lazy_rewrite_body(ch: &Chooser, cfg: &LazyRw) -> Outcome {
    use gsam::lazyrw::{self, Source};
    let source = *ch.pick_free("source", &[Source::Own, Source::BinZero, Source::BinWrong, Source::AuxOrder]);
    let (n_dst, dst) = ch.pick_free("destination", &cfg.dsts);
    let recs = if source == Source::AuxOrder { &cfg.order_recs } else { &cfg.recs };
    let i = ch.free("record", recs.len());
    let (label, want) = &recs[i];
    let shape = shape_of(want);
    let describe = || {
        format!(
            "source: raw BAM with 5 references, {}; record `{label}`: {}; read with Reader::read_record; destination header with {n_dst} references",
            source.name(),
            want.render()
        )
    };
    ch.desc(|| describe());
    let lazies = &cfg.lazies[match source {
        Source::Own => 0,
        Source::BinZero => 1,
        Source::BinWrong => 2,
        Source::AuxOrder => 3,
    }];
    // hand-ordered aux fields: compared as a tag -> value map (resolving CG may reorder fields)
    match lazyrw::check_one_with(&lazies[i], want, dst, *n_dst, source == Source::AuxOrder) {
        Ok(n) => {
            ch.obs_hash((n, i, *n_dst));
            if n == 0 {
                ch.tag("lazy-rewrite: rejected by all three entry points (reference id beyond the destination header)");
            }
            ch.steps(3);
            Ok(())
        }
        Err(f) => Err(Violation::new(
            format!(
                "stage=lazy-rewrite source={} {} field={} shape={shape}",
                // what a single entry point writes for a record does not depend on where the record came from
                if f.what.contains("output-differs-from-record") {
                    "any"
                } else if source == Source::Own {
                    "own"
                } else {
                    "foreign"
                },
                f.what.replace(' ', "_").replace("_symptom=", " symptom="),
                f.field
            ),
            describe(),
            f.expected,
            f.observed,
        )),
    }
}

struct LazyRw {
    recs: Vec<(&'static str, GRec)>,
    /// the hand-built > 65535-op records whose CG field is first / in the middle / last
    order_recs: Vec<(&'static str, GRec)>,
    /// lazily read records per source variant (own, bin=0, bin stale, aux order)
    lazies: Vec<Vec<noodles_bam::Record>>,
    dsts: Vec<(usize, sam::Header)>,
}

fn lazy_rw_setup() -> LazyRw {
    use gsam::lazyrw::{self, Source};
    let recs = lazyrw::source_records(true);
    let (_, h5) = lazyrw::header_with_refs(5);
    let models: Vec<GRec> = recs.iter().map(|x| x.1.clone()).collect();
    let mut lazies: Vec<Vec<noodles_bam::Record>> = [Source::Own, Source::BinZero, Source::BinWrong]
        .into_iter()
        .map(|s| {
            let bytes = lazyrw::source_file(&h5, &models, s).unwrap_or_else(|e| vmc::machinery(format!("lazy-rewrite source file: {e}")));
            lazyrw::read_lazy(&bytes).unwrap_or_else(|e| vmc::machinery(format!("lazy-rewrite read_record: {e}")))
        })
        .collect();
    let (obytes, order_recs) = lazyrw::aux_order_file(&h5).unwrap_or_else(|e| vmc::machinery(format!("lazy-rewrite aux-order file: {e}")));
    lazies.push(lazyrw::read_lazy(&obytes).unwrap_or_else(|e| vmc::machinery(format!("lazy-rewrite aux-order read_record: {e}"))));
    let dsts = [5usize, 3, 0].into_iter().map(|n| (n, lazyrw::header_with_refs(n).1)).collect();
    LazyRw { recs, order_recs, lazies, dsts }
}

/// Lazy sequence views: `Sequence::{len, is_empty, get, iter (both ends, size_hint), split_at_checked}` and
/// the two `Subsequence`s of every split, for every length 0..=8 and every split point.
fn lazy_sequence_body(ch: &Chooser) -> Outcome {
    use sam::alignment::io::Write as _;
    let len = ch.free("length", 9);
    let mid = ch.free("mid", len + 1);
    let letters = *ch.pick_free("letters", &[&b"ACGTMRWS"[..], &b"=NNA=CCB"[..]]);
    let bases: Vec<u8> = letters[..len].to_vec();
    let describe = || format!("record with SEQ \"{}\" ({len} bases) read lazily; sequence().split_at_checked({mid})", String::from_utf8_lossy(&bases));
    ch.desc(|| describe());
    let v = |accessor: &str, side: &str, e: String, o: String| -> Outcome {
        Err(Violation::new(
            format!("stage=lazy-sequence accessor={accessor} view={} symptom=differs-from-bases", if side == "whole" { "sequence" } else { "subsequence" }),
            describe(),
            format!("{side}: {e}"),
            o,
        ))
    };
    let header = sam::Header::default();
    let g = GRec { seq: bases.clone(), ..GRec::unmapped() };
    let mut w = noodles_bam::io::Writer::from(Vec::new());
    let io = |e: std::io::Error| vmc::machinery(format!("lazy-sequence harness: {e}"));
    w.write_header(&header).unwrap_or_else(io);
    w.write_alignment_record(&header, &build_record(&g)).unwrap_or_else(io);
    let bytes = w.into_inner();
    let mut r = noodles_bam::io::Reader::from(&bytes[..]);
    r.read_header().map(|_| ()).unwrap_or_else(io);
    let mut lazy = noodles_bam::Record::default();
    r.read_record(&mut lazy).map(|_| ()).unwrap_or_else(io);
    let seq = lazy.sequence();
    let s = |b: &[u8]| format!("\"{}\"", String::from_utf8_lossy(b));
    // the whole sequence
    let fwd: Vec<u8> = seq.iter().collect();
    if fwd != bases {
        return v("iter", "whole", s(&bases), s(&fwd));
    }
    let mut back: Vec<u8> = seq.iter().rev().collect();
    back.reverse();
    if back != bases {
        return v("iter().rev()", "whole", s(&bases), s(&back));
    }
    {
        // alternate ends
        let mut it = seq.iter();
        let (mut f, mut b) = (Vec::new(), Vec::new());
        loop {
            if it.size_hint() != (len - f.len() - b.len(), Some(len - f.len() - b.len())) {
                return v("size_hint", "whole", format!("{}", len - f.len() - b.len()), format!("{:?}", it.size_hint()));
            }
            match it.next() {
                Some(x) => f.push(x),
                None => break,
            }
            match it.next_back() {
                Some(x) => b.push(x),
                None => break,
            }
            if f.len() + b.len() > 32 {
                break;
            }
        }
        b.reverse();
        f.extend(b);
        if f != bases {
            return v("iter-both-ends", "whole", s(&bases), s(&f));
        }
    }
    if seq.len() != len || seq.is_empty() != (len == 0) || seq.get(len).is_some() {
        return v("len", "whole", format!("{len}"), format!("len {} is_empty {} get(len) {:?}", seq.len(), seq.is_empty(), seq.get(len)));
    }
    if seq.split_at_checked(len + 1).is_some() {
        return v("split_at_checked", "whole", "None beyond the length".into(), "Some".into());
    }
    // the two halves
    let Some((l, rgt)) = seq.split_at_checked(mid) else {
        return v("split_at_checked", "whole", "Some".into(), "None".into());
    };
    for (side, sub, want) in [("left", &l, &bases[..mid]), ("right", &rgt, &bases[mid..])] {
        if sub.len() != want.len() || sub.is_empty() != want.is_empty() {
            return v("len", side, format!("{}", want.len()), format!("len {} is_empty {}", sub.len(), sub.is_empty()));
        }
        let got: Vec<u8> = (0..sub.len()).map(|i| sub.get(i).unwrap_or(b'?')).collect();
        if got != want || sub.get(want.len()).is_some() {
            return v("get", side, s(want), s(&got));
        }
        let got: Vec<u8> = sub.iter().take(64).collect();
        if got != want {
            return v("iter", side, s(want), s(&got));
        }
        let got: Vec<u8> = sam::alignment::record::Sequence::iter(sub).take(64).collect();
        if got != want {
            return v("trait-iter", side, s(want), s(&got));
        }
    }
    ch.obs_hash((&bases, mid));
    ch.steps(8);
    Ok(())
}

fn main() {
    // The heavy alphabet entries allocate and free ~1 MiB vectors tens of thousands of times; keep
    // that memory in the heap instead of paying an mmap/munmap + page-fault round per vector.
    unsafe {
        libc::mallopt(libc::M_MMAP_THRESHOLD, 32 << 20);
        libc::mallopt(libc::M_TRIM_THRESHOLD, i32::MAX);
        libc::mallopt(libc::M_TOP_PAD, 64 << 20);
    }
    vmc::run("C05", "model_checking", |ctx| {
        ctx.rule(
            "every record within k field deviations (name, flags, ref id, pos, MAPQ, CIGAR, mate ref id, mate pos, TLEN, \
             sequence length, sequence letters, qualities, three aux slots, tag set) of each of 4 base records x reference \
             dictionary present/absent x file shape (1 record raw stream, 3 records raw, 3 records BGZF); distinct = distinct \
             (outcome, wire core fields, decoded record) observations",
        );
        ctx.rule(
            "lazy rewrite: 10 records (incl. one with 65536 ops) read lazily from a 5-reference raw BAM as written by noodles / with bin=0 / \
             with a stale bin, + 4 hand-built 65536-op records with CG first / in the middle / last / after a B:S array (aux compared as a map) x destination header with 5, 3, 0 references: write_record(lazy), write_alignment_record(lazy) and \
             write_alignment_record(RecordBuf::try_from(lazy)) agree (Ok/Err, bytes) and decode to the record | lazy sequence views: \
             every length 0..=8 x every split point x 2 letter sets: len/get/iter (both ends)/split_at_checked and both sub-slices",
        );
        ctx.rule(
            "writer sequences: every sequence of 0..3 write_alignment_record calls on one writer over 4 accepted records and one \
             record per rejection reason (29 operations) x {raw, BGZF}: rejected writes return Err and leave nothing behind, the \
             file holds exactly the accepted records",
        );
        ctx.rule(
            "reuse: every ordered pair and triple over 20 records differing in which optional fields are present (all / none / \
             each single field or tag missing / shorter / longer) x {raw, BGZF}, each file read through 8 reader entry points \
             (fresh, reused clean, reused dirty RecordBuf, record_bufs(), reused/fresh lazy record, records(), lazy->reused RecordBuf); \
             every grammar execution also re-reads its file into one reused pre-dirtied RecordBuf",
        );
        ctx.assume("miniz_oxide inflate + crc32fast (BGZF walker used to get at the wire bytes of BGZF-wrapped files)");
        ctx.assume("RecordBuf setters/constructors store the given field values (checked per execution by viewing the built record)");
        let headers: Vec<sam::Header> = (0..=3).map(std_header).collect();
        // lazy records re-written through write_record / write_alignment_record / RecordBuf
        {
            let cfg = lazy_rw_setup();
            ctx.harness(Config::new("bam_lazy_rewrite", 0), |ch| lazy_rewrite_body(ch, &cfg));
        }
        // lazy sequence views and their sub-slices
        ctx.harness(Config::new("bam_lazy_sequence_views", 0), lazy_sequence_body);
        // accepted and rejected writes interleaved on one writer
        {
            let ops = gsam::wseq::op_set();
            let h3 = headers[3].clone();
            ctx.harness(Config::new("bam_writer_sequences", 0), |ch| {
                wseq_body(ch, &ops, &h3, &[Fmt::Bam(Container::Raw), Fmt::Bam(Container::Bgzf)])
            });
        }
        // field-presence transitions between consecutive records, every reader entry point
        {
            let set = reuse::record_set();
            let h3 = headers[3].clone();
            ctx.harness(Config::new("bam_reuse_pairs_triples", 0), |ch| {
                reuse_body(ch, &set, &h3, &[Container::Raw, Container::Bgzf])
            });
        }
        if ctx.quick() {
            let cfg = Cfg {
                alphabet: Alphabet::bam(false, true),
                bases: bases(),
                dicts: vec![3, 0],
                files: vec![FileShape::Raw1, FileShape::Raw3],
                files_free: false, // the 3-record framing counts as one of the k deviations in the quick tier
                headers: headers.clone(),
            };
            ctx.harness(Config::new("bam_record_k2", 2), |ch| body(ch, &cfg));
            // the same grammar through the BGZF-wrapping constructor (the container itself is C01's subject)
            let cfg = Cfg { files: vec![FileShape::Bgzf3], files_free: true, ..cfg };
            ctx.harness(Config::new("bam_record_bgzf_k1", 1), |ch| body(ch, &cfg));
        } else {
            let light = Cfg {
                alphabet: Alphabet::bam(true, false),
                bases: bases(),
                dicts: vec![3],
                files: vec![FileShape::Raw1],
                files_free: true,
                headers: headers.clone(),
            };
            ctx.harness(Config::new("bam_record_k3", 3), |ch| body(ch, &light));
            let heavy = Cfg {
                alphabet: Alphabet::bam(true, true),
                bases: bases(),
                dicts: vec![3, 0],
                files: vec![FileShape::Raw1, FileShape::Raw3, FileShape::Bgzf3],
                files_free: true,
                headers,
            };
            ctx.harness(Config::new("bam_record_k2_wide", 2), |ch| body(ch, &heavy));
        }
    });
}
