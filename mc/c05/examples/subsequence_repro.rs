//! Standalone check (public API only) of the lazy BAM sequence views: `Sequence::split_at_checked(mid)`
//! and iteration of the two halves, for every length 0..=6 and every mid.
//!
//! cargo run --release --offline -p c05 --example subsequence_repro

use noodles_bam as bam;
use noodles_sam::{
    self as sam,
    alignment::{RecordBuf, io::Write as _, record_buf::Sequence},
};

fn main() -> std::io::Result<()> {
    let header = sam::Header::default();
    let mut bad = 0;
    for len in 0..=6usize {
        let bases: Vec<u8> = b"ACGTMR"[..len].to_vec();
        let record = RecordBuf::builder().set_sequence(Sequence::from(bases.clone())).build();
        let mut w = bam::io::Writer::from(Vec::new());
        w.write_header(&header)?;
        w.write_alignment_record(&header, &record)?;
        let bytes = w.into_inner();
        let mut r = bam::io::Reader::from(&bytes[..]);
        r.read_header()?;
        let mut lazy = bam::Record::default();
        r.read_record(&mut lazy)?;
        let seq = lazy.sequence();
        assert_eq!(seq.iter().collect::<Vec<u8>>(), bases);
        for mid in 0..=len {
            let (l, r) = seq.split_at_checked(mid).expect("mid <= len");
            let li: Vec<u8> = l.iter().collect();
            let ri: Vec<u8> = r.iter().collect();
            let lg: Vec<u8> = (0..l.len()).map(|i| l.get(i).unwrap()).collect();
            let rg: Vec<u8> = (0..r.len()).map(|i| r.get(i).unwrap()).collect();
            let ok = li == bases[..mid] && ri == bases[mid..] && lg == bases[..mid] && rg == bases[mid..];
            if !ok {
                bad += 1;
                println!(
                    "len {len} split_at_checked({mid}): left.iter()={:?} (want {:?}, get() gives {:?})  right.iter()={:?} (want {:?}, get() gives {:?})",
                    String::from_utf8_lossy(&li),
                    String::from_utf8_lossy(&bases[..mid]),
                    String::from_utf8_lossy(&lg),
                    String::from_utf8_lossy(&ri),
                    String::from_utf8_lossy(&bases[mid..]),
                    String::from_utf8_lossy(&rg),
                );
            }
        }
    }
    println!("{bad} (len, mid) pairs wrong");
    assert_eq!(bad, 0);
    Ok(())
}
