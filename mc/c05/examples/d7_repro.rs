//! Standalone reproduction of D7 through the public API only (no harness code).
//!
//! cargo run --release --offline -p c05 --example d7_repro

use noodles_bam as bam;
use noodles_sam::{
    self as sam,
    alignment::{
        RecordBuf,
        io::Write as _,
        record::cigar::{Op, op::Kind},
        record_buf::{Cigar, Sequence},
    },
};

fn main() -> std::io::Result<()> {
    let header = sam::Header::default();
    // 65536 ops: 1M1D1M1D…  (read length 32768)
    let ops: Vec<Op> = (0..65536).map(|i| Op::new(if i % 2 == 0 { Kind::Match } else { Kind::Deletion }, 1)).collect();
    let record = RecordBuf::builder()
        .set_cigar(Cigar::from(ops))
        .set_sequence(Sequence::from(vec![b'A'; 32768]))
        .build();

    let mut w = bam::io::Writer::from(Vec::new());
    w.write_header(&header)?;
    w.write_alignment_record(&header, &record)?;
    let bytes = w.into_inner();

    let mut r = bam::io::Reader::from(&bytes[..]);
    let h = r.read_header()?;
    let mut eager = RecordBuf::default();
    r.read_record_buf(&h, &mut eager)?;

    let mut r = bam::io::Reader::from(&bytes[..]);
    let h = r.read_header()?;
    let mut lazy = bam::Record::default();
    r.read_record(&mut lazy)?;

    let eager_tags: Vec<String> = eager.data().keys().map(|t| format!("{t:?}")).collect();
    let lazy_tags: Vec<String> = lazy.data().iter().map(|x| x.map(|(t, _)| format!("{t:?}"))).collect::<std::io::Result<_>>()?;
    println!("input : cigar ops = {}, data = []", record.cigar().as_ref().len());
    println!("eager : cigar ops = {}, data tags = {eager_tags:?}", eager.cigar().as_ref().len());
    println!("lazy  : cigar ops = {}, data tags = {lazy_tags:?}", lazy.cigar().len());

    // consequence 1: lazy -> RecordBuf keeps CG
    let conv = RecordBuf::try_from_alignment_record(&h, &lazy)?;
    println!("lazy->RecordBuf == eager: {}", conv == eager);

    // consequence 2: piping the lazy record into a SAM writer emits the real CIGAR *and* CG
    let mut sw = sam::io::Writer::new(Vec::new());
    sw.write_alignment_record(&h, &lazy)?;
    let text = sw.into_inner();
    let has_cg = text.windows(6).any(|w| w == b"\tCG:B:");
    println!("SAM text written from the lazy record contains a CG:B field: {has_cg}");

    // consequence 3: piping the lazy record into a BAM writer stores CG twice
    let mut bw = bam::io::Writer::from(Vec::new());
    bw.write_header(&h)?;
    bw.write_alignment_record(&h, &lazy)?;
    let again = bw.into_inner();
    let n_cg = again.windows(4).filter(|w| *w == b"CGBI").count();
    println!("BAM re-written from the lazy record contains {n_cg} CG:B,I fields");
    let mut r = bam::io::Reader::from(&again[..]);
    let h = r.read_header()?;
    let mut e2 = RecordBuf::default();
    match r.read_record_buf(&h, &mut e2) {
        Ok(_) => println!("... which decodes eagerly to data tags {:?}", e2.data().keys().map(|t| format!("{t:?}")).collect::<Vec<_>>()),
        Err(e) => println!("... which noodles' own read_record_buf rejects: {e:?}"),
    }

    assert_eq!(eager_tags, lazy_tags, "D7: lazy data() differs from eager data()");
    Ok(())
}
