//! placeholder so that the g* workspace glob always matches
