//! Input-shape classes used in fingerprints. A shape is computed from the *input* (and the requested
//! configuration) only, never from the failure, and names the structural property of the input that
//! the failure class depends on.

use crate::Conf;

pub struct Feat {
    pub len: usize,
    pub nsym: usize,
    pub present: [bool; 256],
}

pub fn feat(x: &[u8]) -> Feat {
    let mut present = [false; 256];
    for &b in x {
        present[b as usize] = true;
    }
    Feat {
        len: x.len(),
        nsym: present.iter().filter(|p| **p).count(),
        present,
    }
}

/// exploration version: all predicates spelled out
pub fn bytes(_conf: &Conf, x: &[u8]) -> String {
    let f = feat(x);
    let len = match f.len {
        0 => "0",
        1..=3 => "1-3",
        4..=31 => "4-31",
        _ => "32+",
    };
    let min1 = f.present[1] && !f.present[0];
    let runff = (2..=255).any(|s| f.present[s - 1] && (s..=255).all(|t| f.present[t]) && s < 255);
    let nsym = match f.nsym {
        0 => "0",
        1 => "1",
        2 => "2",
        3..=4 => "3-4",
        5..=16 => "5-16",
        _ => "17+",
    };
    format!(
        "len:{len},min1:{},ff:{},runff:{},nsym:{nsym}",
        min1 as u8, f.present[255] as u8, runff as u8
    )
}

pub fn fqz(lens: &[usize], quals: &[u8]) -> String {
    let recs = match lens.len() {
        0 => "0",
        1 => "1",
        _ => "2+",
    };
    let fixed = lens.windows(2).all(|w| w[0] == w[1]);
    let maxq = quals.iter().copied().max().unwrap_or(0);
    format!("records:{recs},fixed:{},maxq:{}", fixed as u8, if maxq == 255 { "255" } else { "<255" })
}

pub fn names(list: &[&[u8]]) -> String {
    let dup = (0..list.len()).any(|i| (0..i).any(|j| list[i] == list[j]));
    let n = match list.len() {
        0 => "0",
        1 => "1",
        _ => "2+",
    };
    format!("names:{n},dup:{}", dup as u8)
}
