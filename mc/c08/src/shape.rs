//! Flag classes and input-shape classes used in fingerprints.
//!
//! Both are functions of the *request* (codec, flags, input) only — never of the failure — and are
//! defined at the level of the format (which transform / entropy path the flags select, which
//! structural property the symbol tables of that path have), so that one root cause gives one class.
//! The first matching shape wins; the order puts the most specific structural property first.

use crate::{Conf, codecs::Gp};

pub struct Feat {
    pub len: usize,
    pub nsym: usize,
    pub present: [bool; 256],
}

pub fn feat(x: &[u8]) -> Feat {
    let mut present = [false; 256];
    for &b in x {
        present[b as usize] = true;
    }
    Feat {
        len: x.len(),
        nsym: present.iter().filter(|p| **p).count(),
        present,
    }
}

/// The symbol list of a frequency table starts with 0x01 (0x01 present, 0x00 absent).
fn first_sym_01(p: &[bool; 256]) -> bool {
    p[1] && !p[0]
}

/// The symbol list has a run of >= 3 consecutive symbols that reaches 0xff (s-1, s, s+1..=0xff all
/// present for some s <= 0xfe): the run-length byte written at `s` must count up to 0xff.
fn run_to_ff(p: &[bool; 256]) -> bool {
    p[255] && p[254] && p[253]
}

fn len_class(n: usize) -> &'static str {
    match n {
        0 => "len:0",
        1..=3 => "len:1-3",
        4..=31 => "len:4-31",
        32..=255 => "len:32-255",
        256..=1_048_576 => "len:256+",
        _ => "len:2^20+",
    }
}

/// Bit packing as the format defines it (symbols in ascending order -> 0..nsym, low bits first).
/// `None` when PACK does not apply (no symbols or more than 16).
fn packed(x: &[u8], f: &Feat) -> Option<Vec<u8>> {
    if f.nsym == 0 || f.nsym > 16 {
        return None;
    }
    let mut map = [0u8; 256];
    let mut k = 0;
    for s in 0..256 {
        if f.present[s] {
            map[s] = k;
            k += 1;
        }
    }
    let per = match f.nsym {
        1 => return Some(Vec::new()),
        2 => 8,
        3..=4 => 4,
        _ => 2,
    };
    let w = 8 / per;
    Some(
        x.chunks(per)
            .map(|c| c.iter().enumerate().fold(0u8, |a, (i, s)| a | map[*s as usize] << (w * i)))
            .collect(),
    )
}

/// rANS 4x8 order-1 tables: row c holds the symbols that follow c (context 0 also holds the first
/// symbol of each of the four interleaved quarters).
fn o1_rows(x: &[u8]) -> Vec<[bool; 256]> {
    let mut rows = vec![[false; 256]; 256];
    let q = x.len() / 4;
    if q > 0 {
        for k in 0..4 {
            rows[0][x[k * q] as usize] = true;
        }
    }
    for w in x.windows(2) {
        rows[w[0] as usize][w[1] as usize] = true;
    }
    rows
}

pub fn nx16_class(flags: u8) -> String {
    use grans::nx16::*;
    if flags & STRIPE != 0 {
        return "stripe".into();
    }
    let mut s = String::new();
    if flags & PACK != 0 {
        s.push_str("pack+");
    }
    if flags & RLE != 0 {
        s.push_str("rle+");
    }
    s.push_str(if flags & CAT != 0 {
        "cat"
    } else if flags & ORDER != 0 {
        "o1"
    } else {
        "o0"
    });
    s.push_str(if flags & N32 != 0 { "/n32" } else { "/n4" });
    s
}

pub fn aac_class(flags: u8) -> String {
    const ORDER: u8 = 0x01;
    const EXT: u8 = 0x04;
    const STRIPE: u8 = 0x08;
    const CAT: u8 = 0x20;
    const RLE: u8 = 0x40;
    const PACK: u8 = 0x80;
    if flags & STRIPE != 0 {
        return "stripe".into();
    }
    let mut s = String::new();
    if flags & PACK != 0 {
        s.push_str("pack+");
    }
    s.push_str(if flags & CAT != 0 {
        "cat"
    } else if flags & EXT != 0 {
        "ext"
    } else {
        match (flags & RLE != 0, flags & ORDER != 0) {
            (true, false) => "rle/o0",
            (true, true) => "rle/o1",
            (false, false) => "o0",
            (false, true) => "o1",
        }
    });
    s
}

pub fn flag_class(conf: &Conf) -> String {
    match conf {
        Conf::R4x8(false) => "o0".into(),
        Conf::R4x8(true) => "o1".into(),
        Conf::Nx16(f) => nx16_class(*f),
        Conf::Aac(f) => aac_class(*f),
        Conf::Gp(Gp::Gzip(l)) | Conf::Gp(Gp::Bzip2(l)) | Conf::Gp(Gp::Lzma(l)) => format!("level{l}"),
    }
}

pub fn bytes(conf: &Conf, x: &[u8]) -> String {
    let f = feat(x);
    if f.len == 0 {
        return "empty".into();
    }
    match conf {
        Conf::R4x8(false) => {
            if first_sym_01(&f.present) {
                return "first-symbol-0x01".into();
            }
            if run_to_ff(&f.present) {
                return "symbol-run-to-0xff".into();
            }
        }
        Conf::R4x8(true) => {
            if f.len < 4 {
                return "len:1-3".into();
            }
            let rows = o1_rows(x);
            let mut ctx = [false; 256];
            for (c, r) in rows.iter().enumerate() {
                ctx[c] = r.iter().any(|b| *b);
            }
            if rows.iter().any(first_sym_01) {
                return "o1-row-first-symbol-0x01".into();
            }
            if run_to_ff(&ctx) || rows.iter().any(run_to_ff) {
                return "o1-symbol-run-to-0xff".into();
            }
        }
        Conf::Nx16(flags) => {
            use grans::nx16::*;
            if flags & STRIPE != 0 {
                // noodles (like htscodecs for this flag alone) writes 4 stripes
                let mut any01 = false;
                for j in 0..4 {
                    let sub: Vec<u8> = x.iter().skip(j).step_by(4).copied().collect();
                    if sub.len() >= 4 && first_sym_01(&feat(&sub).present) {
                        any01 = true;
                    }
                }
                if any01 {
                    return "stripe-first-symbol-0x01".into();
                }
            } else if flags & CAT == 0 {
                // the entropy coder sees the packed bytes when PACK applies; RLE keeps the alphabet
                let p = if flags & PACK != 0 { packed(x, &f) } else { None };
                let pf = p.as_deref().map(feat);
                let ef = pf.as_ref().unwrap_or(&f);
                if flags & ORDER == 0 && first_sym_01(&ef.present) {
                    return if p.is_some() { "packed-first-symbol-0x01".into() } else { "first-symbol-0x01".into() };
                }
            }
        }
        Conf::Aac(flags) => {
            const STRIPE: u8 = 0x08;
            const CAT: u8 = 0x20;
            const PACK: u8 = 0x80;
            if flags & STRIPE != 0 {
                // the stripes are coded in order: a 0xff is met before the first empty stripe
                if f.present[255] {
                    return "has-0xff".into();
                }
                if f.len < 4 {
                    return "stripe-len:1-3".into();
                }
            } else {
                let p = if flags & PACK != 0 { packed(x, &f) } else { None };
                if let Some(p) = &p {
                    if p.is_empty() {
                        return "pack-single-symbol".into();
                    }
                    if flags & CAT == 0 && p.contains(&255) {
                        return "packed-has-0xff".into();
                    }
                } else if flags & CAT == 0 && f.present[255] {
                    return "has-0xff".into();
                }
            }
        }
        Conf::Gp(_) => {}
    }
    len_class(f.len).into()
}

pub fn fqz(lens: &[usize], _quals: &[u8]) -> String {
    if lens.is_empty() {
        return "empty".into();
    }
    if lens.contains(&0) {
        return "zero-length-record".into();
    }
    let fixed = lens.windows(2).all(|w| w[0] == w[1]);
    format!(
        "records:{},{}",
        if lens.len() == 1 { "1" } else { "2+" },
        if fixed { "fixed-length" } else { "variable-length" }
    )
}

pub fn names(list: &[&[u8]]) -> String {
    if list.is_empty() {
        return "empty-list".into();
    }
    let n = match list.len() {
        1 => "1",
        2 => "2",
        3 => "3",
        _ => "4+",
    };
    format!("names:{n},{}", names_feature(list))
}

fn names_feature(list: &[&[u8]]) -> &'static str {
    // alphanumeric / non-alphanumeric runs are the tokens; the format has 128 token positions per
    // name, two of which are the name-type and the end marker
    let toks = |n: &'_ [u8]| -> Vec<Vec<u8>> {
        n.chunk_by(|a, b| a.is_ascii_alphanumeric() == b.is_ascii_alphanumeric()).map(|t| t.to_vec()).collect()
    };
    let all: Vec<Vec<Vec<u8>>> = list.iter().map(|n| toks(n)).collect();
    if all.iter().any(|t| t.len() > 126) {
        return "name-with>126-tokens";
    }
    // a digit token with leading zeros at a token position where an earlier name has a digit token
    // without (the two must not be coded as a numeric delta)
    let digits = |t: &[u8]| !t.is_empty() && t.iter().all(u8::is_ascii_digit);
    for i in 1..all.len() {
        for (p, t) in all[i].iter().enumerate() {
            if digits(t) && t.len() > 1 && t[0] == b'0' {
                for prev in &all[..i] {
                    if let Some(q) = prev.get(p) {
                        if digits(q) && q[0] != b'0' {
                            return "leading-zero-digits-after-plain-digits";
                        }
                    }
                }
            }
        }
    }
    if (0..list.len()).any(|i| (0..i).any(|j| list[i] == list[j])) {
        "with-duplicates"
    } else {
        "distinct"
    }
}
