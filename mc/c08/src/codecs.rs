//! One round-trip case per codec configuration, through the `noodles_cram::verif` hook (H3).
//!
//! Every call into noodles runs under `vmc::catch`; a panic is an outcome with its site, never a
//! crash of the harness. API use mirrors the real CRAM reader/writer (`io/writer/container/block.rs`,
//! `io/reader/container/block.rs`): `rans_nx16::decode` / `aac::decode` receive the block's
//! uncompressed size (needed when NO_SIZE was requested), gzip/bzip2/lzma decode into a buffer of the
//! block's uncompressed size.

use std::io;

use noodles_cram::verif as nv;

/// Why a case failed, class level.
#[derive(Clone, Debug)]
pub struct Fail {
    pub stage: &'static str,
    pub symptom: String,
    /// `ok` / `err:<class>` / `wrong` / `na`: what the independent reference decoder made of noodles' stream
    pub reference: String,
    pub expected: String,
    pub observed: String,
}

/// What a passing case exercised (for the vacuity tags).
#[derive(Clone, Debug, Default)]
pub struct Seen {
    pub encoded_len: usize,
    /// flags byte found in the stream (Nx16 / AAC), order byte (4x8)
    pub stream_flags: u8,
    pub rejected_by_spec: bool,
    pub ref_agreed: bool,
    pub ref_final_states_l: bool,
}

fn panic_symptom(msg: &str, file: &str) -> String {
    let f = file.rsplit("/src/").next().unwrap_or(file);
    format!("panic:{}@{}", vmc::normalise_msg(msg), f)
}

fn err_symptom(e: &io::Error) -> String {
    format!("err:{:?}", e.kind())
}

enum Call<T> {
    Ok(T),
    Bad(String, String), // symptom, observed
}

fn call<T>(f: impl FnOnce() -> io::Result<T>) -> Call<T> {
    match vmc::catch(f) {
        Ok(Ok(v)) => Call::Ok(v),
        Ok(Err(e)) => Call::Bad(err_symptom(&e), format!("Err({:?}, {e})", e.kind())),
        Err((msg, file)) => Call::Bad(panic_symptom(&msg, &file), format!("panic: {msg} in {file}")),
    }
}

fn wrong(x: &[u8], got: &[u8]) -> String {
    format!("{} -> got {}", vmc::diff_bytes(x, got), vmc::hex(got))
}

fn ref_class(r: &Result<Vec<u8>, String>, x: &[u8]) -> String {
    match r {
        Ok(d) if d == x => "ok".into(),
        Ok(_) => "wrong".into(),
        Err(e) => format!("err:{e}"),
    }
}

/// Shared tail: self decode result + reference result -> verdict.
fn verdict(
    x: &[u8],
    enc: &[u8],
    dec: Call<Vec<u8>>,
    reference: Option<Result<Vec<u8>, String>>,
    mut seen: Seen,
) -> Result<Seen, Fail> {
    let rc = reference.as_ref().map(|r| ref_class(r, x)).unwrap_or_else(|| "na".into());
    // coarse form for the fingerprint: what the reference makes of a stream noodles itself cannot
    // decode depends on the garbage, only ok / fail is class level
    let coarse = |rc: &str| -> String {
        match rc {
            "ok" | "na" => rc.to_string(),
            _ => "fail".to_string(),
        }
    };
    let stream = format!("stream {}", vmc::hex(enc));
    match dec {
        Call::Bad(symptom, observed) => Err(Fail {
            stage: "decode",
            symptom,
            reference: coarse(&rc),
            expected: "decode(encode(x)) == x".into(),
            observed: format!("{observed}; {stream}; reference decoder: {rc}"),
        }),
        Call::Ok(d) if d != x => Err(Fail {
            stage: "compare",
            symptom: "wrong-bytes".into(),
            reference: coarse(&rc),
            expected: "decode(encode(x)) == x".into(),
            observed: format!("{}; {stream}; reference decoder: {rc}", wrong(x, &d)),
        }),
        Call::Ok(_) => match reference {
            None => Ok(seen),
            Some(Ok(d)) if d == x => {
                seen.ref_agreed = true;
                Ok(seen)
            }
            Some(Ok(d)) => Err(Fail {
                stage: "refdecode",
                symptom: "wrong-bytes".into(),
                reference: coarse(&rc),
                expected: "the specification's decoder recovers x from noodles' stream".into(),
                observed: format!("noodles decodes its stream, the reference decoder: {}; {stream}", wrong(x, &d)),
            }),
            Some(Err(e)) => Err(Fail {
                stage: "refdecode",
                symptom: format!("ref-err:{e}"),
                reference: coarse(&rc),
                expected: "the specification's decoder recovers x from noodles' stream".into(),
                observed: format!("noodles decodes its stream, the reference decoder fails: {e}; {stream}"),
            }),
        },
    }
}

fn enc_fail(symptom: String, observed: String) -> Fail {
    Fail {
        stage: "encode",
        symptom,
        reference: "na".into(),
        expected: "Ok(stream)".into(),
        observed,
    }
}

// ------------------------------------------------------------------------------------------------

pub fn rans_4x8(order1: bool, x: &[u8]) -> Result<Seen, Fail> {
    let order = if order1 { nv::Order::One } else { nv::Order::Zero };
    let enc = match call(|| nv::rans_4x8_encode(order, x)) {
        Call::Ok(e) => e,
        Call::Bad(symptom, observed) => {
            // CRAMcodecs §2.2.1: "We do not permit Order-1 encoding of data streams smaller than 4
            // bytes" — no encoding exists, so an InvalidInput rejection is what the format says.
            if order1 && x.len() < 4 && symptom.starts_with("err:InvalidInput") {
                return Ok(Seen {
                    rejected_by_spec: true,
                    ..Default::default()
                });
            }
            return Err(enc_fail(symptom, observed));
        }
    };
    let dec = call(|| nv::rans_4x8_decode(&enc));
    let r = grans::r4x8::decode_info(&enc);
    let mut seen = Seen {
        encoded_len: enc.len(),
        ..Default::default()
    };
    if let Ok((_, info)) = &r {
        seen.stream_flags = info.order;
        seen.ref_final_states_l = info.final_states_are_l;
    }
    verdict(x, &enc, dec, Some(r.map(|v| v.0)), seen)
}

pub fn rans_nx16(flags: u8, x: &[u8]) -> Result<Seen, Fail> {
    let f = nv::RansNx16Flags::from_bits_truncate(flags);
    let enc = match call(|| nv::rans_nx16_encode(f, x)) {
        Call::Ok(e) => e,
        Call::Bad(symptom, observed) => return Err(enc_fail(symptom, observed)),
    };
    // like Block::decode: the block header's uncompressed size is always passed
    let dec = call(|| nv::rans_nx16_decode(&enc, x.len()));
    let r = grans::nx16::decode_info(&enc, x.len());
    let mut seen = Seen {
        encoded_len: enc.len(),
        ..Default::default()
    };
    if let Ok((_, info)) = &r {
        seen.stream_flags = info.flags;
    } else if let Some(b) = enc.first() {
        seen.stream_flags = *b;
    }
    verdict(x, &enc, dec, Some(r.map(|v| v.0)), seen)
}

pub fn aac(flags: u8, x: &[u8]) -> Result<Seen, Fail> {
    let f = nv::AacFlags::from_bits_truncate(flags);
    let enc = match call(|| nv::aac_encode(f, x)) {
        Call::Ok(e) => e,
        Call::Bad(symptom, observed) => return Err(enc_fail(symptom, observed)),
    };
    let dec = call(|| nv::aac_decode(&enc, x.len()));
    let seen = Seen {
        encoded_len: enc.len(),
        stream_flags: enc.first().copied().unwrap_or(0),
        ..Default::default()
    };
    verdict(x, &enc, dec, None, seen)
}

#[derive(Clone, Copy, Debug, PartialEq)]
pub enum Gp {
    Gzip(u32),
    Bzip2(u32),
    Lzma(u32),
}

/// Independent reading of a gzip member (RFC 1952): header with optional fields, raw deflate
/// (miniz_oxide through `vmc::oracle::bgzf::inflate_raw`, independent of the zlib-rs noodles uses),
/// CRC-32 and ISIZE trailer, nothing after it. Errors are class-level strings.
pub fn gunzip_ref(src: &[u8], expect_len: usize) -> Result<Vec<u8>, String> {
    if src.len() < 18 || src[0] != 0x1f || src[1] != 0x8b || src[2] != 8 {
        return Err("gzip-header".into());
    }
    let flg = src[3];
    let mut p = 10usize;
    if flg & 4 != 0 {
        let xlen = *src.get(p).ok_or("gzip-header")? as usize | (*src.get(p + 1).ok_or("gzip-header")? as usize) << 8;
        p += 2 + xlen;
    }
    for bit in [8u8, 16] {
        if flg & bit != 0 {
            while *src.get(p).ok_or("gzip-header")? != 0 {
                p += 1;
            }
            p += 1;
        }
    }
    if flg & 2 != 0 {
        p += 2;
    }
    let body = src.get(p..).ok_or("gzip-header")?;
    let (data, consumed) = vmc::oracle::bgzf::inflate_raw(body, expect_len + 64).map_err(|_| "inflate-status".to_string())?;
    let trailer = body.get(consumed..).ok_or("gzip-trailer")?;
    if trailer.len() < 8 {
        return Err("gzip-trailer-short".into());
    }
    if trailer.len() > 8 {
        return Err("gzip-trailing-bytes".into());
    }
    let crc = u32::from_le_bytes([trailer[0], trailer[1], trailer[2], trailer[3]]);
    let isize_ = u32::from_le_bytes([trailer[4], trailer[5], trailer[6], trailer[7]]);
    if crc != crc32fast::hash(&data) {
        return Err("gzip-crc".into());
    }
    if isize_ != data.len() as u32 {
        return Err("gzip-isize".into());
    }
    Ok(data)
}

pub fn general(gp: Gp, x: &[u8]) -> Result<Seen, Fail> {
    let enc = match call(|| match gp {
        Gp::Gzip(l) => nv::gzip_encode(flate2::Compression::new(l), x),
        Gp::Bzip2(l) => nv::bzip2_encode(bzip2::Compression::new(l), x),
        Gp::Lzma(l) => nv::lzma_encode(l, x),
    }) {
        Call::Ok(e) => e,
        Call::Bad(symptom, observed) => return Err(enc_fail(symptom, observed)),
    };
    let dec = call(|| {
        let mut dst = vec![0xa5u8; x.len()];
        match gp {
            Gp::Gzip(_) => nv::gzip_decode(&enc, &mut dst)?,
            Gp::Bzip2(_) => nv::bzip2_decode(&enc, &mut dst)?,
            Gp::Lzma(_) => nv::lzma_decode(&enc, &mut dst)?,
        }
        Ok(dst)
    });
    let seen = Seen {
        encoded_len: enc.len(),
        ..Default::default()
    };
    // gzip: the member noodles emits must also be a complete gzip member of x for an independent
    // inflater (a valid member of a *prefix* of x is an encode-side failure)
    let reference = match gp {
        Gp::Gzip(_) => Some(gunzip_ref(&enc, x.len())),
        _ => None,
    };
    verdict(x, &enc, dec, reference, seen)
}

pub fn fqzcomp(lens: &[usize], x: &[u8]) -> Result<Seen, Fail> {
    let enc = match call(|| nv::fqzcomp_encode(lens, x)) {
        Call::Ok(e) => e,
        Call::Bad(symptom, observed) => return Err(enc_fail(symptom, observed)),
    };
    let dec = call(|| nv::fqzcomp_decode(&enc));
    let seen = Seen {
        encoded_len: enc.len(),
        ..Default::default()
    };
    verdict(x, &enc, dec, None, seen)
}

/// `names` are joined the way the CRAM writer fills the read-name block (byte-array-stop, NUL after
/// every name) — the convention `name_tokenizer::encode` expects and `decode` reproduces.
pub fn name_tokenizer(names: &[&[u8]]) -> Result<Seen, Fail> {
    let mut x = Vec::new();
    for n in names {
        x.extend_from_slice(n);
        x.push(0);
    }
    let enc = match call(|| nv::name_tokenizer_encode(&x)) {
        Call::Ok(e) => e,
        Call::Bad(symptom, observed) => return Err(enc_fail(symptom, observed)),
    };
    let dec = call(|| nv::name_tokenizer_decode(&enc));
    let seen = Seen {
        encoded_len: enc.len(),
        ..Default::default()
    };
    verdict(&x, &enc, dec, None, seen)
}

// ------------------------------------------------------------------------------------------------

pub const NX16_FLAG_BITS: [(u8, &str); 7] = [
    (0x01, "ORDER"),
    (0x04, "N32"),
    (0x08, "STRIPE"),
    (0x10, "NO_SIZE"),
    (0x20, "CAT"),
    (0x40, "RLE"),
    (0x80, "PACK"),
];

pub const AAC_FLAG_BITS: [(u8, &str); 7] = [
    (0x01, "ORDER"),
    (0x04, "EXT"),
    (0x08, "STRIPE"),
    (0x10, "NO_SIZE"),
    (0x20, "CAT"),
    (0x40, "RLE"),
    (0x80, "PACK"),
];

/// The k-th subset (k in 0..128) of seven flag bits, simplest first (k = bitmask over the table).
pub fn subset(bits: &[(u8, &str); 7], k: usize) -> u8 {
    let mut f = 0;
    for (i, (b, _)) in bits.iter().enumerate() {
        if k >> i & 1 != 0 {
            f |= b;
        }
    }
    f
}

pub fn flag_names(bits: &[(u8, &str); 7], f: u8) -> String {
    let v: Vec<&str> = bits.iter().filter(|(b, _)| f & b != 0).map(|(_, n)| *n).collect();
    if v.is_empty() { "none".into() } else { v.join("|") }
}
