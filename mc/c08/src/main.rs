//! C08 — CRAM codecs and integer codings decode exactly what was encoded, per the spec.
//!
//! E3 complete sweeps (DESIGN.md §4 C08): byte strings x codec configurations, quality strings x
//! record-length compositions, name lists, integers. Oracles: the input itself (decode(encode(x)) ==
//! x through hook H3) and, for rANS 4x8 / Nx16, the independent reference decoders of `grans`
//! (calibrated at start-up on the literal streams of noodles' unit tests).

mod codecs;
mod corpus;
mod engine;
mod guard;
mod ints;
mod shape;

use std::{
    collections::{BTreeMap, HashSet},
    sync::Mutex,
    time::Duration,
};

use codecs::{AAC_FLAG_BITS, Fail, Gp, NX16_FLAG_BITS, Seen};
use corpus::Item;
use vmc::{Ctx, Outcome, Violation, json};

#[derive(Clone, Copy, Debug, PartialEq)]
pub enum Conf {
    R4x8(bool),
    Nx16(u8),
    Aac(u8),
    Gp(Gp),
}

impl Conf {
    fn codec(&self) -> &'static str {
        match self {
            Conf::R4x8(_) => "rans_4x8",
            Conf::Nx16(_) => "rans_nx16",
            Conf::Aac(_) => "aac",
            Conf::Gp(Gp::Gzip(_)) => "gzip",
            Conf::Gp(Gp::Bzip2(_)) => "bzip2",
            Conf::Gp(Gp::Lzma(_)) => "lzma",
        }
    }
    fn flags(&self) -> String {
        match self {
            Conf::R4x8(o1) => if *o1 { "o1".into() } else { "o0".into() },
            Conf::Nx16(f) => codecs::flag_names(&NX16_FLAG_BITS, *f),
            Conf::Aac(f) => codecs::flag_names(&AAC_FLAG_BITS, *f),
            Conf::Gp(Gp::Gzip(l)) | Conf::Gp(Gp::Bzip2(l)) | Conf::Gp(Gp::Lzma(l)) => format!("level{l}"),
        }
    }
    fn run(&self, x: &[u8]) -> Result<Seen, Fail> {
        match *self {
            Conf::R4x8(o1) => codecs::rans_4x8(o1, x),
            Conf::Nx16(f) => codecs::rans_nx16(f, x),
            Conf::Aac(f) => codecs::aac(f, x),
            Conf::Gp(g) => codecs::general(g, x),
        }
    }
    /// Pasteable reproduction through the hook.
    fn repro(&self, expr: &str) -> String {
        let v = "noodles_cram::verif";
        match *self {
            Conf::R4x8(o1) => format!(
                "let x: Vec<u8> = {expr}; let e = {v}::rans_4x8_encode({v}::Order::{}, &x)?; assert_eq!({v}::rans_4x8_decode(&e)?, x);",
                if o1 { "One" } else { "Zero" }
            ),
            Conf::Nx16(f) => format!(
                "let x: Vec<u8> = {expr}; let e = {v}::rans_nx16_encode({v}::RansNx16Flags::from_bits_truncate({f:#04x}) /* {} */, &x)?; assert_eq!({v}::rans_nx16_decode(&e, x.len())?, x);",
                self.flags()
            ),
            Conf::Aac(f) => format!(
                "let x: Vec<u8> = {expr}; let e = {v}::aac_encode({v}::AacFlags::from_bits_truncate({f:#04x}) /* {} */, &x)?; assert_eq!({v}::aac_decode(&e, x.len())?, x);",
                self.flags()
            ),
            Conf::Gp(g) => format!("let x: Vec<u8> = {expr}; /* {g:?} */ encode then decode into vec![0; x.len()]"),
        }
    }
}

// ---- vacuity / coverage counters ----------------------------------------------------------------

use std::sync::atomic::{AtomicU64, Ordering};

pub const TAG_NAMES: &[&str] = &[
    "rans_4x8 o1 len<4 rejected with InvalidInput (not permitted by the format)",
    "rans_4x8 reference decoder agreed",
    "rans_nx16 reference decoder agreed",
    "rans_nx16 encoder changed the flags byte (fell back to CAT / dropped PACK or RLE)",
    "rans_nx16 stream flag ORDER round-tripped",
    "rans_nx16 stream flag N32 round-tripped",
    "rans_nx16 stream flag STRIPE round-tripped",
    "rans_nx16 stream flag NO_SIZE round-tripped",
    "rans_nx16 stream flag CAT round-tripped",
    "rans_nx16 stream flag RLE round-tripped",
    "rans_nx16 stream flag PACK round-tripped",
    "aac encoder changed the flags byte",
    "aac round trip",
    "gzip/bzip2/lzma round trip",
    "fqzcomp fixed-length records",
    "fqzcomp variable-length records",
    "fqzcomp record longer than the 1024-entry position table",
    "name_tokenizer round trip",
    "rans_4x8 final decoder states equal the specified start state",
    "gzip member read back by the independent inflater (header, raw deflate, CRC-32, ISIZE)",
];
pub const T_O1_REJECT: usize = 0;
pub const T_4X8_REF: usize = 1;
pub const T_NX16_REF: usize = 2;
pub const T_NX16_CHANGED: usize = 3;
pub const T_NX16_FLAG0: usize = 4;
pub const T_AAC_CHANGED: usize = 11;
pub const T_AAC_OK: usize = 12;
pub const T_GP_OK: usize = 13;
pub const T_FQZ_FIXED: usize = 14;
pub const T_FQZ_VAR: usize = 15;
pub const T_FQZ_LONG: usize = 16;
pub const T_NAMES_OK: usize = 17;
pub const T_4X8_STATES: usize = 18;
pub const T_GZIP_REF: usize = 19;

static TAGS: [AtomicU64; 20] = [const { AtomicU64::new(0) }; 20];

fn tag(t: usize) {
    TAGS[t].fetch_add(1, Ordering::Relaxed);
}

static STATES: Mutex<Option<HashSet<u64>>> = Mutex::new(None);

thread_local! {
    static LOCAL_STATES: std::cell::RefCell<HashSet<u64>> = std::cell::RefCell::new(HashSet::new());
}

fn state(h: impl std::hash::Hash) {
    use std::hash::Hasher;
    let mut s = std::collections::hash_map::DefaultHasher::new();
    h.hash(&mut s);
    let k = s.finish();
    let new = LOCAL_STATES.with(|l| l.borrow_mut().insert(k));
    if new {
        STATES.lock().unwrap().get_or_insert_with(HashSet::new).insert(k);
    }
}

fn take_states() -> u64 {
    let mut g = STATES.lock().unwrap();
    let n = g.as_ref().map(|s| s.len()).unwrap_or(0) as u64;
    *g = None;
    n
}

fn log2(n: usize) -> u32 {
    usize::BITS - n.leading_zeros()
}

// ---- byte-string harnesses -----------------------------------------------------------------------

fn bytes_case(i: u64, items: &[Item], confs: &[Conf]) -> Outcome {
    let it = &items[(i / confs.len() as u64) as usize];
    let conf = confs[(i % confs.len() as u64) as usize];
    let r = conf.run(&it.bytes);
    let out = match r {
        Ok(seen) => {
            state((conf.codec(), conf.flags(), seen.stream_flags, log2(seen.encoded_len), 0u8));
            if seen.rejected_by_spec {
                tag(T_O1_REJECT);
            }
            if seen.ref_agreed {
                tag(match conf {
                    Conf::R4x8(_) => T_4X8_REF,
                    Conf::Gp(_) => T_GZIP_REF,
                    _ => T_NX16_REF,
                });
            }
            if let Conf::Nx16(f) = conf {
                if seen.stream_flags != f {
                    tag(T_NX16_CHANGED);
                }
                for (k, (b, _)) in NX16_FLAG_BITS.iter().enumerate() {
                    if seen.stream_flags & b != 0 {
                        tag(T_NX16_FLAG0 + k);
                    }
                }
            }
            if let Conf::Gp(_) = conf {
                tag(T_GP_OK);
            }
            if seen.ref_final_states_l {
                tag(T_4X8_STATES);
            }
            if let Conf::Aac(f) = conf {
                tag(T_AAC_OK);
                if seen.stream_flags != f {
                    tag(T_AAC_CHANGED);
                }
            }
            Ok(())
        }
        Err(f) => {
            state((conf.codec(), conf.flags(), &f.stage, &f.symptom, 1u8));
            let fp = format!(
                "codec={} flags={} stage={} symptom={} ref={} shape={}",
                conf.codec(),
                shape::flag_class(&conf),
                f.stage,
                f.symptom,
                f.reference,
                shape::bytes(&conf, &it.bytes)
            );
            Err(Violation::new(fp, conf.repro(&it.expr), f.expected, f.observed))
        }
    };
    out
}

fn bytes_harness(ctx: &mut Ctx, name: &str, items: &[Item], confs: &[Conf]) {
    if skip(name) {
        return;
    }
    let n = items.len() as u64 * confs.len() as u64;
    let describe = |i: u64| {
        let it = &items[(i / confs.len() as u64) as usize];
        let conf = confs[(i % confs.len() as u64) as usize];
        format!("codec={} flags={} x={}", conf.codec(), conf.flags(), it.expr)
    };
    let what = format!("{} inputs x {} configurations", items.len(), confs.len());
    engine::sweep_min(ctx, name, n, describe, take_states, &what, |i| bytes_case(i, items, confs));
}

fn skip(name: &str) -> bool {
    match std::env::var("C08_ONLY") {
        Ok(f) if !f.is_empty() => !f.split(',').any(|p| name.starts_with(p)),
        _ => false,
    }
}

fn rans_confs() -> Vec<Conf> {
    let mut v = vec![Conf::R4x8(false), Conf::R4x8(true)];
    for k in 0..128 {
        v.push(Conf::Nx16(codecs::subset(&NX16_FLAG_BITS, k)));
    }
    for k in 0..128 {
        v.push(Conf::Aac(codecs::subset(&AAC_FLAG_BITS, k)));
    }
    v
}

fn gp_confs() -> Vec<Conf> {
    vec![
        Conf::Gp(Gp::Gzip(0)),
        Conf::Gp(Gp::Gzip(6)),
        Conf::Gp(Gp::Gzip(9)),
        Conf::Gp(Gp::Bzip2(1)),
        Conf::Gp(Gp::Bzip2(6)),
        Conf::Gp(Gp::Bzip2(9)),
        Conf::Gp(Gp::Lzma(0)),
        Conf::Gp(Gp::Lzma(6)),
        Conf::Gp(Gp::Lzma(9)),
    ]
}

// ---- fqzcomp -------------------------------------------------------------------------------------

struct FqzCase {
    quals: Vec<u8>,
    lens: Vec<usize>,
    expr: String,
}

const QUAL_FAMILIES: &[(&str, fn(usize) -> u8, &str)] = &[
    ("const0", |_| 0, "0u8"),
    ("const40", |_| 40, "40u8"),
    ("alt(0,1)", |i| (i % 2) as u8, "(i%2) as u8"),
    ("ramp4", |i| (i % 4) as u8, "(i%4) as u8"),
    ("runs3", |i| [2, 2, 2, 1, 1, 0][(i / 3) % 6], "[2u8,2,2,1,1,0][(i/3)%6]"),
    ("illumina8", |i| [2, 12, 23, 27, 32, 36, 40, 40][(i * 5 + i / 3) % 8], "[2u8,12,23,27,32,36,40,40][(i*5+i/3)%8]"),
    ("max93", |i| if i % 5 == 0 { 93 } else { 30 }, "if i%5==0 {93u8} else {30}"),
    ("max255", |i| if i % 7 == 3 { 255 } else { 1 }, "if i%7==3 {255u8} else {1}"),
];

fn fqz_cases(max_len: usize, nfam: usize, big: &[Vec<usize>]) -> Vec<FqzCase> {
    let mut out = Vec::new();
    let mut seen: HashSet<(Vec<u8>, Vec<usize>)> = HashSet::new();
    for n in 0..=max_len {
        let comps = corpus::compositions(n, 4);
        for (name, f, body) in QUAL_FAMILIES.iter().take(nfam) {
            let quals: Vec<u8> = (0..n).map(f).collect();
            for lens in &comps {
                if seen.insert((quals.clone(), lens.clone())) {
                    out.push(FqzCase {
                        quals: quals.clone(),
                        lens: lens.clone(),
                        expr: format!("lens = vec!{lens:?}; quals = (0..{n}usize).map(|i| {body}).collect::<Vec<u8>>() /* {name} */"),
                    });
                }
            }
        }
    }
    for lens in big {
        let n: usize = lens.iter().sum();
        for (name, f, body) in QUAL_FAMILIES.iter().take(nfam.min(3).max(1)).chain(QUAL_FAMILIES.iter().skip(5).take(1)) {
            let quals: Vec<u8> = (0..n).map(f).collect();
            out.push(FqzCase {
                quals,
                lens: lens.clone(),
                expr: format!("lens = vec!{lens:?}; quals = (0..{n}usize).map(|i| {body}).collect::<Vec<u8>>() /* {name} */"),
            });
        }
    }
    out
}

fn fqz_zero_cases(max_len: usize) -> Vec<FqzCase> {
    fn rec(rest: usize, parts_left: usize, cur: &mut Vec<usize>, out: &mut Vec<Vec<usize>>) {
        if rest == 0 && !cur.is_empty() {
            out.push(cur.clone());
        }
        if parts_left == 0 {
            return;
        }
        for first in 0..=rest {
            cur.push(first);
            rec(rest - first, parts_left - 1, cur, out);
            cur.pop();
        }
    }
    let mut out = Vec::new();
    for n in 0..=max_len {
        let mut lists = Vec::new();
        rec(n, 4, &mut Vec::new(), &mut lists);
        lists.retain(|l| l.contains(&0));
        lists.sort();
        lists.dedup();
        for (name, f, body) in QUAL_FAMILIES.iter().skip(2).take(2) {
            let quals: Vec<u8> = (0..n).map(f).collect();
            for lens in &lists {
                out.push(FqzCase {
                    quals: quals.clone(),
                    lens: lens.clone(),
                    expr: format!("lens = vec!{lens:?}; quals = (0..{n}usize).map(|i| {body}).collect::<Vec<u8>>() /* {name} */"),
                });
            }
        }
    }
    out
}

fn fqz_harness(ctx: &mut Ctx, name: &str, what: &str, cases: &[FqzCase]) {
    if skip(name) {
        return;
    }
    engine::sweep_min(
        ctx,
        name,
        cases.len() as u64,
        |i| format!("fqzcomp {}", cases[i as usize].expr),
        take_states,
        what,
        |i| {
            let c = &cases[i as usize];
            match codecs::fqzcomp(&c.lens, &c.quals) {
                Ok(seen) => {
                    let fixed = c.lens.windows(2).all(|w| w[0] == w[1]);
                    state((c.lens.len(), fixed, log2(seen.encoded_len), log2(c.quals.len())));
                    tag(if fixed { T_FQZ_FIXED } else { T_FQZ_VAR });
                    if c.lens.iter().any(|&l| l > 1023) {
                        tag(T_FQZ_LONG);
                    }
                    Ok(())
                }
                Err(f) => {
                    state((c.lens.len(), &f.stage, &f.symptom));
                    let fp = format!(
                        "codec=fqzcomp flags=default stage={} symptom={} ref={} shape={}",
                        f.stage,
                        f.symptom,
                        f.reference,
                        shape::fqz(&c.lens, &c.quals)
                    );
                    Err(Violation::new(
                        fp,
                        format!(
                            "let (lens, quals): (Vec<usize>, Vec<u8>); {}; let e = noodles_cram::verif::fqzcomp_encode(&lens, &quals)?; assert_eq!(noodles_cram::verif::fqzcomp_decode(&e)?, quals);",
                            c.expr
                        ),
                        f.expected,
                        f.observed,
                    ))
                }
            }
        },
    );
}

// ---- name tokenizer ------------------------------------------------------------------------------

/// Names chosen to collide token types. noodles tokenises into alphanumeric / non-alphanumeric
/// runs (letters and digits are *one* token, unlike htscodecs), so digit tokens need a separator:
/// `a:1` = String, Char, Digits; `a:01` = ..., Digits0 (leading zero, width 2); `a:2` after `a:1` =
/// Delta; `a:257` = too far for a Delta; `a:001` after `a:01` = different width (no Delta0);
/// `a1` / `a01` = single String tokens; differing token counts; digit runs beyond u32.
fn name_alphabet(thorough: bool) -> Vec<Vec<u8>> {
    let mut v: Vec<Vec<u8>> = [
        "a:1", "a:01", "a:001", "a:2", "a:10", "b:1", "a:1:x", "a1", "a", "a:257", "a:0", "7", "a:1:x:2", "a01",
    ]
    .iter()
    .map(|s| s.as_bytes().to_vec())
    .collect();
    // long digit run: more digits than a u32 holds
    let mut long = b"a:".to_vec();
    long.extend(std::iter::repeat_n(b'9', 200));
    v.push(long);
    if thorough {
        let mut long0 = b"a:0".to_vec();
        long0.extend(std::iter::repeat_n(b'1', 30));
        v.push(long0);
        v.push(b"a:4294967295".to_vec());
        v.push(b"a:4294967296".to_vec());
        v.push(b"a:00000000001".to_vec());
        v.push(b"a:00".to_vec());
        v.push(b"a:02".to_vec());
        // more tokens than the format's 128 token positions, and just below
        v.push(std::iter::repeat_n(*b"a:", 70).flatten().collect());
        v.push(std::iter::repeat_n(*b"a:", 62).flatten().collect());
    }
    v
}

/// Names around the format's 128 token positions per name (name type + 126 tokens + end marker):
/// n alternating alphanumeric / non-alphanumeric tokens, n in {125,126,127,128,129,200}, as single
/// letters, single digits and a mix with varied separators; plus one short name so that the lists of
/// <= 2 names give each long name alone, after / before a short name, duplicated, and next to another.
fn long_name_alphabet() -> Vec<Vec<u8>> {
    let mut v = vec![b"a:1".to_vec()];
    for n in [125usize, 126, 127, 128, 129, 200] {
        for style in 0..3 {
            let mut name = Vec::new();
            for t in 0..n {
                let f = t / 2;
                name.push(if t % 2 == 0 {
                    match style {
                        0 => b'a' + (f % 26) as u8,
                        1 => b'1' + (f % 9) as u8,
                        _ => if f % 2 == 0 { b'a' + (f % 26) as u8 } else { b'0' + (f % 10) as u8 },
                    }
                } else if style == 2 {
                    [b':', b'_', b'/', b'.'][f % 4]
                } else {
                    b':'
                });
            }
            v.push(name);
        }
    }
    v
}

fn names_harness(ctx: &mut Ctx, name: &str, alpha: &[Vec<u8>], max_names: usize) {
    if skip(name) {
        return;
    }
    let k = alpha.len() as u64;
    // index -> list: lists of length 0..=max_names, shortest first
    let mut offsets = vec![0u64];
    for l in 0..=max_names {
        offsets.push(offsets[l] + k.pow(l as u32));
    }
    let total = *offsets.last().unwrap();
    let decode = |i: u64| -> Vec<&[u8]> {
        let l = (0..=max_names).find(|&l| i < offsets[l + 1]).unwrap();
        let mut r = i - offsets[l];
        let mut v = vec![&[][..]; l];
        for p in (0..l).rev() {
            v[p] = &alpha[(r % k) as usize][..];
            r /= k;
        }
        v
    };
    let show = |v: &[&[u8]]| -> String {
        let parts: Vec<String> = v
            .iter()
            .map(|n| {
                if n.len() > 40 {
                    format!("\"{}…({} bytes)\"", String::from_utf8_lossy(&n[..12]), n.len())
                } else {
                    format!("{:?}", String::from_utf8_lossy(n))
                }
            })
            .collect();
        format!("[{}]", parts.join(", "))
    };
    engine::sweep_min(
        ctx,
        name,
        total,
        |i| format!("names {}", show(&decode(i))),
        take_states,
        &format!("all lists of <= {max_names} names over a {}-name alphabet", alpha.len()),
        |i| {
            let list = decode(i);
            match codecs::name_tokenizer(&list) {
                Ok(seen) => {
                    state((list.len(), log2(seen.encoded_len), shape::names(&list)));
                    tag(T_NAMES_OK);
                    Ok(())
                }
                Err(f) => {
                    state((list.len(), &f.stage, &f.symptom));
                    let fp = format!(
                        "codec=name_tokenizer flags=default stage={} symptom={} ref={} shape={}",
                        f.stage,
                        f.symptom,
                        f.reference,
                        shape::names(&list)
                    );
                    Err(Violation::new(
                        fp,
                        format!(
                            "names {} joined as name+\"\\0\" each -> noodles_cram::verif::name_tokenizer_encode / _decode",
                            show(&list)
                        ),
                        f.expected,
                        f.observed,
                    ))
                }
            }
        },
    );
}

// ---- main ----------------------------------------------------------------------------------------

/// The codecs under test allocate and free 256 KiB - 1 MiB tables per call; with glibc's defaults
/// every one of them is an mmap/munmap pair (page faults dominate the run). Keep them in the heap.
fn tune_allocator() {
    // SAFETY: mallopt only sets allocator parameters; called before any worker thread exists.
    unsafe {
        libc::mallopt(libc::M_MMAP_THRESHOLD, 1 << 30);
        libc::mallopt(libc::M_TRIM_THRESHOLD, 1 << 30);
        libc::mallopt(libc::M_TOP_PAD, 64 << 20);
    }
}

fn main() {
    tune_allocator();
    vmc::run("C08", "model_checking", |ctx| {
        guard::start_watchdog(Duration::from_secs(120));
        match grans::calib::run() {
            Ok(n) => ctx.extra(
                "reference_calibration",
                json!({"literals_decoded": n, "source": "byte arrays of noodles' unit tests (rans_4x8/**, rans_nx16/**, io/reader/num/**), incl. the htscodecs-derived decode-side streams"}),
            ),
            Err(e) => vmc::machinery(format!("reference decoder calibration failed: {e}")),
        }
        ctx.rule(
            "E3: every (input, configuration) pair of the stated finite domains is executed once; inputs are de-duplicated by content, so every case is distinct; states = distinct (codec, flags, flags byte found in the stream, log2 encoded size, outcome class) observations",
        );
        ctx.assume("the reference rANS 4x8 / Nx16 decoders (mc/grans, written from CRAMcodecs §2-§3) are correct; they are calibrated on 15 literal streams incl. htscodecs output before every run");
        ctx.assume("zlib-rs/flate2, bzip2 (libbz2-rs), lzma-rust2 are executed, not explored; their round trip is judged only against the input");
        ctx.assume("AAC, fqzcomp and the name tokenizer have no independent decoder here: only decode(encode(x)) == x is judged for them");

        let quick = ctx.quick();
        let rans = rans_confs();
        let gp = gp_confs();

        // (1) complete small string sets
        let mut all = Vec::new();
        corpus::all_strings(&[0, 1, 2, 255], ctx.by_tier(6, 8), &mut all);
        corpus::all_strings(&[0, 1, 2, 3, 4, 5, 6, 7], ctx.by_tier(4, 5), &mut all);
        all.sort_by_key(|it| it.bytes.len());
        corpus::dedup(&mut all);
        bytes_harness(ctx, "bytes_all", &all, &rans);

        let mut all_gp = Vec::new();
        corpus::all_strings(&[0, 1, 2, 255], ctx.by_tier(3, 5), &mut all_gp);
        corpus::all_strings(&[0, 1, 2, 3, 4, 5, 6, 7], ctx.by_tier(2, 3), &mut all_gp);
        all_gp.sort_by_key(|it| it.bytes.len());
        corpus::dedup(&mut all_gp);
        bytes_harness(ctx, "gp_all", &all_gp, &gp);

        // (2) structured families, every length 0..=300
        let mut fam = Vec::new();
        corpus::families(0..=300, &mut fam);
        corpus::dedup(&mut fam);
        bytes_harness(ctx, "bytes_fam", &fam, &rans);
        if quick {
            let mut fam_gp = Vec::new();
            corpus::families((0..=300).filter(|l| *l <= 8 || corpus::STRADDLE.contains(l) || l % 50 == 0), &mut fam_gp);
            corpus::dedup(&mut fam_gp);
            bytes_harness(ctx, "gp_fam", &fam_gp, &gp);
        } else {
            bytes_harness(ctx, "gp_fam", &fam, &gp);
        }

        // (3) straddling lengths above 300
        let mut big = Vec::new();
        let big_lens: Vec<usize> = corpus::STRADDLE
            .iter()
            .copied()
            .filter(|&l| l > 300 && (!quick || l < 65535))
            .collect();
        corpus::families(big_lens.iter().copied(), &mut big);
        corpus::dedup(&mut big);
        bytes_harness(ctx, "bytes_len", &big, &rans);
        bytes_harness(ctx, "gp_len", &big, &gp);
        if quick {
            // 65535..65537 in the quick tier: ten of the families (all of them in the thorough tier)
            const QUICK_64K: &[&str] = &[
                "one(0)", "alt(0,255)", "cycle256", "skew(65,66)", "runs-inc", "runs255", "two-singletons", "pack16",
                "pack17", "mix256",
            ];
            let mut big2 = Vec::new();
            for l in [65535usize, 65536, 65537] {
                for f in corpus::FAMILIES.iter().filter(|f| QUICK_64K.contains(&f.name)) {
                    big2.push(corpus::family_item(f, l));
                }
            }
            bytes_harness(ctx, "bytes_len64k", &big2, &rans);
        }

        // (2b) large inputs for gzip/bzip2/xz: one write whose compressed output is far beyond the
        // encoders' internal buffers (a short write in the wrapper only shows from ~96 KiB of poorly
        // compressible data on); gzip members are also read by an independent inflater
        {
            let lens: &[usize] = if quick { &[98304, 262144] } else { &[65536, 98304, 131072, 262144, (1 << 20) + 3] };
            let mut large = Vec::new();
            for &l in lens {
                for c in 0..corpus::LARGE_CLASSES.len() {
                    large.push(corpus::large(c, l));
                }
            }
            bytes_harness(ctx, "gp_large", &large, &gp);
        }

        // (3a) dominant symbol + k rare symbols: the over-shoot side of the frequency normalisers
        // (4x8 o0/o1 and, through the shared code, Nx16 order 0/1). rANS configurations only.
        {
            let mut skew = Vec::new();
            if quick {
                for len in [4097usize, 10000] {
                    for k in [3usize, 4, 8, 12] {
                        for placement in 0..3 {
                            for occ in [1usize, 2] {
                                skew.push(corpus::dominant_rare(len, k, placement, occ));
                            }
                        }
                    }
                }
                for k in [3usize, 12] {
                    for placement in 0..3 {
                        skew.push(corpus::dominant_rare(65535, k, placement, 1));
                    }
                }
            } else {
                for len in [4096usize, 4097, 8192, 10000, 16384, 65535] {
                    for k in 3..=12usize {
                        for placement in 0..3 {
                            for occ in [1usize, 2] {
                                skew.push(corpus::dominant_rare(len, k, placement, occ));
                            }
                        }
                    }
                }
            }
            corpus::dedup(&mut skew);
            let confs: Vec<Conf> = rans.iter().copied().filter(|c| !matches!(c, Conf::Aac(_))).collect();
            bytes_harness(ctx, "bytes_skew", &skew, &confs);
        }

        // (3b) beyond DESIGN.md's list, from a constant visible in the code: the normalisers compute
        // `count * 4095` / `count * 4096` in u32, which overflows from 2^32/4096 + 1 = 1_048_577
        // occurrences of one symbol (a 10 240-record slice of 150-base reads has 1.5 M quality values)
        if !quick {
            let mut huge = Vec::new();
            let l = (1usize << 20) + 2048;
            for name in ["one(65)", "skew(65,66)", "alt(65,66)"] {
                let f = corpus::FAMILIES.iter().find(|f| f.name == name).unwrap();
                huge.push(corpus::family_item(f, l));
            }
            let confs: Vec<Conf> = vec![
                Conf::R4x8(false),
                Conf::R4x8(true),
                Conf::Nx16(0),
                Conf::Nx16(0x01),
                Conf::Nx16(0x04),
                Conf::Nx16(0x08),
                Conf::Nx16(0x40),
                Conf::Nx16(0x80),
                Conf::Nx16(0xc5),
                Conf::Aac(0),
                Conf::Aac(0x01),
                Conf::Aac(0x40),
                Conf::Aac(0x80),
            ];
            bytes_harness(ctx, "bytes_1m", &huge, &confs);
        }

        // (4) fqzcomp
        let big_lens: Vec<Vec<usize>> = vec![
            vec![127], vec![128], vec![129], vec![255], vec![256], vec![257], vec![1023], vec![1024], vec![1025],
            vec![129, 129], vec![128, 129], vec![129, 128], vec![1025, 3], vec![3, 1025], vec![300, 300, 300],
            vec![65535], vec![65536], vec![65537], vec![65536, 1],
        ];
        let fq = fqz_cases(ctx.by_tier(10, 20), ctx.by_tier(4, 8), &big_lens);
        fqz_harness(ctx, "fqzcomp", "quality families x every composition of the length into <= 4 records, plus long single/multi records", &fq);
        // record lists with zero-length records (a slice may hold reads without bases/qualities; the
        // decoder returns the flat quality string, so such records carry no data): every sequence of
        // <= 4 non-negative lengths with at least one zero
        let fqz0 = fqz_zero_cases(ctx.by_tier(4, 7));
        fqz_harness(ctx, "fqzcomp_zero", "quality families x every list of <= 4 record lengths containing a zero-length record", &fqz0);

        // (5) name tokenizer
        // lists of <= 3 names never give the tokenizer a token stream of >= 4 bytes to entropy-code
        // (shorter ones are stored raw), so the quick tier goes to 4 names as well
        let alpha = name_alphabet(false);
        names_harness(ctx, "names", &alpha, ctx.by_tier(4, 5));
        names_harness(ctx, "names_long", &long_name_alphabet(), ctx.by_tier(2, 3));
        // duplicates at distance > 1 followed by a name that MATCHes / DELTAs against the duplicated
        // name where the name just before the duplicate differs: all lists of <= 5 names over four
        // colon-token names differing in one numeric field (a dup target is never the first name)
        let dup_alpha: Vec<Vec<u8>> = ["x:9", "run7:1102:150:17", "run7:1102:100:17", "run7:1102:150:18"]
            .iter()
            .map(|s| s.as_bytes().to_vec())
            .collect();
        names_harness(ctx, "names_dup", &dup_alpha, ctx.by_tier(5, 6));
        if !quick {
            names_harness(ctx, "names_ext", &name_alphabet(true), 4);
        }

        // (6) integers
        ints::run(ctx);

        if let Ok(f) = std::env::var("C08_ONLY") {
            if !f.is_empty() {
                // developer filter: the run is partial and must not be reported as exhaustive
                ctx.custom(vmc::Custom {
                    name: "C08_ONLY-filter".into(),
                    exhaustive: false,
                    capped: Some(format!("developer filter C08_ONLY={f}: other harnesses skipped")),
                    ..Default::default()
                });
            }
        }
        let tags: BTreeMap<&str, u64> = TAG_NAMES
            .iter()
            .enumerate()
            .map(|(i, n)| (*n, TAGS[i].load(Ordering::Relaxed)))
            .collect();
        ctx.extra("paths_exercised", json!(tags));
    });
}
