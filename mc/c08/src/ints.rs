//! ITF8 / LTF8 / uint7: complete sweeps of value ranges (bespoke block-parallel engine, reported
//! through `ctx.custom`). Oracle per value v: the bytes noodles writes have the specification's
//! length, the independent decoder (`grans::ints`) reads them back to v, noodles' reader returns v
//! from exactly those bytes and, when hostile bytes follow, consumes exactly the bytes written.

use std::{
    collections::BTreeMap,
    sync::{
        Mutex,
        atomic::{AtomicU64, Ordering},
    },
    time::Instant,
};

use noodles_cram::verif as nv;
use vmc::{Ctx, Custom, Outcome, Violation, json};

#[derive(Clone, Copy, PartialEq)]
enum Kind {
    Itf8,
    Ltf8,
    Uint7,
}

impl Kind {
    fn name(self) -> &'static str {
        match self {
            Kind::Itf8 => "itf8",
            Kind::Ltf8 => "ltf8",
            Kind::Uint7 => "uint7",
        }
    }
    fn bounds(self) -> (i128, i128) {
        match self {
            Kind::Itf8 => (i32::MIN as i128, i32::MAX as i128),
            Kind::Ltf8 => (i64::MIN as i128, i64::MAX as i128),
            Kind::Uint7 => (0, u32::MAX as i128),
        }
    }
}

fn viol(kind: Kind, v: i128, stage: &str, symptom: &str, spec_len: usize, expected: String, observed: String) -> Violation {
    let sign = if v < 0 { "neg" } else { "nonneg" };
    Violation::new(
        format!("codec={} flags=na stage={stage} symptom={symptom} ref=na shape=speclen:{spec_len},{sign}", kind.name()),
        format!("value {v} ({v:#x}) through noodles_cram::verif::write_{0} / read_{0}", kind.name()),
        expected,
        observed,
    )
}

fn check(kind: Kind, v: i128) -> Outcome {
    check_len(kind, v).map(|_| ())
}

/// Ok(spec length) when the value round-trips.
fn check_len(kind: Kind, v: i128) -> Result<usize, Violation> {
    let mut buf = [0xffu8; 24];
    let (written, spec_len, ref_dec): (Result<usize, std::io::Error>, usize, Option<(i128, usize)>);
    {
        let mut w = &mut buf[..];
        let r = match kind {
            Kind::Itf8 => nv::write_itf8(&mut w, v as i32),
            Kind::Ltf8 => nv::write_ltf8(&mut w, v as i64),
            Kind::Uint7 => nv::write_uint7(&mut w, v as u32),
        };
        let left = w.len();
        written = r.map(|_| 24 - left);
    }
    let n = match written {
        Ok(n) => n,
        Err(e) => {
            return Err(viol(kind, v, "encode", &format!("err:{:?}", e.kind()), 0, "Ok".into(), format!("{e}")));
        }
    };
    match kind {
        Kind::Itf8 => {
            spec_len = grans::ints::itf8_len(v as i32);
            ref_dec = grans::ints::itf8_decode(&buf[..n]).map(|(x, k)| (x as i128, k));
        }
        Kind::Ltf8 => {
            spec_len = grans::ints::ltf8_len(v as i64);
            ref_dec = grans::ints::ltf8_decode(&buf[..n]).map(|(x, k)| (x as i128, k));
        }
        Kind::Uint7 => {
            spec_len = grans::ints::uint7_len(v as u32);
            ref_dec = grans::ints::uint7_decode(&buf[..n]).map(|(x, k)| (x as i128, k));
        }
    }
    let written_copy = buf;
    let bytes = move || vmc::hex(&written_copy[..n]);
    if n != spec_len {
        return Err(viol(kind, v, "encode", "length", spec_len, format!("{spec_len} bytes"), format!("{n} bytes: {}", bytes())));
    }
    if ref_dec != Some((v, n)) {
        return Err(viol(
            kind,
            v,
            "refdecode",
            "value",
            spec_len,
            format!("reference decoder reads {v} from {n} bytes"),
            format!("{ref_dec:?} from {}", bytes()),
        ));
    }
    // noodles' reader: exact slice, then the same bytes followed by 0xff filler
    for (what, end) in [("exact", n), ("followed", 24)] {
        let mut rd = &buf[..end];
        let got: Result<i128, std::io::Error> = match kind {
            Kind::Itf8 => nv::read_itf8(&mut rd).map(|x| x as i128),
            Kind::Ltf8 => nv::read_ltf8(&mut rd).map(|x| x as i128),
            Kind::Uint7 => nv::read_uint7(&mut rd).map(|x| x as i128),
        };
        let consumed = end - rd.len();
        match got {
            Err(e) => {
                return Err(viol(kind, v, "decode", &format!("err:{:?}", e.kind()), spec_len, format!("Ok({v})"), format!("{e} reading {} ({what})", bytes())));
            }
            Ok(g) if g != v => {
                return Err(viol(kind, v, "compare", "wrong-value", spec_len, format!("{v}"), format!("{g} from {} ({what})", bytes())));
            }
            Ok(_) if consumed != n => {
                return Err(viol(kind, v, "decode", "consumed", spec_len, format!("{n} bytes consumed"), format!("{consumed} consumed of {} ({what})", bytes())));
            }
            Ok(_) => {}
        }
    }
    Ok(spec_len)
}

/// Merged inclusive ranges.
fn merge(mut r: Vec<(i128, i128)>) -> Vec<(i128, i128)> {
    r.sort();
    let mut out: Vec<(i128, i128)> = Vec::new();
    for (lo, hi) in r {
        if let Some(last) = out.last_mut() {
            if lo <= last.1 + 1 {
                last.1 = last.1.max(hi);
                continue;
            }
        }
        out.push((lo, hi));
    }
    out
}

fn boundary_ranges(kind: Kind, radius: i128) -> Vec<(i128, i128)> {
    let (min, max) = kind.bounds();
    let bits = if kind == Kind::Ltf8 { 64 } else { 32 };
    let mut centres = vec![0i128, min, max];
    for k in 0..bits {
        centres.push(1i128 << k);
        if min < 0 {
            centres.push(-(1i128 << k));
        }
    }
    merge(
        centres
            .into_iter()
            .map(|c| ((c - radius).max(min), (c + radius).min(max)))
            .filter(|(lo, hi)| lo <= hi)
            .collect(),
    )
}

fn sweep(ctx: &mut Ctx, kind: Kind, ranges: Vec<(i128, i128)>, what: &str) {
    let name = kind.name();
    if crate::skip(name) {
        return;
    }
    if ctx.is_replay() {
        if let Some(p) = ctx.custom_replay(name) {
            let v: i128 = p["value"].as_str().and_then(|s| s.parse().ok()).unwrap_or(0);
            println!("replayed value {v}");
            ctx.set_replay_outcome(check(kind, v));
        }
        return;
    }
    let t0 = Instant::now();
    const BLOCK: i128 = 1 << 14;
    // blocks = (lo, hi) pieces of at most BLOCK values
    let mut blocks: Vec<(i128, i128)> = Vec::new();
    let mut total: u64 = 0;
    for (lo, hi) in &ranges {
        total += (hi - lo + 1) as u64;
        let mut a = *lo;
        while a <= *hi {
            let b = (a + BLOCK - 1).min(*hi);
            blocks.push((a, b));
            a = b + 1;
        }
    }
    eprintln!("[C08] {name}: {total} values in {} ranges ({what}) ...", ranges.len());
    let next = AtomicU64::new(0);
    let found: Mutex<BTreeMap<String, (Violation, i128, u64)>> = Mutex::new(BTreeMap::new());
    let lens_seen = Mutex::new(std::collections::BTreeSet::new());
    let hid = crate::guard::harness_id(name);
    std::thread::scope(|s| {
        for _ in 0..vmc::explore::default_threads() {
            s.spawn(|| {
                let mut local_lens = std::collections::BTreeSet::new();
                loop {
                    let b = next.fetch_add(1, Ordering::Relaxed) as usize;
                    if b >= blocks.len() {
                        break;
                    }
                    let _g = crate::guard::enter(hid, b as u64);
                    let (lo, hi) = blocks[b];
                    let record = |e: Violation, v: i128| {
                        let mut g = found.lock().unwrap();
                        let ent = g.entry(e.fingerprint.clone()).or_insert((e, v, 0));
                        ent.2 += 1;
                        if v.abs() < ent.1.abs() {
                            ent.1 = v;
                        }
                    };
                    // fast path: the block under one catch; after a panic the rest goes value by value
                    let at = std::cell::Cell::new(lo);
                    let lens_mask = std::cell::Cell::new(0u32);
                    let fast = vmc::catch(|| {
                        while at.get() <= hi {
                            match check_len(kind, at.get()) {
                                Ok(l) => lens_mask.set(lens_mask.get() | 1 << l),
                                Err(e) => record(e, at.get()),
                            }
                            at.set(at.get() + 1);
                        }
                    });
                    if fast.is_err() {
                        let mut v = at.get();
                        while v <= hi {
                            match vmc::catch(|| check(kind, v)) {
                                Ok(Ok(())) => {}
                                Ok(Err(e)) => record(e, v),
                                Err((msg, file)) => record(
                                    viol(
                                        kind,
                                        v,
                                        "roundtrip",
                                        &format!("panic:{}@{}", vmc::normalise_msg(&msg), file.rsplit("/src/").next().unwrap_or("")),
                                        0,
                                        "no panic".into(),
                                        format!("panic: {msg} in {file}"),
                                    ),
                                    v,
                                ),
                            }
                            v += 1;
                        }
                    }
                    for l in 0..16usize {
                        if lens_mask.get() >> l & 1 != 0 {
                            local_lens.insert(l);
                        }
                    }
                }
                lens_seen.lock().unwrap().extend(local_lens);
            });
        }
    });
    let lens_seen = lens_seen.into_inner().unwrap();
    let mut found_v = Vec::new();
    for (_, (_, v, count)) in found.into_inner().unwrap() {
        // re-evaluate at the smallest-magnitude failing value so that decoded/observed describe it
        let again = match vmc::catch(|| check(kind, v)) {
            Ok(Err(e)) => e,
            Ok(Ok(())) => vmc::machinery("integer failure did not reproduce"),
            Err((msg, file)) => viol(
                kind,
                v,
                "roundtrip",
                &format!("panic:{}@{}", vmc::normalise_msg(&msg), file.rsplit("/src/").next().unwrap_or("")),
                0,
                "no panic".into(),
                format!("panic: {msg} in {file}"),
            ),
        };
        found_v.push((again, json!({"value": v.to_string()}), count));
    }
    let (min, max) = kind.bounds();
    let mut extra = BTreeMap::new();
    extra.insert("domain".to_string(), json!(what));
    extra.insert("ranges".to_string(), json!(ranges.len()));
    extra.insert("encoded_lengths_seen".to_string(), json!(lens_seen));
    extra.insert("whole_type_covered".to_string(), json!(ranges.len() == 1 && ranges[0] == (min, max)));
    ctx.custom(Custom {
        name: name.to_string(),
        evaluations: total,
        distinct: total,
        states: lens_seen.len() as u64,
        transitions: total,
        exhaustive: true,
        capped: None,
        samples: vec![
            format!("{name} value {}", ranges[0].0),
            format!("{name} value {}", ranges[ranges.len() / 2].0),
            format!("{name} value {}", ranges[ranges.len() - 1].1),
        ],
        extra,
        found: found_v,
        wall_s: t0.elapsed().as_secs_f64(),
        ..Default::default()
    });
}

pub fn run(ctx: &mut Ctx) {
    let quick = ctx.quick();
    let r12 = 1i128 << 12;
    if quick {
        sweep(ctx, Kind::Itf8, boundary_ranges(Kind::Itf8, r12), "all i32 within 2^12 of 0, ±2^k (k=0..31), i32::MIN, i32::MAX");
        sweep(ctx, Kind::Uint7, boundary_ranges(Kind::Uint7, r12), "all u32 within 2^12 of 0, 2^k (k=0..31), u32::MAX");
        sweep(ctx, Kind::Ltf8, boundary_ranges(Kind::Ltf8, r12), "all i64 within 2^12 of 0, ±2^k (k=0..63), i64::MIN, i64::MAX");
    } else {
        sweep(ctx, Kind::Itf8, vec![Kind::Itf8.bounds()], "all 2^32 i32");
        sweep(ctx, Kind::Uint7, vec![Kind::Uint7.bounds()], "all 2^32 u32");
        sweep(ctx, Kind::Ltf8, boundary_ranges(Kind::Ltf8, 1 << 20), "all i64 within 2^20 of 0, ±2^k (k=0..63), i64::MIN, i64::MAX");
    }
}
