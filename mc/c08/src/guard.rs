//! Watchdog: a case that does not return (a decoder looping on bad internal state) must not stall
//! the run silently. A thread cannot be cancelled, so the watchdog reports the case and exits with a
//! machinery status (2) — never a verdict.

use std::{
    sync::{
        Arc, Mutex, OnceLock,
        atomic::{AtomicU64, Ordering},
    },
    time::{Duration, Instant},
};

pub struct Slot {
    /// 0 = idle, else milliseconds since `EPOCH` (+1) at which the current case started
    start: AtomicU64,
    case: AtomicU64,
    harness: AtomicU64,
}

static SLOTS: Mutex<Vec<Arc<Slot>>> = Mutex::new(Vec::new());
static EPOCH: OnceLock<Instant> = OnceLock::new();
static NAMES: Mutex<Vec<String>> = Mutex::new(Vec::new());

thread_local! {
    static MINE: Arc<Slot> = {
        let s = Arc::new(Slot { start: AtomicU64::new(0), case: AtomicU64::new(0), harness: AtomicU64::new(0) });
        SLOTS.lock().unwrap().push(s.clone());
        s
    };
}

fn now_ms() -> u64 {
    EPOCH.get_or_init(Instant::now).elapsed().as_millis() as u64 + 1
}

pub fn harness_id(name: &str) -> u64 {
    let mut n = NAMES.lock().unwrap();
    if let Some(i) = n.iter().position(|x| x == name) {
        return i as u64;
    }
    n.push(name.to_string());
    n.len() as u64 - 1
}

pub struct Running;

pub fn enter(harness: u64, case: u64) -> Running {
    MINE.with(|s| {
        s.harness.store(harness, Ordering::Relaxed);
        s.case.store(case, Ordering::Relaxed);
        s.start.store(now_ms(), Ordering::Release);
    });
    Running
}

impl Drop for Running {
    fn drop(&mut self) {
        MINE.with(|s| s.start.store(0, Ordering::Release));
    }
}

pub fn start_watchdog(limit: Duration) {
    let _ = now_ms();
    std::thread::spawn(move || {
        loop {
            std::thread::sleep(Duration::from_millis(500));
            let now = now_ms();
            let slots = SLOTS.lock().unwrap().clone();
            for s in slots {
                let st = s.start.load(Ordering::Acquire);
                if st != 0 && now.saturating_sub(st) > limit.as_millis() as u64 {
                    let h = s.harness.load(Ordering::Relaxed) as usize;
                    let name = NAMES.lock().unwrap().get(h).cloned().unwrap_or_default();
                    let msg = format!(
                        "MACHINERY-ERROR property=C08 case {} of harness {} did not return within {}s (a hang of the code under test would be a violation; the watchdog cannot cancel it)",
                        s.case.load(Ordering::Relaxed),
                        name,
                        limit.as_secs()
                    );
                    println!("{msg}");
                    eprintln!("{msg}");
                    std::process::exit(2);
                }
            }
        }
    });
}
