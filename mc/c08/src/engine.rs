//! E3 complete sweep that keeps, per fingerprint class, the violation of the *smallest* failing
//! index (vmc's `ctx.sweep` keeps the smallest index but the text of whichever failure a worker
//! reported first, so `decoded` / `observed` would not describe the minimal case). Reported through
//! `ctx.custom`; replay payload = `{"index": i}`.

use std::{
    collections::BTreeMap,
    sync::{
        Mutex,
        atomic::{AtomicU64, Ordering},
    },
    time::Instant,
};

use vmc::{Ctx, Custom, Outcome, Violation, json};

pub fn run_case(f: &(impl Fn(u64) -> Outcome + Sync), i: u64) -> Outcome {
    match vmc::catch(|| f(i)) {
        Ok(o) => o,
        Err((msg, file)) => Err(Violation::new(
            format!("codec=harness flags=na stage=harness symptom=panic:{}@{} ref=na shape=na", vmc::normalise_msg(&msg), file),
            format!("case {i}"),
            "no panic outside the caught noodles calls",
            format!("panic: {msg} in {file}"),
        )),
    }
}

/// Sweeps `0..n`; `states` is called after the sweep for the number of distinct observations.
pub fn sweep_min<F>(
    ctx: &mut Ctx,
    name: &str,
    n: u64,
    describe: impl Fn(u64) -> String,
    states: impl FnOnce() -> u64,
    what: &str,
    f: F,
) where
    F: Fn(u64) -> Outcome + Sync,
{
    if ctx.is_replay() {
        if let Some(p) = ctx.custom_replay(name) {
            let i = p["index"].as_u64().unwrap_or(0);
            println!("replayed case {i}: {}", describe(i));
            ctx.set_replay_outcome(run_case(&f, i));
        }
        return;
    }
    eprintln!("[C08] sweep {name} over {n} cases ...");
    let t0 = Instant::now();
    let threads = vmc::explore::default_threads();
    let chunk = (n / (threads as u64 * 256)).clamp(1, 4096);
    let next = AtomicU64::new(0);
    let found: Mutex<BTreeMap<String, (Violation, u64, u64)>> = Mutex::new(BTreeMap::new());
    let hid = crate::guard::harness_id(name);
    std::thread::scope(|s| {
        for _ in 0..threads {
            s.spawn(|| {
                loop {
                    let start = next.fetch_add(chunk, Ordering::Relaxed);
                    if start >= n {
                        return;
                    }
                    for i in start..(start + chunk).min(n) {
                        let g = crate::guard::enter(hid, i);
                        let o = run_case(&f, i);
                        drop(g);
                        if let Err(v) = o {
                            let mut m = found.lock().unwrap();
                            match m.get_mut(&v.fingerprint) {
                                None => {
                                    m.insert(v.fingerprint.clone(), (v, i, 1));
                                }
                                Some(e) => {
                                    e.2 += 1;
                                    if i < e.1 {
                                        e.0 = v;
                                        e.1 = i;
                                    }
                                }
                            }
                        }
                    }
                }
            });
        }
    });
    let st = states();
    let mut extra = BTreeMap::new();
    extra.insert("engine".to_string(), json!("E3 complete sweep (minimal failing index kept per fingerprint class)"));
    extra.insert("domain_size".to_string(), json!(n));
    extra.insert("domain".to_string(), json!(what));
    let samples = if n > 0 { vec![describe(0), describe(n / 2), describe(n - 1)] } else { vec![] };
    ctx.custom(Custom {
        name: name.to_string(),
        evaluations: n,
        distinct: n,
        states: st,
        transitions: n,
        exhaustive: true,
        capped: None,
        samples,
        extra,
        found: found
            .into_inner()
            .unwrap()
            .into_values()
            .map(|(v, i, c)| (v, json!({"index": i}), c))
            .collect(),
        wall_s: t0.elapsed().as_secs_f64(),
        ..Default::default()
    });
}
