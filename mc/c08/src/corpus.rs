//! Input domains of C08 (DESIGN.md §4 C08 "A"): complete small string sets and structured families.
//! Everything is enumerated deterministically, shortest first, so that the first failing index of a
//! fingerprint class is its smallest input.

use std::collections::HashSet;

#[derive(Clone)]
pub struct Item {
    pub bytes: Vec<u8>,
    /// Rust expression that rebuilds `bytes` (pasteable into a `#[test]`).
    pub expr: String,
}

fn lit(b: &[u8]) -> String {
    format!("vec!{b:?}")
}

/// All strings of length <= max_len over `alpha`, by length then lexicographically.
pub fn all_strings(alpha: &[u8], max_len: usize, out: &mut Vec<Item>) {
    for len in 0..=max_len {
        let n = (alpha.len() as u64).pow(len as u32);
        for mut i in 0..n {
            let mut b = vec![0u8; len];
            for k in (0..len).rev() {
                b[k] = alpha[(i % alpha.len() as u64) as usize];
                i /= alpha.len() as u64;
            }
            out.push(Item {
                expr: lit(&b),
                bytes: b,
            });
        }
    }
}

pub struct Family {
    pub name: &'static str,
    pub f: fn(usize) -> u8,
    /// closure body over `i: usize` producing the byte
    pub body: &'static str,
}

/// Structured families: position -> byte (independent of the length).
pub const FAMILIES: &[Family] = &[
    Family { name: "one(0)", f: |_| 0, body: "0u8" },
    Family { name: "one(1)", f: |_| 1, body: "1u8" },
    Family { name: "one(65)", f: |_| 65, body: "65u8" },
    Family { name: "one(255)", f: |_| 255, body: "255u8" },
    Family { name: "alt(0,1)", f: |i| [0, 1][i % 2], body: "[0u8,1][i%2]" },
    Family { name: "alt(1,2)", f: |i| [1, 2][i % 2], body: "[1u8,2][i%2]" },
    Family { name: "alt(65,66)", f: |i| [65, 66][i % 2], body: "[65u8,66][i%2]" },
    Family { name: "alt(0,255)", f: |i| [0, 255][i % 2], body: "[0u8,255][i%2]" },
    Family { name: "cycle256", f: |i| (i % 256) as u8, body: "(i%256) as u8" },
    Family { name: "cycle256+1", f: |i| ((i + 1) % 256) as u8, body: "((i+1)%256) as u8" },
    Family { name: "cycle256-rev", f: |i| (255 - i % 256) as u8, body: "(255-i%256) as u8" },
    // 1:255 skew: one rare symbol per 256 positions
    Family { name: "skew(65,66)", f: |i| if i % 256 == 1 { 66 } else { 65 }, body: "if i%256==1 {66u8} else {65}" },
    Family { name: "skew(255,0)", f: |i| if i % 256 == 1 { 0 } else { 255 }, body: "if i%256==1 {0u8} else {255}" },
    Family { name: "skew(2,3)", f: |i| if i % 256 == 255 { 3 } else { 2 }, body: "if i%256==255 {3u8} else {2}" },
    // long runs
    Family { name: "runs-inc", f: runs_inc, body: "{let mut k=0usize; let mut s=0usize; while s+k+1<=i {s+=k+1; k+=1;} [65u8,66,67,68][k%4]}" },
    Family { name: "runs64", f: |i| [65, 66, 67, 65][(i / 64) % 4], body: "[65u8,66,67,65][(i/64)%4]" },
    Family { name: "run-then-1", f: |i| if i == 0 { 9 } else { 7 }, body: "if i==0 {9u8} else {7}" },
    Family { name: "runs255", f: |i| if i % 256 == 255 { 8 } else { 7 }, body: "if i%256==255 {8u8} else {7}" },
    // two singletons in a long run: floor-normalised frequencies + the two minimum-1 bumps exceed the
    // table total from 8193 bytes on (the over-sum correction of the normaliser)
    Family { name: "two-singletons", f: |i| [9, 8, 7][i.min(2)], body: "[9u8,8,7][i.min(2)]" },
    // <= 16 distinct symbols (PACK boundaries 2/4/16) and just above
    Family { name: "pack2", f: |i| 3 + 10 * (i % 2) as u8, body: "3+10*(i%2) as u8" },
    Family { name: "pack3", f: |i| 3 + 10 * (i % 3) as u8, body: "3+10*(i%3) as u8" },
    Family { name: "pack4", f: |i| 3 + 10 * (i % 4) as u8, body: "3+10*(i%4) as u8" },
    Family { name: "pack5", f: |i| 3 + 10 * (i % 5) as u8, body: "3+10*(i%5) as u8" },
    Family { name: "pack16", f: |i| 3 + 10 * (i % 16) as u8, body: "3+10*(i%16) as u8" },
    Family { name: "pack17", f: |i| 3 + 10 * (i % 17) as u8, body: "3+10*(i%17) as u8" },
    // pseudo-text: a fixed multiplicative sequence (deterministic, not a random source)
    Family { name: "mix", f: |i| ((i * i * 7 + i * 13) % 23 + 60) as u8, body: "((i*i*7+i*13)%23+60) as u8" },
    Family { name: "mix256", f: |i| ((i * 167 + (i / 7) * 31) % 256) as u8, body: "((i*167+(i/7)*31)%256) as u8" },
    // the three highest symbols (table run reaching 0xff)
    Family { name: "top3", f: |i| 253 + (i % 3) as u8, body: "253+(i%3) as u8" },
];

fn runs_inc(i: usize) -> u8 {
    let mut k = 0usize;
    let mut s = 0usize;
    while s + k + 1 <= i {
        s += k + 1;
        k += 1;
    }
    [65u8, 66, 67, 68][k % 4]
}

pub fn family_item(fam: &Family, len: usize) -> Item {
    Item {
        bytes: (0..len).map(fam.f).collect(),
        expr: format!("(0..{len}usize).map(|i| {}).collect::<Vec<u8>>() /* {} */", fam.body, fam.name),
    }
}

pub fn families(lens: impl Iterator<Item = usize> + Clone, out: &mut Vec<Item>) {
    for len in lens {
        for fam in FAMILIES {
            out.push(family_item(fam, len));
        }
    }
}

/// Removes byte-identical items (keeps the first), returns how many were dropped.
pub fn dedup(items: &mut Vec<Item>) -> usize {
    let before = items.len();
    let mut seen: HashSet<Vec<u8>> = HashSet::new();
    items.retain(|it| seen.insert(it.bytes.clone()));
    before - items.len()
}

/// Lengths straddling the 4-way / 32-way interleave, the N32 and stripe remainders, and the
/// 12-bit / 16-bit size boundaries (those <= 300 are already in the 0..=300 range).
pub const STRADDLE: &[usize] = &[3, 4, 5, 31, 32, 33, 127, 128, 129, 4095, 4096, 4097, 65535, 65536, 65537];

/// All compositions of `n` into 1..=max_parts positive parts (n = 0: the empty composition).
pub fn compositions(n: usize, max_parts: usize) -> Vec<Vec<usize>> {
    fn rec(rest: usize, parts_left: usize, cur: &mut Vec<usize>, out: &mut Vec<Vec<usize>>) {
        if rest == 0 {
            out.push(cur.clone());
            return;
        }
        if parts_left == 0 {
            return;
        }
        for first in 1..=rest {
            cur.push(first);
            rec(rest - first, parts_left - 1, cur, out);
            cur.pop();
        }
    }
    let mut out = Vec::new();
    rec(n, max_parts, &mut Vec::new(), &mut out);
    out
}

/// "Dominant symbol + k rare symbols": `len` bytes of 73 with k distinct rare symbols (10, 20, ...)
/// occurring `occ` (1 or 2) times each, at the start, at the end, or spread evenly. With floor
/// normalisation the dominant symbol gets total - ceil(k*total/len) and every rare symbol is bumped
/// from 0 to 1, so the table over-shoots its total by up to k-1: only the normaliser's *downward*
/// correction keeps it valid (rANS 4x8 tolerates 4096 for a 4095 target, so k >= 3 is needed there;
/// Nx16 needs exactly 4096).
pub fn dominant_rare(len: usize, k: usize, placement: usize, occ: usize) -> Item {
    let mut b = vec![73u8; len];
    let place = ["start", "end", "spread"][placement];
    for j in 0..k {
        let sym = (10 * (j + 1)) as u8;
        for o in 0..occ {
            let slot = j * occ + o;
            let pos = match placement {
                0 => slot,
                1 => len - 1 - slot,
                _ => (slot + 1) * len / (k * occ + 1),
            };
            b[pos] = sym;
        }
    }
    Item {
        bytes: b,
        expr: format!(
            "{{let (len,k,occ)=({len}usize,{k}usize,{occ}usize); let mut b=vec![73u8;len]; for j in 0..k {{ for o in 0..occ {{ let slot=j*occ+o; let pos={}; b[pos]=(10*(j+1)) as u8; }} }} b}} /* dominant+{k}-rare x{occ} at {place} */",
            ["slot", "len-1-slot", "(slot+1)*len/(k*occ+1)"][placement]
        ),
    }
}

/// Large inputs for the general-purpose compressors (a single `write` whose compressed output
/// exceeds the encoders' internal 32 KiB buffers): incompressible bytes from a fixed LCG (a
/// deterministic sequence, not a random source), text-like with period 61, a 4-symbol skew, zeros.
pub const LARGE_CLASSES: &[&str] = &["lcg", "text61", "skew4", "zeros"];

pub fn large(class: usize, len: usize) -> Item {
    let bytes: Vec<u8> = match class {
        0 => {
            let mut s: u64 = 0x2545_f491_4f6c_dd1d;
            (0..len)
                .map(|_| {
                    s = s.wrapping_mul(6364136223846793005).wrapping_add(1442695040888963407);
                    (s >> 56) as u8
                })
                .collect()
        }
        1 => (0..len).map(|i| b"@SRR0:1:1101:1234:5678 GATTACAGATTACA IIIIHHHGGFFEEDD+ACGTNNacgt\n"[i % 61]).collect(),
        2 => (0..len).map(|i| [65u8, 65, 65, 67, 65, 71, 65, 65, 84, 65, 65][(i * 7 + i / 11) % 11]).collect(),
        _ => vec![0u8; len],
    };
    Item {
        bytes,
        expr: format!("corpus::large(/* {} */ {class}, {len})", LARGE_CLASSES[class]),
    }
}
