//! Tiny standalone reproductions of the C08 failure classes through the H3 hook
//! (`noodles_cram::verif`), one minimal input each. Prints what noodles does; decides nothing.
//! `cargo run --release -p c08 --bin c08repro`

use noodles_cram::verif as nv;

fn show<T: std::fmt::Debug>(what: &str, f: impl FnOnce() -> std::io::Result<T> + std::panic::UnwindSafe) {
    std::panic::set_hook(Box::new(|_| {}));
    match std::panic::catch_unwind(f) {
        Ok(Ok(v)) => println!("{what}\n    -> Ok({v:?})"),
        Ok(Err(e)) => println!("{what}\n    -> Err({:?}: {e})", e.kind()),
        Err(p) => println!(
            "{what}\n    -> PANIC {}",
            p.downcast_ref::<String>().cloned().or_else(|| p.downcast_ref::<&str>().map(|s| s.to_string())).unwrap_or_default()
        ),
    }
}

fn rt4x8(order: nv::Order, x: &[u8]) -> std::io::Result<(bool, Vec<u8>)> {
    let e = nv::rans_4x8_encode(order, x)?;
    let d = nv::rans_4x8_decode(&e)?;
    Ok((d == x, d.into_iter().take(8).collect()))
}

fn rtnx16(flags: u8, x: &[u8]) -> std::io::Result<(bool, Vec<u8>)> {
    let e = nv::rans_nx16_encode(nv::RansNx16Flags::from_bits_truncate(flags), x)?;
    let d = nv::rans_nx16_decode(&e, x.len())?;
    Ok((d == x, d.into_iter().take(8).collect()))
}

fn rtaac(flags: u8, x: &[u8]) -> std::io::Result<(bool, Vec<u8>)> {
    let e = nv::aac_encode(nv::AacFlags::from_bits_truncate(flags), x)?;
    let d = nv::aac_decode(&e, x.len())?;
    Ok((d == x, d.into_iter().take(8).collect()))
}

fn main() {
    println!("(round trip == input?, first decoded bytes)");
    show("A  rans_4x8 o0 [1]", || rt4x8(nv::Order::Zero, &[1]));
    show("A  rans_4x8 o0 [1,1,255]", || rt4x8(nv::Order::Zero, &[1, 1, 255]));
    show("A  rans_4x8 o1 [0,0,1,1]", || rt4x8(nv::Order::One, &[0, 0, 1, 1]));
    show("A  rans_nx16 {} [1,1,1,1]", || rtnx16(0, &[1, 1, 1, 1]));
    show("A  rans_nx16 {} [1,7,7,7]", || rtnx16(0, &[1, 7, 7, 7]));
    show("A  rans_nx16 {} [1,1,1,2]", || rtnx16(0, &[1, 1, 1, 2]));
    show("A  rans_nx16 STRIPE 16 x 0x01", || rtnx16(0x08, &[1; 16]));
    show("A  name_tokenizer [a1,a01,b1,a]", || {
        let x = b"a1\0a01\0b1\0a\0";
        let e = nv::name_tokenizer_encode(x)?;
        let d = nv::name_tokenizer_decode(&e)?;
        Ok((d == x, String::from_utf8_lossy(&d).replace('\0', "|")))
    });
    show("B  rans_4x8 o0 [253,254,255]", || rt4x8(nv::Order::Zero, &[253, 254, 255]));
    show("B  rans_4x8 o1 [253,254,255,253]", || rt4x8(nv::Order::One, &[253, 254, 255, 253]));
    let mix: Vec<u8> = (0..76usize).map(|i| ((i * i * 7 + i * 13) % 23 + 60) as u8).collect();
    show("C  rans_nx16 ORDER, 76 bytes of (i*i*7+i*13)%23+60", || rtnx16(0x01, &mix));
    let text: Vec<u8> = b"@SRR000001.1 HWI-EAS_1:1:1:10:100 length=36 GATTACAGATTACAGATTACA IIIIIIIIIIIIIIIIIIIII ".iter().cycle().take(400).copied().collect();
    show("C  rans_nx16 ORDER, 400 bytes of FASTQ-like text", || rtnx16(0x01, &text));
    show("D  aac {} [0,1,255]", || rtaac(0, &[0, 1, 255]));
    show("E  aac {} []", || rtaac(0, &[]));
    show("E  aac PACK [7]", || rtaac(0x80, &[7]));
    show("E  aac STRIPE [2,1]", || rtaac(0x08, &[2, 1]));
    show("F  rans_4x8 o0 []", || rt4x8(nv::Order::Zero, &[]));
    show("G  fqzcomp lens=[] quals=[]", || {
        let e = nv::fqzcomp_encode(&[], &[])?;
        nv::fqzcomp_decode(&e)
    });
    show("H  name_tokenizer []", || {
        let e = nv::name_tokenizer_encode(&[])?;
        nv::name_tokenizer_decode(&e)
    });
    show("L  name_tokenizer [a:1,a:01]", || {
        let x = b"a:1\0a:01\0";
        let e = nv::name_tokenizer_encode(x)?;
        let d = nv::name_tokenizer_decode(&e)?;
        Ok((d == x, String::from_utf8_lossy(&d).replace('\0', "|")))
    });
    show("J  fqzcomp with a zero-length record lens=[2,0,2] quals=[1,2,3,4]", || {
        let e = nv::fqzcomp_encode(&[2, 0, 2], &[1, 2, 3, 4])?;
        nv::fqzcomp_decode(&e)
    });
    let big = vec![b'I'; (1 << 20) + 2048];
    show("I  rans_4x8 o0 on 2^20+2048 equal bytes (u32 frequency * 4095)", || rt4x8(nv::Order::Zero, &big).map(|r| r.0));
    show("I  rans_nx16 {} on 2^20+2048 equal bytes (u32 frequency * 4096)", || rtnx16(0, &big).map(|r| r.0));
    let many: Vec<u8> = std::iter::repeat_n(*b"a:", 70).flatten().chain(*b"\0").collect();
    show("K  name_tokenizer one name of 140 tokens (\"a:\" x 70)", || {
        let e = nv::name_tokenizer_encode(&many)?;
        let d = nv::name_tokenizer_decode(&e)?;
        Ok(d == many)
    });
    println!("-- accepted by the format (not a violation) --");
    show("   rans_4x8 o1 [1,2,3] (order-1 of < 4 bytes is not permitted by the format)", || rt4x8(nv::Order::One, &[1, 2, 3]));
}
