//! The same defects through the *public* API only (no hook): a CRAM written by
//! `cram::io::writer::Builder` with a user-selected block encoder for the quality-score series, read
//! back with `cram::io::Reader`. Prints what happens; decides nothing.

use noodles_cram::{
    self as cram,
    codecs::{Encoder, aac, rans_4x8::Order, rans_nx16},
    container::{BlockContentEncoderMap, compression_header::data_series_encodings::DataSeries},
};
use noodles_sam::{
    self as sam,
    alignment::{RecordBuf, io::Write, record_buf::{QualityScores, Sequence}},
};

fn round_trip(encoder: Encoder, quals: &[Vec<u8>]) -> Result<bool, Box<dyn std::error::Error>> {
    let map = BlockContentEncoderMap::builder()
        .set_data_series_encoder(DataSeries::QualityScores, Some(encoder))
        .build();
    let header = sam::Header::default();
    let mut writer = cram::io::writer::Builder::default()
        .set_block_content_encoder_map(map)
        .build_from_writer(Vec::new());
    writer.write_header(&header)?;
    for (i, q) in quals.iter().enumerate() {
        let record = RecordBuf::builder()
            .set_name(format!("r{i}"))
            .set_flags(sam::alignment::record::Flags::UNMAPPED)
            .set_sequence(Sequence::from(vec![b'A'; q.len()]))
            .set_quality_scores(QualityScores::from(q.clone()))
            .build();
        writer.write_alignment_record(&header, &record)?;
    }
    writer.try_finish(&header)?;
    let bytes = writer.get_ref().clone();

    let mut reader = cram::io::Reader::new(&bytes[..]);
    let header = reader.read_header()?;
    let mut back = Vec::new();
    for r in reader.records(&header) {
        let r = r?;
        back.push(r.quality_scores().as_ref().to_vec());
    }
    Ok(back == quals)
}

fn show(what: &str, encoder: Encoder, quals: &[Vec<u8>]) {
    std::panic::set_hook(Box::new(|_| {}));
    let q = quals.to_vec();
    match std::panic::catch_unwind(move || round_trip(encoder, &q).map_err(|e| e.to_string())) {
        Ok(Ok(same)) => println!("{what}\n    -> written and read back, qualities equal: {same}"),
        Ok(Err(e)) => println!("{what}\n    -> Err({e})"),
        Err(p) => println!(
            "{what}\n    -> PANIC {}",
            p.downcast_ref::<String>().cloned().or_else(|| p.downcast_ref::<&str>().map(|s| s.to_string())).unwrap_or_default()
        ),
    }
}

fn main() {
    let q1 = vec![vec![1u8; 8], vec![2, 1, 1, 2]];
    let text: Vec<Vec<u8>> = (0..20).map(|r| (0..100usize).map(|i| ((i * i * 7 + i * 13 + r) % 23 + 10) as u8).collect()).collect();
    show("control: gzip, qualities with smallest value 1", Encoder::Gzip(Default::default()), &q1);
    show("A  rans_4x8 order 0, qualities with smallest value 1 (Phred 1..2)", Encoder::Rans4x8(Order::Zero), &q1);
    show("A  rans_nx16 {}, the same", Encoder::RansNx16(rans_nx16::Flags::empty()), &q1);
    show("control: rans_nx16 {} on 20 reads x 100 varied qualities", Encoder::RansNx16(rans_nx16::Flags::empty()), &text);
    show("C  rans_nx16 ORDER on 20 reads x 100 varied qualities", Encoder::RansNx16(rans_nx16::Flags::ORDER), &text);
    show("D  aac {} with a quality 255", Encoder::AdaptiveArithmeticCoding(aac::Flags::empty()), &[vec![255, 30, 30, 30]]);
    show("J  fqzcomp with a read without bases between two reads", Encoder::Fqzcomp, &[vec![30, 31], vec![], vec![32, 33]]);
}
