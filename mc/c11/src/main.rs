//! C11 — FASTA/FASTQ indexing and random access return exactly the indexed bases.
//!
//! E3, complete sweeps over file geometries x reader configurations; inside every case the index is
//! compared with a naive whole-file parse and *every* region of every record is queried.
//! Oracles (all written here, none calls noodles): `naive_parse` (split on line feeds, strip
//! terminators, '>' at line start opens a record), the generator's own knowledge of raggedness,
//! and the input records for the write -> read laws.

mod defs;
mod indexio;
mod paths;
mod reuse;

use std::{
    collections::HashSet,
    hash::{Hash, Hasher},
    io::{BufRead, BufReader, Cursor, Seek},
    num::NonZero,
    sync::{
        Mutex,
        atomic::{AtomicU64, Ordering::Relaxed},
    },
};

use noodles_bgzf as bgzf;
use noodles_core::{Position, Region, region::Interval};
use noodles_fasta::{self as fasta, fai};
use noodles_fastq as fastq;
use vmc::{Outcome, Violation, env::FaultSink, json, oracle::bgzf as ob};

// ------------------------------------------------------------------------------------------------
// file generator
// ------------------------------------------------------------------------------------------------

#[derive(Clone, Copy, Debug, PartialEq, Eq, Hash)]
enum Ragged {
    None,
    /// a line that is neither first nor last has one base more
    LongMiddle,
    /// a line that is neither first nor last has one base less
    ShortMiddle,
    /// the last line is longer than the first
    LongerLast,
    /// an empty line between two sequence lines of one record
    BlankMiddle,
    /// a middle line uses the other line terminator (same bases, different width)
    MixedEolMiddle,
    /// an empty line between the definition and the first sequence line: no fai record with the
    /// naive offset exists; an indexer may refuse it or skip the blank line consistently
    BlankAfterDefinition,
}

const RAGGED_KINDS: [Ragged; 6] = [
    Ragged::LongMiddle,
    Ragged::ShortMiddle,
    Ragged::LongerLast,
    Ragged::BlankMiddle,
    Ragged::MixedEolMiddle,
    Ragged::BlankAfterDefinition,
];

#[derive(Clone, Debug, PartialEq, Eq, Hash)]
struct FileSpec {
    /// (sequence length, bases per line)
    recs: Vec<(usize, usize)>,
    crlf: bool,
    /// line terminators after the last sequence line: 0 = no final newline, 1 = final newline,
    /// 2..=5 = one to four blank trailing lines
    tail: usize,
    desc: bool,
    /// this many blank lines (0..=4) after every record but the last
    sep_blank: usize,
    ragged: Ragged,
    ragged_rec: usize,
    /// wide geometry: in the quick tier only boundary regions are queried
    wide: bool,
}

const ALPH12: &[u8; 12] = b"ACGTNacgtnMR";

/// Base `i` of record `r`: 12 distinct symbols in a row (upper and lower case) for short sequences so
/// that every off-by-one is visible, a non-periodic mix beyond.
fn base(r: usize, i: usize) -> u8 {
    if i < 12 {
        ALPH12[(i + 5 * r) % 12]
    } else {
        let h = ((i as u64 + 1).wrapping_mul(2654435761) ^ (r as u64).wrapping_mul(40503)) >> 7;
        ALPH12[(h % 12) as usize]
    }
}

fn rec_name(r: usize) -> String {
    format!("r{r}")
}

fn rec_desc(r: usize) -> String {
    // contains letters that are also bases so that definition bytes could pass for bases
    format!("second de{r} ACGT")
}

fn eol(crlf: bool) -> &'static [u8] {
    if crlf { b"\r\n" } else { b"\n" }
}

/// Renders the file; `None` when the ragged variant does not apply to the geometry.
fn build_file(s: &FileSpec) -> Option<Vec<u8>> {
    let mut out = Vec::new();
    let n = s.recs.len();
    for (r, &(len, width)) in s.recs.iter().enumerate() {
        out.push(b'>');
        out.extend_from_slice(rec_name(r).as_bytes());
        if s.desc {
            out.push(b' ');
            out.extend_from_slice(rec_desc(r).as_bytes());
        }
        out.extend_from_slice(eol(s.crlf));

        let seq: Vec<u8> = (0..len).map(|i| base(r, i)).collect();
        let mut lines: Vec<Vec<u8>> = seq.chunks(width).map(|c| c.to_vec()).collect();
        let mut other_eol_at = None;
        if s.ragged != Ragged::None && s.ragged_rec == r {
            let k = lines.len();
            match s.ragged {
                Ragged::None => {}
                Ragged::LongMiddle => {
                    if k < 3 {
                        return None;
                    }
                    lines[1].push(b'G');
                }
                Ragged::ShortMiddle => {
                    if k < 3 || width < 2 {
                        return None;
                    }
                    lines[1].pop();
                }
                Ragged::LongerLast => {
                    if k < 2 {
                        return None;
                    }
                    let last = k - 1;
                    while lines[last].len() <= width {
                        lines[last].push(b'T');
                    }
                }
                Ragged::BlankMiddle => {
                    if k < 2 {
                        return None;
                    }
                    lines.insert(1, Vec::new());
                }
                Ragged::MixedEolMiddle => {
                    if k < 3 {
                        return None;
                    }
                    other_eol_at = Some(1);
                }
                Ragged::BlankAfterDefinition => {
                    lines.insert(0, Vec::new());
                }
            }
        }
        let k = lines.len();
        for (j, l) in lines.iter().enumerate() {
            out.extend_from_slice(l);
            let last_line_of_file = r + 1 == n && j + 1 == k;
            if last_line_of_file {
                for _ in 0..s.tail {
                    out.extend_from_slice(eol(s.crlf));
                }
            } else if other_eol_at == Some(j) {
                out.extend_from_slice(eol(!s.crlf));
            } else {
                out.extend_from_slice(eol(s.crlf));
            }
        }
        if r + 1 < n {
            for _ in 0..s.sep_blank {
                out.extend_from_slice(eol(s.crlf));
            }
        }
    }
    Some(out)
}

// ------------------------------------------------------------------------------------------------
// naive whole-file parse (the oracle)
// ------------------------------------------------------------------------------------------------

#[derive(Clone, Debug, PartialEq, Eq)]
struct Naive {
    name: Vec<u8>,
    length: u64,
    offset: u64,
    line_bases: u64,
    line_width: u64,
    bases: Vec<u8>,
    /// raw content lengths and raw widths of every sequence line (for the raggedness self check)
    lines: Vec<(usize, usize)>,
}

fn naive_parse(bytes: &[u8]) -> Vec<Naive> {
    let mut out: Vec<Naive> = Vec::new();
    let mut p = 0usize;
    while p < bytes.len() {
        let end = match bytes[p..].iter().position(|&b| b == b'\n') {
            Some(i) => p + i + 1,
            None => bytes.len(),
        };
        let raw = &bytes[p..end];
        let mut content = raw;
        if content.last() == Some(&b'\n') {
            content = &content[..content.len() - 1];
            if content.last() == Some(&b'\r') {
                content = &content[..content.len() - 1];
            }
        }
        if content.first() == Some(&b'>') {
            let rest = &content[1..];
            let k = rest.iter().position(|b| b.is_ascii_whitespace()).unwrap_or(rest.len());
            out.push(Naive {
                name: rest[..k].to_vec(),
                length: 0,
                offset: end as u64,
                line_bases: 0,
                line_width: 0,
                bases: Vec::new(),
                lines: Vec::new(),
            });
        } else if let Some(cur) = out.last_mut() {
            if cur.lines.is_empty() {
                cur.offset = p as u64;
                cur.line_bases = content.len() as u64;
                cur.line_width = raw.len() as u64;
            }
            cur.lines.push((content.len(), raw.len()));
            cur.length += content.len() as u64;
            cur.bases.extend_from_slice(content);
        }
        p = end;
    }
    out
}

/// Independent statement of "no fai record can describe this record": some line before the last
/// *non-empty-or-not* line differs from the first in bases or width, or the last is longer.
fn naive_is_ragged(n: &Naive) -> bool {
    // trailing blank lines are not sequence lines
    let mut lines = n.lines.clone();
    while lines.last().map(|l| l.0 == 0).unwrap_or(false) {
        lines.pop();
    }
    if lines.is_empty() {
        return false;
    }
    let first = lines[0];
    let k = lines.len();
    for (j, l) in lines.iter().enumerate() {
        if j + 1 < k {
            if *l != first {
                return true;
            }
        } else if l.0 > first.0 {
            return true;
        }
    }
    false
}

// ------------------------------------------------------------------------------------------------
// reader configurations
// ------------------------------------------------------------------------------------------------

#[derive(Clone, Copy, Debug, PartialEq, Eq, Hash)]
enum Rd {
    /// `std::io::BufReader` of this capacity over a `Cursor`
    Plain(usize),
    /// bgzipped with the harness' block maker, blocks of `bs` payload bytes, harness-built gzi;
    /// `eof_entry`: the gzi also lists the start of the EOF block (as bgzip writes it)
    Bgzf { bs: usize, eof_entry: bool },
}

impl Rd {
    fn container(&self) -> &'static str {
        match self {
            Rd::Plain(_) => "plain",
            Rd::Bgzf { .. } => "bgzf",
        }
    }
}

struct Bgz {
    bytes: Vec<u8>,
    gzi: Vec<(u64, u64)>,
}

fn bgzip(plain: &[u8], bs: usize, eof_entry: bool) -> Bgz {
    let blocks: Vec<Vec<u8>> = plain.chunks(bs).map(|c| c.to_vec()).collect();
    let (bytes, offs) = ob::make_file(&blocks, true, 6);
    let mut gzi = Vec::new();
    let mut u = 0u64;
    for (i, b) in blocks.iter().enumerate() {
        if i > 0 {
            gzi.push((offs[i] as u64, u));
        }
        u += b.len() as u64;
    }
    if eof_entry && !blocks.is_empty() {
        gzi.push(((bytes.len() - ob::EOF.len()) as u64, u));
    }
    Bgz { bytes, gzi }
}

// ------------------------------------------------------------------------------------------------
// helpers
// ------------------------------------------------------------------------------------------------

fn lit(b: &[u8]) -> String {
    let mut s = String::from("b\"");
    for &c in b {
        match c {
            b'\n' => s.push_str("\\n"),
            b'\r' => s.push_str("\\r"),
            b'\t' => s.push_str("\\t"),
            b'"' => s.push_str("\\\""),
            b'\\' => s.push_str("\\\\"),
            0x20..=0x7e => s.push(c as char),
            _ => s.push_str(&format!("\\x{c:02x}")),
        }
    }
    s.push('"');
    if s.len() > 900 {
        let mut e = 900;
        while !s.is_char_boundary(e) {
            e -= 1;
        }
        s.truncate(e);
        s.push_str("…\"");
    }
    s
}

fn vio(fp: String, decoded: String, exp: impl Into<String>, obs: impl Into<String>) -> Violation {
    Violation::new(fp, decoded, exp, obs)
}

#[derive(Default)]
struct Counters {
    queries: AtomicU64,
    beyond_empty: AtomicU64,
    beyond_err: AtomicU64,
    beyond_bytes: AtomicU64,
    ragged_rejected: AtomicU64,
    blank_accepted: AtomicU64,
    blank_rejected: AtomicU64,
    index_records: AtomicU64,
    cr_split_fills: AtomicU64,
    files: Mutex<HashSet<u64>>,
    region_states: AtomicU64,
}

fn h64(x: impl Hash) -> u64 {
    let mut h = std::collections::hash_map::DefaultHasher::new();
    x.hash(&mut h);
    h.finish()
}

/// Runs the noodles indexer to the end (as `fasta::fs::index` does).
fn run_indexer<R: BufRead>(r: R, cap_iters: usize) -> Result<Vec<fai::Record>, String> {
    let mut ix = fasta::io::Indexer::new(r);
    let mut v = Vec::new();
    for _ in 0..cap_iters {
        match ix.index_record() {
            Ok(Some(rec)) => v.push(rec),
            Ok(None) => return Ok(v),
            Err(e) => return Err(format!("{e}")),
        }
    }
    Err("HANG: indexer did not finish".into())
}

fn index_with(rd: Rd, plain: &[u8], bgz: Option<&Bgz>) -> Result<Vec<fai::Record>, String> {
    let cap_iters = plain.len() + 1000;
    match rd {
        Rd::Plain(cap) => run_indexer(BufReader::with_capacity(cap, Cursor::new(plain)), cap_iters),
        Rd::Bgzf { .. } => run_indexer(bgzf::io::Reader::new(&bgz.unwrap().bytes[..]), cap_iters),
    }
}

fn region_of(name: &[u8], start: Option<usize>, end: Option<usize>) -> Region {
    let p = |n: usize| Position::try_from(n).expect("position >= 1");
    let iv: Interval = match (start, end) {
        (Some(s), Some(e)) => (p(s)..=p(e)).into(),
        (Some(s), None) => (p(s)..).into(),
        (None, Some(e)) => (..=p(e)).into(),
        (None, None) => (..).into(),
    };
    Region::new(name, iv)
}

fn region_text(name: &[u8], start: Option<usize>, end: Option<usize>) -> String {
    let n = String::from_utf8_lossy(name);
    match (start, end) {
        (Some(s), Some(e)) => format!("Region::new(\"{n}\", {s}..={e})"),
        (Some(s), None) => format!("Region::new(\"{n}\", {s}..)"),
        (None, Some(e)) => format!("Region::new(\"{n}\", ..={e})"),
        (None, None) => format!("Region::new(\"{n}\", ..)"),
    }
}

/// All regions of a record of length `len`: closed `s..=e` with `1 <= s <= e <= len+3`, open-ended
/// `s..`, `..=e`, `..`. With `boundary = Some(width)` only positions next to line and sequence
/// boundaries are used (quick tier of the wide geometries).
fn regions(len: usize, boundary: Option<usize>) -> Vec<(Option<usize>, Option<usize>)> {
    let max = len + 3;
    let pts: Vec<usize> = match boundary {
        None => (1..=max).collect(),
        Some(w) => {
            let mut v = vec![1, 2, 3];
            let mut k = w;
            while k <= len + w {
                for d in [k.saturating_sub(1), k, k + 1] {
                    v.push(d);
                }
                k += w;
            }
            for d in [len.saturating_sub(1), len, len + 1, len + 2, len + 3] {
                v.push(d);
            }
            v.retain(|&x| x >= 1 && x <= max);
            v.sort_unstable();
            v.dedup();
            v
        }
    };
    let mut out = Vec::new();
    for (i, &s) in pts.iter().enumerate() {
        for &e in &pts[i..] {
            out.push((Some(s), Some(e)));
        }
        out.push((Some(s), None));
        out.push((None, Some(s)));
    }
    out.push((None, None));
    out
}

fn what_bytes(got: &[u8], all: &[Naive], me: usize, _file: &[u8]) -> &'static str {
    // class-level description of wrongly returned bytes (for the fingerprint)
    if got.iter().any(|b| !ALPH12.contains(b)) {
        // names and descriptions contain letters, digits and blanks that are not base symbols
        "definition-line-bytes"
    } else if all.iter().enumerate().any(|(i, n)| i != me && n.bases.windows(got.len()).any(|w| w == got)) {
        "bases-of-another-record"
    } else {
        "other-bytes"
    }
}

#[derive(Clone, Copy, PartialEq, Eq, Debug)]
enum Mode {
    /// index vs naive parse, ragged rejection, every region with start <= len
    Geometry,
    /// every region with start > len
    Beyond,
}

/// One case = one file under one reader configuration.
fn fasta_case(s: &FileSpec, rd: Rd, mode: Mode, complete_regions: bool, c: &Counters) -> Outcome {
    let Some(plain) = build_file(s) else {
        return Ok(());
    };
    let describe = |extra: &str| {
        format!(
            "file = {}; reader = {:?}{}{extra}",
            lit(&plain),
            rd,
            if s.ragged != Ragged::None { format!("; ragged = {:?} in record {}", s.ragged, s.ragged_rec) } else { String::new() }
        )
    };
    let naive = naive_parse(&plain);
    let has_blank = s.tail >= 2 || (s.sep_blank > 0 && s.recs.len() > 1);
    let ragged_by_oracle = naive.iter().any(naive_is_ragged);
    if ragged_by_oracle != (s.ragged != Ragged::None) {
        vmc::machinery(format!(
            "generator and naive parse disagree on raggedness: {}",
            describe("")
        ));
    }
    if s.ragged == Ragged::None {
        // generator self check: the naive parse recovers what was generated
        for (r, n) in naive.iter().enumerate() {
            let (len, _) = s.recs[r];
            let want: Vec<u8> = (0..len).map(|i| base(r, i)).collect();
            if n.bases != want || n.name != rec_name(r).as_bytes() {
                vmc::machinery(format!("naive parse does not recover the generated record: {}", describe("")));
            }
        }
        if naive.len() != s.recs.len() {
            vmc::machinery("naive parse record count".to_string());
        }
    }
    if mode == Mode::Geometry {
        c.files.lock().unwrap().insert(h64((&plain, rd)));
    }

    let bgz = match rd {
        Rd::Bgzf { bs, eof_entry } => Some(bgzip(&plain, bs, eof_entry)),
        Rd::Plain(_) => None,
    };
    if let (Rd::Plain(cap), true) = (rd, s.crlf) {
        // vacuity: does a CR LF pair straddle two fills at this capacity?
        if cap < 8192 && plain.windows(2).enumerate().any(|(i, w)| w == b"\r\n" && (i + 1) % cap == 0) {
            c.cr_split_fills.fetch_add(1, Relaxed);
        }
    }

    // ---- indexer ----
    let indexed = index_with(rd, &plain, bgz.as_ref());
    let records = match (indexed, s.ragged) {
        (Err(e), Ragged::None) => {
            if e.starts_with("HANG") {
                return Err(vio(
                    format!("op=index container={} symptom=hang", rd.container()),
                    describe(""),
                    "indexer terminates",
                    e,
                ));
            }
            if has_blank {
                // the statement speaks about files the indexer accepts; blank lines may be refused
                if mode == Mode::Geometry {
                    c.blank_rejected.fetch_add(1, Relaxed);
                }
                return Ok(());
            }
            if mode == Mode::Beyond {
                return Ok(());
            }
            return Err(vio(
                format!(
                    "op=index container={} eol={} symptom=regular-file-rejected",
                    rd.container(),
                    if s.crlf { "crlf" } else { "lf" }
                ),
                describe(""),
                format!("index of {} records", naive.len()),
                format!("Err({e})"),
            ));
        }
        (Err(_), _) => {
            if mode == Mode::Geometry {
                c.ragged_rejected.fetch_add(1, Relaxed);
            }
            return Ok(());
        }
        (Ok(v), Ragged::None) => v,
        // accepted although odd: allowed only if it is consistent (name, length and every query)
        (Ok(v), Ragged::BlankAfterDefinition) => v,
        (Ok(v), kind) => {
            if mode == Mode::Beyond {
                return Ok(());
            }
            return Err(vio(
                format!("op=index container={} ragged={kind:?} symptom=ragged-file-accepted", rd.container()),
                describe(""),
                "Err (no fai record can describe the record)",
                format!(
                    "Ok: {:?}",
                    v.iter()
                        .map(|r| (r.name().to_string(), r.length(), r.position(), r.line_base_count().get(), r.line_width().get()))
                        .collect::<Vec<_>>()
                ),
            ));
        }
    };
    if has_blank && mode == Mode::Geometry {
        c.blank_accepted.fetch_add(1, Relaxed);
    }

    let got: Vec<(Vec<u8>, u64, u64, u64, u64)> = records
        .iter()
        .map(|r| (r.name().to_vec(), r.length(), r.position(), r.line_base_count().get(), r.line_width().get()))
        .collect();
    let mut want: Vec<(Vec<u8>, u64, u64, u64, u64)> = naive
        .iter()
        .map(|n| (n.name.clone(), n.length, n.offset, n.line_bases, n.line_width))
        .collect();
    if s.ragged == Ragged::BlankAfterDefinition && got.len() == want.len() {
        // the naive offset / line fields of that record are not expressible; its name, length and
        // every query are judged
        let r = s.ragged_rec;
        want[r].2 = got[r].2;
        want[r].3 = got[r].3;
        want[r].4 = got[r].4;
    }
    if got != want {
        if mode == Mode::Beyond {
            return Ok(());
        }
        let field = if got.len() != want.len() {
            "record-count"
        } else {
            let (g, w) = got.iter().zip(&want).find(|(g, w)| g != w).unwrap();
            if g.0 != w.0 {
                "name"
            } else if g.1 != w.1 {
                "length"
            } else if g.2 != w.2 {
                "offset"
            } else if g.3 != w.3 {
                "line_bases"
            } else {
                "line_width"
            }
        };
        return Err(vio(
            format!(
                "op=index container={} eol={} field={field} symptom=differs-from-naive-parse",
                rd.container(),
                if s.crlf { "crlf" } else { "lf" }
            ),
            describe(""),
            format!("(name, length, offset, line_bases, line_width) = {:?}", want.iter().map(|w| (String::from_utf8_lossy(&w.0).into_owned(), w.1, w.2, w.3, w.4)).collect::<Vec<_>>()),
            format!("{:?}", got.iter().map(|w| (String::from_utf8_lossy(&w.0).into_owned(), w.1, w.2, w.3, w.4)).collect::<Vec<_>>()),
        ));
    }
    c.index_records.fetch_add(got.len() as u64, Relaxed);

    // ---- the index through fai::io::Writer -> text -> fai::io::Reader / async reader ----
    let index = fai::Index::from(records);
    let want_text: Option<Vec<u8>> = if s.ragged == Ragged::None {
        let mut t = Vec::new();
        for n in &naive {
            t.extend_from_slice(&n.name);
            t.extend_from_slice(format!("\t{}\t{}\t{}\t{}\n", n.length, n.offset, n.line_bases, n.line_width).as_bytes());
        }
        Some(t)
    } else {
        None
    };
    let io_violation = |stage: &str, exp: String, obs: String| {
        let shape = if naive.iter().any(|n| n.line_width == n.line_bases) { "line_width-equals-line_bases" } else { "regular" };
        vio(format!("op=index-io stage={stage} container={} shape={shape} symptom=differs", rd.container()), describe(""), exp, obs)
    };
    let index = match indexio::fai_roundtrip(&index, want_text.as_deref()) {
        Ok(ix) => ix,
        Err((stage, exp, obs)) => {
            if mode == Mode::Beyond {
                return Ok(());
            }
            return Err(io_violation(stage, exp, obs));
        }
    };
    // every query below goes through the re-read index
    match rd {
        Rd::Plain(cap) => {
            let inner = BufReader::with_capacity(cap, Cursor::new(plain.clone()));
            let mut reader = fasta::io::IndexedReader::new(inner, index);
            query_all(&mut reader, s, rd, mode, complete_regions, &naive, &plain, c, &describe)
        }
        Rd::Bgzf { .. } => {
            let b = bgz.as_ref().unwrap();
            let gzi = match indexio::gzi_roundtrip(&b.gzi) {
                Ok(g) => g,
                Err((stage, exp, obs)) => {
                    if mode == Mode::Beyond {
                        return Ok(());
                    }
                    return Err(io_violation(stage, exp, obs));
                }
            };
            let inner = bgzf::io::IndexedReader::new(Cursor::new(b.bytes.clone()), gzi);
            let mut reader = fasta::io::IndexedReader::new(inner, index);
            query_all(&mut reader, s, rd, mode, complete_regions, &naive, &plain, c, &describe)
        }
    }
}

#[allow(clippy::too_many_arguments)]
fn query_all<R: BufRead + Seek>(
    reader: &mut fasta::io::IndexedReader<R>,
    s: &FileSpec,
    rd: Rd,
    mode: Mode,
    complete_regions: bool,
    naive: &[Naive],
    plain: &[u8],
    c: &Counters,
    describe: &dyn Fn(&str) -> String,
) -> Outcome {
    let mut worst: Option<Violation> = None;
    // query the records in an order that makes the reader jump backwards and forwards
    let order: Vec<usize> = (0..naive.len()).rev().collect();
    for &r in &order {
        let n = &naive[r];
        let len = n.length as usize;
        let width = s.recs[r].1;
        let rs = regions(len, if s.wide && !complete_regions { Some(width) } else { None });
        for (start, end) in rs {
            let s1 = start.unwrap_or(1);
            let beyond = s1 > len;
            if beyond != (mode == Mode::Beyond) {
                continue;
            }
            let region = region_of(&n.name, start, end);
            let res = vmc::catch(|| reader.query(&region));
            c.queries.fetch_add(1, Relaxed);
            let form = match (start, end) {
                (Some(_), Some(_)) => "closed",
                (Some(_), None) => "from",
                (None, Some(_)) => "to",
                (None, None) => "full",
            };
            let res = match res {
                Ok(r) => r,
                Err((msg, file)) => {
                    let v = vio(
                        format!(
                            "op=query container={} region={} form={form} symptom=panic msg={} file={file}",
                            rd.container(),
                            if beyond { "start-beyond-length" } else { "in-range" },
                            vmc::normalise_msg(&msg)
                        ),
                        describe(&format!("; query {}", region_text(&n.name, start, end))),
                        if beyond { "empty sequence or Err" } else { "the bases of the region" },
                        format!("panic: {msg} in {file}"),
                    );
                    if worst.is_none() {
                        worst = Some(v);
                    }
                    // the reader may be in any state now; stop this case
                    return Err(worst.unwrap());
                }
            };
            if beyond {
                match res {
                    Err(_) => {
                        c.beyond_err.fetch_add(1, Relaxed);
                    }
                    Ok(rec) if rec.sequence().is_empty() => {
                        c.beyond_empty.fetch_add(1, Relaxed);
                    }
                    Ok(rec) => {
                        c.beyond_bytes.fetch_add(1, Relaxed);
                        if worst.is_none() {
                            let got = rec.sequence().as_ref().to_vec();
                            let what = what_bytes(&got, naive, r, plain);
                            worst = Some(vio(
                                format!(
                                    "op=query container={} region=start-beyond-length symptom=returns-bytes what={what}",
                                    rd.container()
                                ),
                                describe(&format!(
                                    "; query {} (sequence length {len})",
                                    region_text(&n.name, start, end)
                                )),
                                "empty sequence or Err (start is beyond the end of the sequence)",
                                format!("Ok({})", lit(&got)),
                            ));
                        }
                    }
                }
            } else {
                let e1 = end.unwrap_or(usize::MAX).min(len);
                let want = &n.bases[s1 - 1..e1];
                let ends = if end.map(|e| e > len).unwrap_or(false) { "end-beyond-length" } else { "in-range" };
                match res {
                    Ok(rec) if rec.sequence().as_ref() == want => {}
                    Ok(rec) => {
                        let got = rec.sequence().as_ref().to_vec();
                        let sym = if got.len() != want.len() {
                            if got.starts_with(want) { "too-long" } else if want.starts_with(&got) { "too-short" } else { "wrong-bases" }
                        } else {
                            "wrong-bases"
                        };
                        return Err(vio(
                            format!(
                                "op=query container={} region={ends} form={form} eol={} symptom={sym}",
                                rd.container(),
                                if s.crlf { "crlf" } else { "lf" }
                            ),
                            describe(&format!("; query {} (sequence length {len})", region_text(&n.name, start, end))),
                            format!("Ok({})", lit(want)),
                            format!("Ok({})", lit(&got)),
                        ));
                    }
                    Err(e) => {
                        return Err(vio(
                            format!(
                                "op=query container={} region={ends} form={form} symptom=error",
                                rd.container()
                            ),
                            describe(&format!("; query {} (sequence length {len})", region_text(&n.name, start, end))),
                            format!("Ok({})", lit(want)),
                            format!("Err({e})"),
                        ));
                    }
                }
            }
        }
        c.region_states.fetch_add(1, Relaxed);
    }
    match worst {
        Some(v) => Err(v),
        None => Ok(()),
    }
}

// ------------------------------------------------------------------------------------------------
// spec lists
// ------------------------------------------------------------------------------------------------

fn g60() -> Vec<(usize, usize)> {
    let mut v = Vec::new();
    for len in 1..=12 {
        for w in 1..=5 {
            v.push((len, w));
        }
    }
    v
}

fn specs(quick: bool) -> Vec<FileSpec> {
    let mut out = Vec::new();
    let g = g60();
    let variants = |n: usize| {
        let mut v = Vec::new();
        for crlf in [false, true] {
            for tail in 0..=5usize {
                for sep_blank in if n > 1 { 0..=4usize } else { 0..=0 } {
                    // descriptions only with the small blank-line counts (they do not interact)
                    let descs: &[bool] = if tail <= 3 && sep_blank <= 1 { &[false, true] } else { &[false] };
                    for &desc in descs {
                        v.push((crlf, tail, desc, sep_blank));
                    }
                }
            }
        }
        v
    };
    let push = |recs: Vec<(usize, usize)>, out: &mut Vec<FileSpec>| {
        for (crlf, tail, desc, sep_blank) in variants(recs.len()) {
            out.push(FileSpec { recs: recs.clone(), crlf, tail, desc, sep_blank, ragged: Ragged::None, ragged_rec: 0, wide: false });
        }
    };
    // one record: complete
    for &a in &g {
        push(vec![a], &mut out);
    }
    // two records
    if quick {
        let nb = [(1, 1), (2, 1), (3, 1), (2, 2), (3, 2), (5, 2), (6, 3), (7, 3), (4, 4), (9, 4), (5, 5), (12, 5)];
        for &a in &g {
            for &b in &nb {
                push(vec![a, b], &mut out);
                if a != b {
                    push(vec![b, a], &mut out);
                }
            }
        }
    } else {
        for &a in &g {
            for &b in &g {
                push(vec![a, b], &mut out);
            }
        }
        // one record, beyond the complete square: lengths 13..=24 x widths 1..=8, widths 6..=8 for the short ones
        for len in 1..=24 {
            for w in 1..=8 {
                if len > 12 || w > 5 {
                    push(vec![(len, w)], &mut out);
                }
            }
        }
    }
    // three records
    let g3: Vec<(usize, usize)> = if quick {
        vec![(1, 1), (3, 1), (5, 2), (7, 3)]
    } else {
        let mut v = Vec::new();
        for len in [1, 2, 3, 5] {
            for w in [1, 2, 3] {
                v.push((len, w));
            }
        }
        v
    };
    for &a in &g3 {
        for &b in &g3 {
            for &c in &g3 {
                push(vec![a, b, c], &mut out);
            }
        }
    }
    // wide geometries
    for w in [60usize, 200] {
        for len in [59usize, 60, 61, 199, 200, 201, 401] {
            for recs in [vec![(len, w)], vec![(len, w), (3, 1)], vec![(3, 1), (len, w)]] {
                for crlf in [false, true] {
                    for tail in 0..=2 {
                        for sep_blank in if recs.len() > 1 { vec![0usize, 2] } else { vec![0] } {
                            out.push(FileSpec { recs: recs.clone(), crlf, tail, desc: false, sep_blank, ragged: Ragged::None, ragged_rec: 0, wide: true });
                        }
                    }
                }
            }
        }
    }
    // ragged variants (must be rejected)
    for &a in &g {
        for kind in RAGGED_KINDS {
            for crlf in [false, true] {
                for tail in [0usize, 1] {
                    let mk = |recs: Vec<(usize, usize)>, ragged_rec: usize| FileSpec {
                        recs,
                        crlf,
                        tail,
                        desc: false,
                        sep_blank: 0,
                        ragged: kind,
                        ragged_rec,
                        wide: false,
                    };
                    out.push(mk(vec![a], 0));
                    out.push(mk(vec![a, (3, 1)], 0));
                    out.push(mk(vec![(3, 1), a], 1));
                    if !quick {
                        out.push(mk(vec![(4, 2), a, (5, 5)], 1));
                    }
                }
            }
        }
    }
    out.retain(|s| build_file(s).is_some());
    out
}

fn readers(quick: bool) -> Vec<Rd> {
    let mut v = vec![Rd::Plain(1), Rd::Plain(2), Rd::Plain(3), Rd::Plain(8192), Rd::Bgzf { bs: 7, eof_entry: true }, Rd::Bgzf { bs: 7, eof_entry: false }];
    if !quick {
        v.push(Rd::Bgzf { bs: 2, eof_entry: true });
        v.push(Rd::Plain(5));
    }
    v
}

// ------------------------------------------------------------------------------------------------
// write -> read laws
// ------------------------------------------------------------------------------------------------

const WIDTHS: [usize; 7] = [1, 2, 3, 4, 5, 60, usize::MAX];

#[derive(Clone, Debug)]
struct FaRec {
    name: &'static str,
    desc: Option<&'static str>,
    len: usize,
}

fn fa_seq(r: usize, len: usize) -> Vec<u8> {
    (0..len).map(|i| base(r, i)).collect()
}

fn fasta_write_read(recs: &[FaRec], width: usize, cap: usize, c: &Counters) -> Outcome {
    let describe = || {
        format!(
            "records = {:?}, line_base_count = {}, BufReader capacity {cap}",
            recs.iter().map(|r| (r.name, r.desc, lit(&fa_seq(0, r.len)))).collect::<Vec<_>>(),
            if width == usize::MAX { "usize::MAX".to_string() } else { width.to_string() }
        )
    };
    let wcls = if width == usize::MAX { "unlimited".to_string() } else if width >= 60 { "60".to_string() } else { "1..5".to_string() };
    let input: Vec<fasta::Record> = recs
        .iter()
        .enumerate()
        .map(|(i, r)| {
            fasta::Record::new(
                fasta::record::Definition::new(r.name, r.desc.map(|d| d.into())),
                fasta::record::Sequence::from(fa_seq(i, r.len)),
            )
        })
        .collect();
    let mut w = fasta::io::writer::Builder::default()
        .set_line_base_count(NonZero::new(width).unwrap())
        .build_from_writer(Vec::new());
    for r in &input {
        if let Err(e) = w.write_record(r) {
            return Err(vio(format!("fmt=fasta stage=write width={wcls} symptom=error"), describe(), "Ok", format!("{e}")));
        }
    }
    let bytes = w.into_inner();
    let mut rd = fasta::io::Reader::new(BufReader::with_capacity(cap, &bytes[..]));
    let mut back = Vec::new();
    let mut it = rd.records();
    for _ in 0..recs.len() + 2 {
        match it.next() {
            None => break,
            Some(Ok(r)) => back.push(r),
            Some(Err(e)) => {
                return Err(vio(
                    format!("fmt=fasta stage=read width={wcls} symptom=error"),
                    format!("{}; written = {}", describe(), lit(&bytes)),
                    "the records written",
                    format!("Err({e})"),
                ));
            }
        }
    }
    if back != input {
        let field = if back.len() != input.len() {
            "record-count"
        } else {
            let (b, i) = back.iter().zip(&input).find(|(b, i)| b != i).unwrap();
            if b.name() != i.name() {
                "name"
            } else if b.description() != i.description() {
                "description"
            } else {
                "sequence"
            }
        };
        return Err(vio(
            format!("fmt=fasta stage=read width={wcls} field={field} symptom=value-differs"),
            format!("{}; written = {}", describe(), lit(&bytes)),
            format!("{input:?}"),
            format!("{back:?}"),
        ));
    }
    // the written file, indexed: equals the naive parse, whole sequences come back. A file with an
    // empty sequence may be refused (the indexer does so by design); if it is accepted it is judged
    // like any other (for the empty record itself: name and length; line fields cannot be 0).
    let has_empty = recs.iter().any(|r| r.len == 0);
    {
        let naive = naive_parse(&bytes);
        match run_indexer(BufReader::with_capacity(cap, &bytes[..]), bytes.len() + 1000) {
            Err(e) if has_empty && !e.starts_with("HANG") => {
                let _ = e;
            }
            Err(e) => {
                return Err(vio(
                    format!("fmt=fasta stage=index-written width={wcls} symptom=error"),
                    format!("{}; written = {}", describe(), lit(&bytes)),
                    "an index",
                    e,
                ));
            }
            Ok(v) => {
                let got: Vec<_> = v.iter().map(|r| (r.name().to_vec(), r.length(), r.position(), r.line_base_count().get(), r.line_width().get())).collect();
                let mut want: Vec<_> = naive.iter().map(|n| (n.name.clone(), n.length, n.offset, n.line_bases, n.line_width)).collect();
                if got.len() == want.len() {
                    for (w, g) in want.iter_mut().zip(&got) {
                        if w.1 == 0 {
                            (w.2, w.3, w.4) = (g.2, g.3, g.4);
                        }
                    }
                }
                if got != want {
                    return Err(vio(
                        format!("fmt=fasta stage=index-written width={wcls} symptom=differs-from-naive-parse"),
                        format!("{}; written = {}", describe(), lit(&bytes)),
                        format!("{want:?}"),
                        format!("{got:?}"),
                    ));
                }
                // the index through the fai writer and readers; the repository below uses the re-read index
                let v = match indexio::fai_roundtrip(&fai::Index::from(v), None) {
                    Ok(ix) => ix,
                    Err((stage, exp, obs)) => {
                        return Err(vio(format!("fmt=fasta op=index-io stage={stage} width={wcls} symptom=differs"), format!("{}; written = {}", describe(), lit(&bytes)), exp, obs));
                    }
                };
                // repository over the indexed reader returns every whole sequence
                let ir = fasta::io::IndexedReader::new(BufReader::with_capacity(cap, Cursor::new(bytes.clone())), v);
                let repo = fasta::Repository::new(fasta::repository::adapters::IndexedReader::new(ir));
                for (i, r) in recs.iter().enumerate() {
                    let name_token: &[u8] = r.name.as_bytes();
                    // duplicate names resolve to the first record: skip them
                    if recs.iter().filter(|x| x.name == r.name).count() > 1 {
                        continue;
                    }
                    match repo.get(name_token) {
                        Some(Ok(seq)) if seq.as_ref().as_ref() == &fa_seq(i, r.len)[..] => {}
                        other => {
                            return Err(vio(
                                format!("fmt=fasta stage=repository width={wcls} symptom=value-differs"),
                                format!("{}; written = {}; Repository::get({:?})", describe(), lit(&bytes), r.name),
                                format!("Some(Ok({}))", lit(&fa_seq(i, r.len))),
                                format!("{:?}", other.map(|r| r.map(|s| lit(s.as_ref().as_ref())).map_err(|e| e.to_string()))),
                            ));
                        }
                    }
                    c.queries.fetch_add(1, Relaxed);
                }
            }
        }
    }
    Ok(())
}

#[derive(Clone, Debug)]
struct FqRec {
    name: &'static str,
    desc: &'static str,
    seq: &'static str,
    qual: &'static str,
}

fn fastq_write_read(recs: &[FqRec], sep: u8, cap: usize) -> Outcome {
    let describe = || format!("records = {recs:?}, definition separator {:?}, BufReader capacity {cap}", sep as char);
    let input: Vec<fastq::Record> = recs
        .iter()
        .map(|r| fastq::Record::new(fastq::record::Definition::new(r.name, r.desc), r.seq, r.qual))
        .collect();
    let qcls = if recs.iter().any(|r| r.qual.starts_with('@')) {
        "at-first"
    } else if recs.iter().any(|r| r.qual.starts_with('+')) {
        "plus-first"
    } else {
        "plain"
    };
    let sink = FaultSink::plain();
    {
        let mut w = fastq::io::writer::Builder::default().set_definition_separator(sep).build_from_writer(sink.clone());
        for r in &input {
            if let Err(e) = w.write_record(r) {
                return Err(vio(format!("fmt=fastq stage=write qual={qcls} symptom=error"), describe(), "Ok", format!("{e}")));
            }
        }
    }
    let bytes = sink.bytes();
    let mut rd = fastq::io::Reader::new(BufReader::with_capacity(cap, &bytes[..]));
    let mut back = Vec::new();
    let mut it = rd.records();
    for _ in 0..recs.len() + 2 {
        match it.next() {
            None => break,
            Some(Ok(r)) => back.push(r),
            Some(Err(e)) => {
                return Err(vio(
                    format!("fmt=fastq stage=read qual={qcls} symptom=error"),
                    format!("{}; written = {}", describe(), lit(&bytes)),
                    "the records written",
                    format!("Err({e})"),
                ));
            }
        }
    }
    if back != input {
        let field = if back.len() != input.len() {
            "record-count"
        } else {
            let (b, i) = back.iter().zip(&input).find(|(b, i)| b != i).unwrap();
            if b.name() != i.name() {
                "name"
            } else if b.description() != i.description() {
                "description"
            } else if b.sequence() != i.sequence() {
                "sequence"
            } else {
                "quality"
            }
        };
        let show = |v: &[fastq::Record]| {
            v.iter()
                .map(|r| format!("({}, {}, {}, {})", lit(r.name()), lit(r.description()), lit(r.sequence()), lit(r.quality_scores())))
                .collect::<Vec<_>>()
                .join(", ")
        };
        return Err(vio(
            format!("fmt=fastq stage=read qual={qcls} field={field} symptom=value-differs"),
            format!("{}; written = {}", describe(), lit(&bytes)),
            show(&input),
            show(&back),
        ));
    }
    // FASTQ index of the written file against a naive four-line parse
    let mut ix = fastq::io::Indexer::new(BufReader::with_capacity(cap, &bytes[..]));
    let mut got = Vec::new();
    let mut fq_index: Vec<fastq::fai::Record> = Vec::new();
    for _ in 0..recs.len() + 2 {
        match ix.index_record() {
            Ok(Some(r)) => {
                got.push((r.name().to_string(), r.length(), r.sequence_offset(), r.line_bases(), r.line_width(), r.quality_scores_offset()));
                fq_index.push(r);
            }
            Ok(None) => break,
            Err(e) => {
                return Err(vio(
                    format!("fmt=fastq stage=index-written qual={qcls} symptom=error"),
                    format!("{}; written = {}", describe(), lit(&bytes)),
                    "an index",
                    format!("{e}"),
                ));
            }
        }
    }
    let mut want = Vec::new();
    let mut p = 0u64;
    for r in recs {
        let def_len = 1 + r.name.len() + if r.desc.is_empty() { 0 } else { 1 + r.desc.len() } + 1;
        let so = p + def_len as u64;
        let qo = so + r.seq.len() as u64 + 1 + 2;
        want.push((r.name.to_string(), r.seq.len() as u64, so, r.seq.len() as u64, r.seq.len() as u64 + 1, qo));
        p = qo + r.qual.len() as u64 + 1;
    }
    if got != want {
        return Err(vio(
            format!("fmt=fastq stage=index-written qual={qcls} symptom=differs-from-naive-parse"),
            format!("{}; written = {}", describe(), lit(&bytes)),
            format!("(name, length, seq offset, line_bases, line_width, qual offset) = {want:?}"),
            format!("{got:?}"),
        ));
    }
    // the index records through fastq::fai::io::Writer -> text -> Reader + FromStr
    if let Err((stage, exp, obs)) = indexio::fastq_fai_roundtrip(&fq_index, &want) {
        let shape = if recs.iter().any(|r| r.seq.is_empty()) { "empty-sequence" } else { "regular" };
        return Err(vio(format!("fmt=fastq op=index-io stage={stage} shape={shape} symptom=differs"), format!("{}; written = {}", describe(), lit(&bytes)), exp, obs));
    }
    Ok(())
}

fn main() {
    vmc::run("C11", "model_checking", |ctx| {
        let quick = ctx.quick();
        ctx.rule(
            "E3 complete sweeps. fasta_geometry / fasta_beyond: every file spec (1-3 records; target (length 1..=12 x line width 1..=5) completely, \
             second record from 12 geometries in both orders (quick) or the complete 60x60 square plus single records up to length 24 x width 8 (thorough); three records over 4^3 (quick) / 12^3 (thorough) geometries; widths {60,200} x lengths {59,60,61,199,200,201,401}; \
             LF/CRLF; 0..5 trailing line terminators (up to 4 blank trailing lines); 0..4 blank lines between records; descriptions; 6 ragged/odd kinds; every shape the indexer refuses is allowed, every shape it accepts must agree with the naive parse in index and in every query) x reader configuration (BufReader capacity 1,2,3,8192 \
             or bgzipped in 7-byte blocks with a harness-built gzi, with/without the EOF-block entry) and inside each case every record x every region \
             start..=end with 1<=start<=end<=len+3 plus start.., ..=end and .. (wide geometries: boundary positions only in the quick tier, all in thorough). \
             distinct = distinct (file bytes, reader configuration) pairs; states = (file, reader, record) triples whose complete region set was checked. \
             fasta_write_read / fastq_write_read: every record tuple of the listed alphabets x line width {1..5,60,unlimited} x capacity. fasta_geometry also sends every accepted index through fai::io::Writer -> text (== the harness rendering of the naive parse) -> fai::io::Reader and the async reader (== the indexer's index), every query then uses the re-read index; the gzi of every bgzipped twin likewise through gzi::io::Writer/Reader/async reader; the FASTQ index records through fastq::fai::io::Writer -> Reader + FromStr. fasta_query_sequences: 9 documents (three with a one-line last record and no final newline: line_width == line_bases; .fai next to .fa.gz and .gzi written by fai::fs::write / gzi::fs::write and re-read by fs::read and build_from_path) written to a per-process temporary directory (below / above the 8 KiB BufReader capacity, LF / CRLF, with .fai and bgzipped + .gzi) x 8 public reader constructions (indexed_reader::Builder::build_from_path on .fa and .fa.gz, set_index + build_from_path, fasta::io::BufReader::Uncompressed over File / Cursor / 16-byte BufReader, BufReader::Bgzf over Cursor, Reader::query over Bgzf<File>) x every ordered pair and triple of 9 operations on ONE reader object (7 regions: start, line-crossing, near the end, far apart, whole record, first and last record; 2 sequential seek + read_definition + read_sequence), every answer against the naive parse. fastq_reuse / fasta_reuse: every ordered pair and triple of a presence-spanning record set (description present/absent, long/short/empty name, sequence, qualities) x capacity {8192,1,3}, each file read with one reused record (clean, pre-dirtied with longer content), a fresh record per read and the iterator.",
        );
        ctx.assume("miniz_oxide deflate + crc32fast (harness BGZF block maker) are correct");
        ctx.assume("std::io::BufReader / Cursor implement BufRead + Seek as documented");
        let c = Counters::default();

        let (wide, sp): (Vec<FileSpec>, Vec<FileSpec>) = specs(quick).into_iter().partition(|s| s.wide);
        let rds = readers(quick);
        for (name_g, name_b, list) in [
            ("fasta_geometry", "fasta_beyond", &sp),
            ("fasta_wide_geometry", "fasta_wide_beyond", &wide),
        ] {
            let n = (list.len() * rds.len()) as u64;
            let decode = |i: u64| -> (&FileSpec, Rd) { (&list[(i as usize) / rds.len()], rds[(i as usize) % rds.len()]) };
            let describe = |i: u64| {
                let (s, rd) = decode(i);
                format!("{s:?} reader={rd:?} file={}", build_file(s).map(|b| lit(&b)).unwrap_or_default())
            };
            ctx.sweep(name_g, n, describe, |i| {
                let (s, rd) = decode(i);
                fasta_case(s, rd, Mode::Geometry, !quick, &c)
            });
            ctx.sweep(name_b, n, describe, |i| {
                let (s, rd) = decode(i);
                fasta_case(s, rd, Mode::Beyond, !quick, &c)
            });
        }
        let distinct_files = c.files.lock().unwrap().len() as u64;
        ctx.add_distinct(distinct_files, c.region_states.load(Relaxed));

        // ---- FASTA write -> read ----
        let names = ["r0", "chr1|x", "a>b"];
        let descs: [Option<&'static str>; 3] = [None, Some("d"), Some("two  words >x")];
        let lens: Vec<usize> = if quick { vec![0, 1, 2, 3, 5, 6, 7, 12, 59, 60, 61, 121] } else { (0..=13).chain([59, 60, 61, 119, 120, 121, 200]).collect() };
        let mut fa_sets: Vec<Vec<FaRec>> = Vec::new();
        for &len in &lens {
            for name in names {
                for desc in descs {
                    fa_sets.push(vec![FaRec { name, desc, len }]);
                }
            }
        }
        for &l1 in &lens {
            for &l2 in &lens {
                fa_sets.push(vec![FaRec { name: "r0", desc: None, len: l1 }, FaRec { name: "r1", desc: Some("d"), len: l2 }]);
            }
        }
        let l3: Vec<usize> = if quick { vec![0, 1, 5, 6] } else { vec![0, 1, 2, 5, 6, 61] };
        for &a in &l3 {
            for &b in &l3 {
                for &d in &l3 {
                    fa_sets.push(vec![
                        FaRec { name: "r0", desc: Some("d"), len: a },
                        FaRec { name: "r1", desc: None, len: b },
                        FaRec { name: "r2", desc: None, len: d },
                    ]);
                }
            }
        }
        let caps = [8192usize, 1, 2, 3];
        let nfa = (fa_sets.len() * WIDTHS.len() * caps.len()) as u64;
        let dec_fa = |i: u64| {
            let i = i as usize;
            (&fa_sets[i / (WIDTHS.len() * caps.len())], WIDTHS[(i / caps.len()) % WIDTHS.len()], caps[i % caps.len()])
        };
        ctx.sweep(
            "fasta_write_read",
            nfa,
            |i| {
                let (s, w, cap) = dec_fa(i);
                format!("{s:?} width={w} cap={cap}")
            },
            |i| {
                let (s, w, cap) = dec_fa(i);
                fasta_write_read(s, w, cap, &c)
            },
        );
        ctx.add_distinct((fa_sets.len() * WIDTHS.len()) as u64, (fa_sets.len() * WIDTHS.len()) as u64);

        // ---- FASTQ write -> read ----
        let sq: [(&'static str, &'static str); 14] = [
            ("", ""),
            ("A", "@"),
            ("A", "+"),
            ("A", "I"),
            ("AC", "@@"),
            ("AC", "+@"),
            ("AC", "@+"),
            ("AC", "I@"),
            ("AC", "II"),
            ("ACG", "@+@"),
            ("ACG", "+++"),
            ("ACG", "III"),
            ("ACG", "@II"),
            ("ACG", "+r1"),
        ];
        let fq_names = ["r0", "@r", "+r", "r@+"];
        let fq_descs = ["", "d", "LN:4 x"];
        let mut fq_sets: Vec<Vec<FqRec>> = Vec::new();
        for name in fq_names {
            for desc in fq_descs {
                for (seq, qual) in sq {
                    fq_sets.push(vec![FqRec { name, desc, seq, qual }]);
                }
            }
        }
        for (s1, q1) in sq {
            for d1 in ["", "d"] {
                for (s2, q2) in sq {
                    for n2 in ["r1", "@r"] {
                        fq_sets.push(vec![FqRec { name: "r0", desc: d1, seq: s1, qual: q1 }, FqRec { name: n2, desc: "", seq: s2, qual: q2 }]);
                    }
                }
            }
        }
        for (s1, q1) in sq {
            for (s2, q2) in sq {
                for (s3, q3) in sq {
                    fq_sets.push(vec![
                        FqRec { name: "r0", desc: "", seq: s1, qual: q1 },
                        FqRec { name: "r1", desc: "d", seq: s2, qual: q2 },
                        FqRec { name: "r2", desc: "", seq: s3, qual: q3 },
                    ]);
                }
            }
        }
        let seps = [b' ', b'\t'];
        let nfq = (fq_sets.len() * seps.len() * caps.len()) as u64;
        let dec_fq = |i: u64| {
            let i = i as usize;
            (&fq_sets[i / (seps.len() * caps.len())], seps[(i / caps.len()) % seps.len()], caps[i % caps.len()])
        };
        ctx.sweep(
            "fastq_write_read",
            nfq,
            |i| {
                let (s, sep, cap) = dec_fq(i);
                format!("{s:?} sep={:?} cap={cap}", sep as char)
            },
            |i| {
                let (s, sep, cap) = dec_fq(i);
                fastq_write_read(s, sep, cap)
            },
        );
        ctx.add_distinct((fq_sets.len() * seps.len()) as u64, (fq_sets.len() * seps.len()) as u64);

        // ---- G1: state in reused records / buffers ----
        let caps3 = [8192usize, 1, 3];
        let fq_t = reuse::tuples(reuse::FQ_SET.len());
        let nfq = (fq_t.len() * caps3.len()) as u64;
        ctx.sweep(
            "fastq_reuse",
            nfq,
            |i| format!("records {:?} cap={}", fq_t[i as usize / 3], caps3[i as usize % 3]),
            |i| {
                let recs: Vec<FqRec> = fq_t[i as usize / 3].iter().map(|&k| reuse::FQ_SET[k].clone()).collect();
                reuse::fastq_reuse(&recs, caps3[i as usize % 3])
            },
        );
        ctx.add_distinct(fq_t.len() as u64, fq_t.len() as u64 * 4);
        let fa_t = reuse::tuples(reuse::FA_SET.len());
        let fa_w = [3usize, 60];
        let nfa = (fa_t.len() * fa_w.len() * caps3.len()) as u64;
        ctx.sweep(
            "fasta_reuse",
            nfa,
            |i| format!("records {:?} width={} cap={}", fa_t[i as usize / 6], fa_w[(i as usize / 3) % 2], caps3[i as usize % 3]),
            |i| {
                let recs: Vec<FaRec> = fa_t[i as usize / 6].iter().map(|&k| reuse::FA_SET[k].clone()).collect();
                reuse::fasta_reuse(&recs, fa_w[(i as usize / 3) % 2], caps3[i as usize % 3])
            },
        );
        ctx.add_distinct((fa_t.len() * 2) as u64, (fa_t.len() * 8) as u64);

        // ---- foreign definition lines ----
        {
            // every (separator, description, trailing) layout alone, and every ordered pair of a reduced set
            let mut layouts: Vec<Vec<(usize, usize, usize)>> = Vec::new();
            for s in 0..defs::SEPS.len() {
                for d in 0..(if s == 0 { 1 } else { defs::DESCS.len() }) {
                    for t in 0..defs::TRAILS.len() {
                        layouts.push(vec![(s, d, t)]);
                    }
                }
            }
            let singles = layouts.clone();
            for a in singles.iter().filter(|l| l[0].1 <= 1 && l[0].2 <= 1) {
                for b in singles.iter().filter(|l| l[0].1 <= 1 && l[0].2 <= 1) {
                    layouts.push(vec![a[0], b[0]]);
                }
            }
            let caps = [8192usize, 1, 3];
            let n = (layouts.len() * 2 * caps.len()) as u64;
            ctx.sweep(
                "fasta_foreign_definitions",
                n,
                |i| format!("layout {:?} crlf={} cap={}", layouts[i as usize / 6], (i / 3) % 2 == 1, caps[i as usize % 3]),
                |i| defs::fasta_case(&layouts[i as usize / 6], (i / 3) % 2 == 1, caps[i as usize % 3]),
            );
            let nq = (layouts.len() * caps.len()) as u64;
            ctx.sweep(
                "fastq_foreign_definitions",
                nq,
                |i| format!("layout {:?} cap={}", layouts[i as usize / 3], caps[i as usize % 3]),
                |i| defs::fastq_case(&layouts[i as usize / 3], caps[i as usize % 3]),
            );
            ctx.add_distinct(layouts.len() as u64 * 3, layouts.len() as u64 * 3);
        }

        // ---- sequences of queries on one reader object, every public reader wrapper, files on disk ----
        let tmp = paths::TempDir::new();
        let docs_res = paths::build_docs(&tmp.0);
        ctx.sweep(
            "fasta_path_index",
            1,
            |_| "fasta::fs::index(path) and fai::fs::read(path) on 6 documents (below / above 8 KiB, LF / CRLF)".to_string(),
            |_| match &docs_res {
                Ok(_) => Ok(()),
                Err(v) => Err(v.clone()),
            },
        );
        let fq_res = paths::fastq_path_index(&tmp.0);
        ctx.sweep(
            "fastq_path_index",
            1,
            |_| "fastq::fs::index(path) on a 3-record and a 400-record file".to_string(),
            |_| match &fq_res {
                Ok(_) => Ok(()),
                Err(v) => Err(v.clone()),
            },
        );
        if let Ok(docs) = &docs_res {
            let seqs = reuse::tuples(9);
            let nk = paths::KINDS.len();
            let n = (docs.len() * nk * seqs.len()) as u64;
            let dec = |i: u64| {
                let i = i as usize;
                (&docs[i / (nk * seqs.len())], (i / seqs.len()) % nk, &seqs[i % seqs.len()])
            };
            ctx.sweep(
                "fasta_query_sequences",
                n,
                |i| {
                    let (d, k, s) = dec(i);
                    format!("document {} reader {} operations {:?}", d.label, paths::KINDS[k], s)
                },
                |i| {
                    let (d, k, s) = dec(i);
                    let all = paths::ops(d);
                    let seq: Vec<paths::Op> = s.iter().map(|&j| all[j].clone()).collect();
                    paths::case(d, k, &seq)
                },
            );
            ctx.add_distinct((docs.len() * nk) as u64, n);
        }
        drop(tmp);

        ctx.extra(
            "c11_counters",
            json!({
                "file_specs": sp.len() + wide.len(),
                "reader_configurations": rds.len(),
                "distinct_file_reader_pairs": distinct_files,
                "region_queries_checked": c.queries.load(Relaxed),
                "fai_records_compared_with_naive_parse": c.index_records.load(Relaxed),
                "start_beyond_length": {
                    "empty": c.beyond_empty.load(Relaxed),
                    "err": c.beyond_err.load(Relaxed),
                    "returned_bytes": c.beyond_bytes.load(Relaxed),
                },
                "ragged_files_rejected": c.ragged_rejected.load(Relaxed),
                "files_with_blank_lines": {
                    "accepted_and_checked": c.blank_accepted.load(Relaxed),
                    "rejected_by_indexer(accepted outcome)": c.blank_rejected.load(Relaxed),
                },
                "cases_with_CRLF_split_across_fills": c.cr_split_fills.load(Relaxed),
                "fasta_write_read_record_sets": fa_sets.len(),
                "fastq_write_read_record_sets": fq_sets.len(),
            }),
        );
        // vacuity guards
        if c.ragged_rejected.load(Relaxed) == 0 || c.cr_split_fills.load(Relaxed) == 0 || c.queries.load(Relaxed) == 0 {
            vmc::machinery("C11 vacuity: no ragged file / no CR LF split across fills / no query was exercised");
        }
    });
}
