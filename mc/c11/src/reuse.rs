//! G1 — state in reused records / buffers: multi-record files whose consecutive records differ in the
//! presence and length of every optional part, read with one reused record (clean and pre-dirtied
//! with unrelated longer content), a fresh record per read, and the iterator API. Every read must
//! equal that record's own expectation.

use std::io::BufReader;

use noodles_fasta as fasta;
use noodles_fastq as fastq;
use vmc::{Outcome, Violation, env::FaultSink};

use crate::{FaRec, FqRec, lit};

pub const FQ_SET: [FqRec; 8] = [
    FqRec { name: "r0", desc: "", seq: "ACGT", qual: "IIII" },
    FqRec { name: "read_with_a_much_longer_name", desc: "and a long description LN:10", seq: "ACGTACGTAC", qual: "IIIIIIIIII" },
    FqRec { name: "e", desc: "", seq: "", qual: "" },
    FqRec { name: "r1", desc: "d", seq: "A", qual: "@" },
    FqRec { name: "x", desc: "", seq: "AC", qual: "+I" },
    FqRec { name: "nm", desc: "LN:3", seq: "ACG", qual: "@@@" },
    FqRec { name: "e2", desc: "only a description", seq: "", qual: "" },
    FqRec { name: "longer_name_short_rest", desc: "", seq: "T", qual: "I" },
];

pub const FA_SET: [FaRec; 7] = [
    FaRec { name: "r0", desc: None, len: 4 },
    FaRec { name: "a_much_longer_sequence_name", desc: Some("with a long description here"), len: 12 },
    FaRec { name: "e", desc: None, len: 0 },
    FaRec { name: "r1", desc: Some("d"), len: 1 },
    FaRec { name: "x", desc: None, len: 7 },
    FaRec { name: "e2", desc: Some("empty but described"), len: 0 },
    FaRec { name: "longer_name_short_rest", desc: None, len: 2 },
];

/// How the failing part changed from the previous content of the buffer to this record.
fn transition(prev: &[u8], cur: &[u8]) -> &'static str {
    if !prev.is_empty() && cur.is_empty() {
        "present-to-absent"
    } else if prev.is_empty() && !cur.is_empty() {
        "absent-to-present"
    } else if prev.len() > cur.len() {
        "longer-to-shorter"
    } else if prev.len() < cur.len() {
        "shorter-to-longer"
    } else {
        "same-length"
    }
}

type Fq = (Vec<u8>, Vec<u8>, Vec<u8>, Vec<u8>);

fn fq_tuple(r: &fastq::Record) -> Fq {
    (r.name().to_vec(), r.description().to_vec(), r.sequence().to_vec(), r.quality_scores().to_vec())
}

const DIRTY_FQ: FqRec = FqRec {
    name: "dirty_unrelated_name_that_is_longer_than_any",
    desc: "dirty unrelated description, also longer than any other",
    seq: "NNNNNNNNNNNNNNNNNNNNNNNN",
    qual: "########################",
};

pub fn fastq_reuse(recs: &[FqRec], cap: usize) -> Outcome {
    let describe = |mode: &str| format!("records = {recs:?}; read mode {mode}; BufReader capacity {cap}");
    let sink = FaultSink::plain();
    {
        let mut w = fastq::io::Writer::new(sink.clone());
        for r in recs {
            let rec = fastq::Record::new(fastq::record::Definition::new(r.name, r.desc), r.seq, r.qual);
            if let Err(e) = w.write_record(&rec) {
                return Err(Violation::new("fmt=fastq stage=reuse-write symptom=error", describe("-"), "Ok", e.to_string()));
            }
        }
    }
    let bytes = sink.bytes();
    let want: Vec<Fq> = recs.iter().map(|r| (r.name.into(), r.desc.into(), r.seq.into(), r.qual.into())).collect();
    let dirty: Fq = (DIRTY_FQ.name.into(), DIRTY_FQ.desc.into(), DIRTY_FQ.seq.into(), DIRTY_FQ.qual.into());

    for mode in ["reused-clean", "reused-dirty", "fresh", "iterator"] {
        let mut got: Vec<Result<Fq, String>> = Vec::new();
        let mut rd = fastq::io::Reader::new(BufReader::with_capacity(cap, &bytes[..]));
        match mode {
            "iterator" => {
                for item in rd.records().take(recs.len() + 2) {
                    got.push(item.map(|r| fq_tuple(&r)).map_err(|e| e.to_string()));
                }
            }
            _ => {
                let mk = || {
                    if mode == "reused-dirty" {
                        fastq::Record::new(fastq::record::Definition::new(DIRTY_FQ.name, DIRTY_FQ.desc), DIRTY_FQ.seq, DIRTY_FQ.qual)
                    } else {
                        fastq::Record::default()
                    }
                };
                let mut rec = mk();
                for _ in 0..recs.len() + 2 {
                    if mode == "fresh" {
                        rec = mk();
                    }
                    match rd.read_record(&mut rec) {
                        Ok(0) => break,
                        Ok(_) => got.push(Ok(fq_tuple(&rec))),
                        Err(e) => {
                            got.push(Err(e.to_string()));
                            break;
                        }
                    }
                }
            }
        }
        if got.len() != want.len() {
            return Err(Violation::new(
                format!("fmt=fastq stage=reuse mode={mode} field=record-count symptom=value-differs"),
                format!("{}; file = {}", describe(mode), lit(&bytes)),
                format!("{} records", want.len()),
                format!("{} records: {got:?}", got.len()),
            ));
        }
        for (i, (g, w)) in got.iter().zip(&want).enumerate() {
            let g = match g {
                Ok(g) => g,
                Err(e) => {
                    return Err(Violation::new(
                        format!("fmt=fastq stage=reuse mode={mode} field=record symptom=error"),
                        format!("{}; file = {}", describe(mode), lit(&bytes)),
                        format!("record {i} = {w:?}"),
                        format!("Err({e})"),
                    ));
                }
            };
            if g != w {
                let prev = if i > 0 {
                    Some(&want[i - 1])
                } else if mode == "reused-dirty" {
                    Some(&dirty)
                } else {
                    None
                };
                let (field, pv, cv): (&str, &[u8], &[u8]) = if g.0 != w.0 {
                    ("name", prev.map(|p| &p.0[..]).unwrap_or(b""), &w.0)
                } else if g.1 != w.1 {
                    ("description", prev.map(|p| &p.1[..]).unwrap_or(b""), &w.1)
                } else if g.2 != w.2 {
                    ("sequence", prev.map(|p| &p.2[..]).unwrap_or(b""), &w.2)
                } else {
                    ("quality", prev.map(|p| &p.3[..]).unwrap_or(b""), &w.3)
                };
                return Err(Violation::new(
                    format!("fmt=fastq stage=reuse mode={mode} field={field} transition={} symptom=value-differs", transition(pv, cv)),
                    format!("{}; file = {}", describe(mode), lit(&bytes)),
                    format!("record {i} = ({}, {}, {}, {})", lit(&w.0), lit(&w.1), lit(&w.2), lit(&w.3)),
                    format!("({}, {}, {}, {})", lit(&g.0), lit(&g.1), lit(&g.2), lit(&g.3)),
                ));
            }
        }
    }
    Ok(())
}

type Fa = (Vec<u8>, Option<Vec<u8>>, Vec<u8>);

pub fn fasta_reuse(recs: &[FaRec], width: usize, cap: usize) -> Outcome {
    use fasta::record::{Definition, Sequence};
    let describe = |mode: &str| format!("records = {recs:?}; line_base_count {width}; read mode {mode}; BufReader capacity {cap}");
    let seq_of = |i: usize, r: &FaRec| crate::fa_seq(i, r.len);
    let mut w = fasta::io::writer::Builder::default().set_line_base_count(std::num::NonZero::new(width).unwrap()).build_from_writer(Vec::new());
    for (i, r) in recs.iter().enumerate() {
        let rec = fasta::Record::new(Definition::new(r.name, r.desc.map(|d| d.into())), Sequence::from(seq_of(i, r)));
        if let Err(e) = w.write_record(&rec) {
            return Err(Violation::new("fmt=fasta stage=reuse-write symptom=error", describe("-"), "Ok", e.to_string()));
        }
    }
    let bytes = w.into_inner();
    let want: Vec<Fa> = recs.iter().enumerate().map(|(i, r)| (r.name.into(), r.desc.map(|d| d.into()), seq_of(i, r))).collect();
    let dirty_def = || Definition::new("dirty_unrelated_name_that_is_longer_than_any", Some("dirty unrelated description, longer than any other".into()));

    for mode in ["reused-clean", "reused-dirty", "fresh", "iterator"] {
        let mut got: Vec<Result<Fa, String>> = Vec::new();
        let mut rd = fasta::io::Reader::new(BufReader::with_capacity(cap, &bytes[..]));
        match mode {
            "iterator" => {
                for item in rd.records().take(recs.len() + 2) {
                    got.push(item.map(|r| (r.name().to_vec(), r.description().map(|d| d.to_vec()), r.sequence().as_ref().to_vec())).map_err(|e| e.to_string()));
                }
            }
            _ => {
                let mk = || if mode == "reused-dirty" { dirty_def() } else { Definition::default() };
                let mut def = mk();
                // the sequence buffer is the caller's: cleared before each read (as the iterator does
                // with a new one); in the dirty mode it keeps the capacity of longer earlier content
                let mut buf: Vec<u8> = if mode == "reused-dirty" { vec![b'N'; 64] } else { Vec::new() };
                for _ in 0..recs.len() + 2 {
                    if mode == "fresh" {
                        def = mk();
                        buf = Vec::new();
                    }
                    match rd.read_definition(&mut def) {
                        Ok(0) => break,
                        Ok(_) => {}
                        Err(e) => {
                            got.push(Err(e.to_string()));
                            break;
                        }
                    }
                    buf.clear();
                    match rd.read_sequence(&mut buf) {
                        Ok(_) => got.push(Ok((def.name().to_vec(), def.description().map(|d| d.to_vec()), buf.clone()))),
                        Err(e) => {
                            got.push(Err(e.to_string()));
                            break;
                        }
                    }
                }
            }
        }
        if got.len() != want.len() {
            return Err(Violation::new(
                format!("fmt=fasta stage=reuse mode={mode} field=record-count symptom=value-differs"),
                format!("{}; file = {}", describe(mode), lit(&bytes)),
                format!("{} records", want.len()),
                format!("{} records: {got:?}", got.len()),
            ));
        }
        for (i, (g, w)) in got.iter().zip(&want).enumerate() {
            let g = match g {
                Ok(g) => g,
                Err(e) => {
                    return Err(Violation::new(
                        format!("fmt=fasta stage=reuse mode={mode} field=record symptom=error"),
                        format!("{}; file = {}", describe(mode), lit(&bytes)),
                        format!("record {i} = {w:?}"),
                        format!("Err({e})"),
                    ));
                }
            };
            if g != w {
                let prev = if i > 0 { Some(want[i - 1].clone()) } else { None };
                let e: Vec<u8> = Vec::new();
                let (field, pv, cv): (&str, Vec<u8>, Vec<u8>) = if g.0 != w.0 {
                    ("name", prev.map(|p| p.0).unwrap_or(e), w.0.clone())
                } else if g.1 != w.1 {
                    ("description", prev.and_then(|p| p.1).unwrap_or(e), w.1.clone().unwrap_or_default())
                } else {
                    ("sequence", prev.map(|p| p.2).unwrap_or(e), w.2.clone())
                };
                return Err(Violation::new(
                    format!("fmt=fasta stage=reuse mode={mode} field={field} transition={} symptom=value-differs", transition(&pv, &cv)),
                    format!("{}; file = {}", describe(mode), lit(&bytes)),
                    format!("record {i} = ({}, {:?}, {})", lit(&w.0), w.1.as_deref().map(lit), lit(&w.2)),
                    format!("({}, {:?}, {})", lit(&g.0), g.1.as_deref().map(lit), lit(&g.2)),
                ));
            }
        }
    }
    Ok(())
}

/// All ordered pairs and all ordered triples of `0..n`.
pub fn tuples(n: usize) -> Vec<Vec<usize>> {
    let mut v = Vec::new();
    for a in 0..n {
        for b in 0..n {
            v.push(vec![a, b]);
            for c in 0..n {
                v.push(vec![a, b, c]);
            }
        }
    }
    v
}
