//! Foreign definition lines (other tools' layouts, never written by noodles): name and description
//! separated by a space, a tab, several spaces, tab + space; descriptions containing tabs; no
//! description; trailing white space. Oracle: the naive parse (name = up to the first ASCII white
//! space, description = the rest, trimmed): indexer names, query by name, `records()`,
//! `read_definition`. FASTQ: name = up to the first space or tab, description = the rest of the line.

use std::io::{BufReader, Cursor};

use noodles_fasta::{self as fasta, fai};
use noodles_fastq as fastq;
use vmc::{Outcome, Violation};

use crate::{base, lit, naive_parse, region_of, run_indexer};

pub const SEPS: [(&str, &str); 9] = [
    ("none", ""),
    ("space", " "),
    ("tab", "\t"),
    ("spaces", "   "),
    ("tab-space", "\t "),
    ("space-tab", " \t"),
    ("tabs", "\t\t"),
    ("form-feed", "\x0c"),
    ("vertical-tab-in-name", "\x0b"),
];
pub const DESCS: [(&str, &str); 5] = [("plain", "LN:10 x"), ("with-tab", "LN:10\tx y"), ("with-tabs-and-spaces", "a \t b\t\tc"), ("one-char", "d"), ("gt-inside", "a >b")];
pub const TRAILS: [(&str, &str); 4] = [("none", ""), ("space", " "), ("tab", "\t"), ("mixed", " \t ")];

/// (separator index, description index, trailing index) per record; `sep == 0` means no description.
pub fn fasta_case(layout: &[(usize, usize, usize)], crlf: bool, cap: usize) -> Outcome {
    let eol: &[u8] = if crlf { b"\r\n" } else { b"\n" };
    let mut file = Vec::new();
    let mut want: Vec<(Vec<u8>, Option<Vec<u8>>, Vec<u8>)> = Vec::new();
    for (r, &(s, d, t)) in layout.iter().enumerate() {
        let name = format!("sq{r}");
        let mut def = format!(">{name}");
        let mut wname = name.clone().into_bytes();
        let mut wdesc: Option<Vec<u8>> = None;
        if s > 0 {
            def.push_str(SEPS[s].1);
            def.push_str(DESCS[d].1);
            if SEPS[s].0 == "vertical-tab-in-name" {
                // 0x0b is not ASCII white space for Rust (nor a FASTA separator): it belongs to the name
                wname.extend_from_slice(format!("\x0b{}", DESCS[d].1.split(|c: char| c.is_ascii_whitespace()).next().unwrap()).as_bytes());
                let rest = DESCS[d].1.splitn(2, |c: char| c.is_ascii_whitespace()).nth(1).unwrap_or("").trim_ascii();
                wdesc = if rest.is_empty() { None } else { Some(rest.as_bytes().to_vec()) };
            } else {
                wdesc = Some(DESCS[d].1.as_bytes().to_vec());
            }
        }
        def.push_str(TRAILS[t].1);
        file.extend_from_slice(def.as_bytes());
        file.extend_from_slice(eol);
        let seq: Vec<u8> = (0..7 + r).map(|i| base(r, i)).collect();
        for l in seq.chunks(3) {
            file.extend_from_slice(l);
            file.extend_from_slice(eol);
        }
        want.push((wname, wdesc, seq));
    }
    let cls = |i: usize| format!("sep={} desc={} trailing={}", SEPS[layout[i].0].0, if layout[i].0 == 0 { "none" } else { DESCS[layout[i].1].0 }, TRAILS[layout[i].2].0);
    let describe = || format!("file = {}; BufReader capacity {cap}", lit(&file));
    // the naive parse agrees with the construction (names); machinery otherwise
    let naive = naive_parse(&file);
    if naive.iter().map(|n| n.name.clone()).collect::<Vec<_>>() != want.iter().map(|w| w.0.clone()).collect::<Vec<_>>() {
        vmc::machinery(format!("defs: naive parse and construction disagree on names: {}", describe()));
    }
    // indexer
    let index = match run_indexer(BufReader::with_capacity(cap, Cursor::new(&file)), file.len() + 1000) {
        Ok(v) => v,
        Err(e) => return Err(Violation::new(format!("op=foreign-definition stage=index {} symptom=error", cls(0)), describe(), "an index", e)),
    };
    for (i, (rec, n)) in index.iter().zip(&naive).enumerate() {
        if rec.name().to_vec() != n.name || rec.length() != n.length || rec.position() != n.offset {
            return Err(Violation::new(
                format!("op=foreign-definition stage=index {} field={} symptom=differs-from-naive-parse", cls(i), if rec.name().to_vec() != n.name { "name" } else { "offset-or-length" }),
                describe(),
                format!("({}, {}, {})", lit(&n.name), n.length, n.offset),
                format!("({}, {}, {})", lit(rec.name()), rec.length(), rec.position()),
            ));
        }
    }
    if index.len() != naive.len() {
        return Err(Violation::new(format!("op=foreign-definition stage=index {} field=record-count symptom=differs-from-naive-parse", cls(0)), describe(), format!("{} records", naive.len()), format!("{}", index.len())));
    }
    // query by name
    let mut ir = fasta::io::IndexedReader::new(BufReader::with_capacity(cap, Cursor::new(file.clone())), fai::Index::from(index));
    for (i, w) in want.iter().enumerate() {
        match ir.query(&region_of(&w.0, None, None)) {
            Ok(rec) if rec.sequence().as_ref() == &w.2[..] => {}
            other => {
                return Err(Violation::new(
                    format!("op=foreign-definition stage=query-by-name {} symptom={}", cls(i), if other.is_ok() { "wrong-bases" } else { "error" }),
                    format!("{}; query {}", describe(), lit(&w.0)),
                    lit(&w.2),
                    format!("{:?}", other.map(|r| lit(r.sequence().as_ref())).map_err(|e| e.to_string())),
                ));
            }
        }
    }
    // records() and read_definition
    let mut rd = fasta::io::Reader::new(BufReader::with_capacity(cap, &file[..]));
    let got: Vec<_> = rd.records().take(want.len() + 2).collect();
    if got.len() != want.len() {
        return Err(Violation::new(format!("op=foreign-definition stage=records {} field=record-count symptom=value-differs", cls(0)), describe(), format!("{}", want.len()), format!("{}", got.len())));
    }
    for (i, (g, w)) in got.iter().zip(&want).enumerate() {
        let ok = match g {
            Ok(r) => r.name() == &w.0[..] && r.description().map(|d| d.to_vec()) == w.1 && r.sequence().as_ref() == &w.2[..],
            Err(_) => false,
        };
        if !ok {
            let field = match g {
                Ok(r) if r.name() != &w.0[..] => "name",
                Ok(r) if r.description().map(|d| d.to_vec()) != w.1 => "description",
                Ok(_) => "sequence",
                Err(_) => "error",
            };
            return Err(Violation::new(
                format!("op=foreign-definition stage=records {} field={field} symptom=value-differs", cls(i)),
                describe(),
                format!("({}, {:?}, {})", lit(&w.0), w.1.as_deref().map(lit), lit(&w.2)),
                format!("{:?}", g.as_ref().map(|r| (lit(r.name()), r.description().map(|d| lit(d)), lit(r.sequence().as_ref()))).map_err(|e| e.to_string())),
            ));
        }
    }
    Ok(())
}

/// FASTQ: name up to the first space or tab, description = the rest of the line (raw).
pub fn fastq_case(layout: &[(usize, usize, usize)], cap: usize) -> Outcome {
    let mut file = Vec::new();
    let mut want = Vec::new();
    for (r, &(s, d, t)) in layout.iter().enumerate() {
        let name = format!("rd{r}");
        let mut rest = String::new();
        if s > 0 {
            rest.push_str(SEPS[s].1);
            rest.push_str(DESCS[d].1);
        }
        rest.push_str(TRAILS[t].1);
        let line = format!("{name}{rest}");
        let cut = line.find([' ', '\t']).unwrap_or(line.len());
        let (wn, wd) = (line[..cut].to_string(), if cut < line.len() { line[cut + 1..].to_string() } else { String::new() });
        let seq: Vec<u8> = (0..3 + r).map(|i| base(r, i)).collect();
        file.extend_from_slice(format!("@{line}\n").as_bytes());
        file.extend_from_slice(&seq);
        file.extend_from_slice(b"\n+\n");
        file.extend_from_slice(&vec![b'I'; seq.len()]);
        file.push(b'\n');
        want.push((wn.into_bytes(), wd.into_bytes(), seq));
    }
    let cls = |i: usize| format!("sep={} desc={} trailing={}", SEPS[layout[i].0].0, if layout[i].0 == 0 { "none" } else { DESCS[layout[i].1].0 }, TRAILS[layout[i].2].0);
    let mut rd = fastq::io::Reader::new(BufReader::with_capacity(cap, &file[..]));
    let got: Vec<_> = rd.records().take(want.len() + 2).collect();
    for (i, w) in want.iter().enumerate() {
        let ok = matches!(got.get(i), Some(Ok(r)) if r.name() == &w.0[..] && r.description() == &w.1[..] && r.sequence() == &w.2[..]);
        if !ok {
            return Err(Violation::new(
                format!("fmt=fastq op=foreign-definition stage=records {} symptom=value-differs", cls(i)),
                format!("file = {}; BufReader capacity {cap}", lit(&file)),
                format!("({}, {}, {})", lit(&w.0), lit(&w.1), lit(&w.2)),
                format!("{:?}", got.get(i).map(|g| g.as_ref().map(|r| (lit(r.name()), lit(r.description()), lit(r.sequence()))).map_err(|e| e.to_string()))),
            ));
        }
    }
    if got.len() != want.len() {
        return Err(Violation::new("fmt=fastq op=foreign-definition stage=records field=record-count symptom=value-differs".to_string(), lit(&file), format!("{}", want.len()), format!("{}", got.len())));
    }
    // the index names
    let mut ix = fastq::io::Indexer::new(BufReader::with_capacity(cap, &file[..]));
    for (i, w) in want.iter().enumerate() {
        match ix.index_record() {
            Ok(Some(r)) if r.name().as_bytes() == &w.0[..] && r.length() == w.2.len() as u64 => {}
            other => {
                return Err(Violation::new(
                    format!("fmt=fastq op=foreign-definition stage=index {} symptom=differs-from-naive-parse", cls(i)),
                    lit(&file),
                    format!("name {} length {}", lit(&w.0), w.2.len()),
                    format!("{other:?}"),
                ));
            }
        }
    }
    Ok(())
}
