//! Index files through the noodles writers and readers: the indexer's `fai::Index` -> `fai::io::Writer`
//! -> text (must equal the harness' own rendering of the naive parse) -> `fai::io::Reader` and the async
//! reader -> must equal the indexer's index; the same for `bgzf::gzi` (binary layout of htslib) and for
//! the FASTQ index records (`fastq::fai::io::{Writer, Reader}` + `FromStr`).

use std::{
    future::Future,
    pin::pin,
    task::{Context, Poll, Waker},
};

use noodles_bgzf as bgzf;
use noodles_fasta::fai;
use noodles_fastq as fastq;

/// Drives a future over in-memory I/O (always ready) to completion.
pub fn block_on<F: Future>(f: F) -> F::Output {
    let mut f = pin!(f);
    let mut cx = Context::from_waker(Waker::noop());
    for _ in 0..1_000_000 {
        if let Poll::Ready(v) = f.as_mut().poll(&mut cx) {
            return v;
        }
    }
    vmc::machinery("async index reader over a byte slice did not complete")
}

/// (stage, expected, observed) of the first disagreement.
pub type Problem = (&'static str, String, String);

fn show(ix: &fai::Index) -> String {
    format!(
        "{:?}",
        ix.as_ref()
            .iter()
            .map(|r| (r.name().to_string(), r.length(), r.position(), r.line_base_count().get(), r.line_width().get()))
            .collect::<Vec<_>>()
    )
}

/// `want_text`: the harness' rendering (`name\tlength\toffset\tline_bases\tline_width\n` per record).
/// Returns the index as re-read by the sync reader.
pub fn fai_roundtrip(index: &fai::Index, want_text: Option<&[u8]>) -> Result<fai::Index, Problem> {
    let mut w = fai::io::Writer::new(Vec::new());
    w.write_index(index).map_err(|e| ("fai-write", "Ok".to_string(), format!("Err({e})")))?;
    let text = w.into_inner();
    if let Some(want) = want_text {
        if text != want {
            return Err(("fai-write", String::from_utf8_lossy(want).into_owned(), String::from_utf8_lossy(&text).into_owned()));
        }
    }
    let shown = || format!("the written index {:?} read back as {}", String::from_utf8_lossy(&text), show(index));
    let back = fai::io::Reader::new(&text[..]).read_index().map_err(|e| ("fai-read", shown(), format!("Err({e})")))?;
    if &back != index {
        return Err(("fai-read", shown(), show(&back)));
    }
    let aback = block_on(async { fai::r#async::io::Reader::new(&text[..]).read_index().await }).map_err(|e| ("fai-read-async", shown(), format!("Err({e})")))?;
    if &aback != index {
        return Err(("fai-read-async", shown(), show(&aback)));
    }
    Ok(back)
}

pub fn gzi_bytes(entries: &[(u64, u64)]) -> Vec<u8> {
    let mut v = (entries.len() as u64).to_le_bytes().to_vec();
    for (c, u) in entries {
        v.extend_from_slice(&c.to_le_bytes());
        v.extend_from_slice(&u.to_le_bytes());
    }
    v
}

/// Returns the gzi index as re-read by the sync reader.
pub fn gzi_roundtrip(entries: &[(u64, u64)]) -> Result<bgzf::gzi::Index, Problem> {
    let index = bgzf::gzi::Index::from(entries.to_vec());
    let mut w = bgzf::gzi::io::Writer::new(Vec::new());
    w.write_index(&index).map_err(|e| ("gzi-write", "Ok".to_string(), format!("Err({e})")))?;
    let bytes = w.into_inner();
    let want = gzi_bytes(entries);
    if bytes != want {
        return Err(("gzi-write", vmc::hex(&want), vmc::hex(&bytes)));
    }
    let shown = || format!("{entries:?}");
    let back = bgzf::gzi::io::Reader::new(&bytes[..]).read_index().map_err(|e| ("gzi-read", shown(), format!("Err({e})")))?;
    if back != index {
        return Err(("gzi-read", shown(), format!("{:?}", back.as_ref())));
    }
    let aback = block_on(async { bgzf::gzi::r#async::io::Reader::new(&bytes[..]).read_index().await }).map_err(|e| ("gzi-read-async", shown(), format!("Err({e})")))?;
    if aback != index {
        return Err(("gzi-read-async", shown(), format!("{:?}", aback.as_ref())));
    }
    Ok(back)
}

/// FASTQ index records: writer -> text -> reader lines -> `FromStr` == the records.
/// `want`: (name, length, sequence offset, line bases, line width, quality offset) per record.
pub fn fastq_fai_roundtrip(records: &[fastq::fai::Record], want: &[(String, u64, u64, u64, u64, u64)]) -> Result<(), Problem> {
    let mut w = fastq::fai::io::Writer::new(Vec::new());
    for r in records {
        w.write_record(r).map_err(|e| ("fastq-fai-write", "Ok".to_string(), format!("Err({e})")))?;
    }
    let text = w.into_inner();
    let mut want_text = String::new();
    for (n, l, so, lb, lw, qo) in want {
        want_text.push_str(&format!("{n}\t{l}\t{so}\t{lb}\t{lw}\t{qo}\n"));
    }
    if text != want_text.as_bytes() {
        return Err(("fastq-fai-write", want_text, String::from_utf8_lossy(&text).into_owned()));
    }
    let mut rd = fastq::fai::io::Reader::new(&text[..]);
    let mut line = String::new();
    for (i, r) in records.iter().enumerate() {
        line.clear();
        match rd.read_record(&mut line) {
            Ok(n) if n > 0 => {}
            other => return Err(("fastq-fai-read", format!("line {i} of {want_text:?}"), format!("{other:?}"))),
        }
        match line.parse::<fastq::fai::Record>() {
            Ok(back) if &back == r => {}
            other => return Err(("fastq-fai-read", format!("{r:?} from line {line:?}"), format!("{:?}", other.map_err(|e| e.to_string())))),
        }
    }
    line.clear();
    match rd.read_record(&mut line) {
        Ok(0) => Ok(()),
        other => Err(("fastq-fai-read", "end of the index".into(), format!("{other:?} {line:?}"))),
    }
}
