//! Sequences of queries on ONE reader object, over every public reader wrapper: the path-based
//! builder (`indexed_reader::Builder::build_from_path`, plain `.fa` + `.fai` and bgzipped `.fa.gz` +
//! `.fai` + `.gzi`), `fasta::io::BufReader::{Uncompressed, Bgzf}` built by hand over a `File` and over a
//! `Cursor`, `Reader::query` with an explicit index. Documents below and above the 8 KiB `BufReader`
//! capacity, so that a seek target inside and outside the current buffer both occur.
//! All files live in a per-process temporary directory that is removed when the run ends.

use std::{
    fs::{self, File},
    io::{BufRead, Cursor, Seek, SeekFrom},
    path::{Path, PathBuf},
};

use noodles_bgzf as bgzf;
use noodles_fasta::{self as fasta, fai};
use noodles_fastq as fastq;
use vmc::{Outcome, Violation};

use crate::{Naive, base, bgzip, lit, naive_parse, region_of};

pub struct TempDir(pub PathBuf);

impl TempDir {
    pub fn new() -> Self {
        let nanos = std::time::SystemTime::now().duration_since(std::time::UNIX_EPOCH).map(|d| d.subsec_nanos()).unwrap_or(0);
        let p = std::env::temp_dir().join(format!("verif-c11-{}-{nanos}", std::process::id()));
        fs::create_dir_all(&p).unwrap_or_else(|e| vmc::machinery(format!("cannot create {}: {e}", p.display())));
        Self(p)
    }
}

impl Drop for TempDir {
    fn drop(&mut self) {
        let _ = fs::remove_dir_all(&self.0);
    }
}

pub struct Doc {
    pub label: &'static str,
    pub plain: Vec<u8>,
    pub naive: Vec<Naive>,
    /// byte offset of every definition line
    pub def_offsets: Vec<u64>,
    pub gz: Vec<u8>,
    pub gzi: Vec<(u64, u64)>,
    pub fa: PathBuf,
    pub fa_gz: PathBuf,
    /// the index the noodles path-based indexer produced (checked against the naive parse at setup)
    pub index: fai::Index,
}

fn render(recs: &[(usize, usize)], crlf: bool, final_newline: bool) -> (Vec<u8>, Vec<u64>) {
    let eol: &[u8] = if crlf { b"\r\n" } else { b"\n" };
    let mut out = Vec::new();
    let mut defs = Vec::new();
    for (r, &(len, width)) in recs.iter().enumerate() {
        defs.push(out.len() as u64);
        out.extend_from_slice(format!(">r{r} second de{r} ACGT").as_bytes());
        out.extend_from_slice(eol);
        let seq: Vec<u8> = (0..len).map(|i| base(r, i)).collect();
        let lines: Vec<&[u8]> = seq.chunks(width).collect();
        for (j, l) in lines.iter().enumerate() {
            out.extend_from_slice(l);
            if final_newline || !(r + 1 == recs.len() && j + 1 == lines.len()) {
                out.extend_from_slice(eol);
            }
        }
    }
    (out, defs)
}

/// Builds the documents and writes `.fa`, `.fa.fai`, `.fa.gz`, `.fa.gz.fai`, `.fa.gz.gzi`.
/// `Err` = a setup-time violation (path-based indexer / fai reader disagree with the naive parse).
pub fn build_docs(dir: &Path) -> Result<Vec<Doc>, Violation> {
    let specs: [(&'static str, Vec<(usize, usize)>, bool, bool, usize); 9] = [
        ("one-line-last-record-no-final-newline-lf(<8KiB)", vec![(7, 3), (9, 60)], false, false, 7),
        ("one-line-last-record-no-final-newline-crlf(<8KiB)", vec![(7, 3), (1, 1), (9, 60)], true, false, 7),
        ("single-one-line-record-no-final-newline(<8KiB)", vec![(4, 60)], false, false, 7),
        ("small-lf(<8KiB)", vec![(7, 3), (12, 5), (5, 2)], false, true, 7),
        ("small-crlf(<8KiB)", vec![(7, 3), (12, 5), (5, 2)], true, false, 7),
        ("medium-lf(>8KiB)", vec![(333, 60), (5000, 70), (3000, 50)], false, true, 61),
        ("medium-crlf(>8KiB)", vec![(333, 60), (5000, 70), (3000, 50)], true, true, 61),
        ("large-lf(>16KiB)", vec![(100, 60), (9000, 60), (12345, 50), (40, 7)], false, false, 509),
        ("large-crlf(>16KiB)", vec![(100, 60), (9000, 60), (12345, 50), (40, 7)], true, true, 509),
    ];
    let mut docs = Vec::new();
    for (k, (label, recs, crlf, final_newline, bs)) in specs.into_iter().enumerate() {
        let (plain, def_offsets) = render(&recs, crlf, final_newline);
        let naive = naive_parse(&plain);
        let bgz = bgzip(&plain, bs, true);
        let fa = dir.join(format!("doc{k}.fa"));
        let fa_gz = dir.join(format!("doc{k}.fa.gz"));
        let io = |r: std::io::Result<()>| r.unwrap_or_else(|e| vmc::machinery(format!("temporary file: {e}")));
        io(fs::write(&fa, &plain));
        io(fs::write(&fa_gz, &bgz.bytes));
        // .fai written by the harness from the naive parse (text format of samtools faidx)
        let mut fai_text = Vec::new();
        for n in &naive {
            fai_text.extend_from_slice(&n.name);
            fai_text.extend_from_slice(format!("\t{}\t{}\t{}\t{}\n", n.length, n.offset, n.line_bases, n.line_width).as_bytes());
        }
        // the .fai next to the plain file is written by the harness, the one next to the bgzipped
        // twin by noodles (fai::fs::write of the path-based indexer's output, below)
        io(fs::write(dir.join(format!("doc{k}.fa.fai")), &fai_text));
        // .gzi (htslib: u64 count, then (compressed, uncompressed) pairs, little endian)
        let mut gzi_bytes = (bgz.gzi.len() as u64).to_le_bytes().to_vec();
        for (c, u) in &bgz.gzi {
            gzi_bytes.extend_from_slice(&c.to_le_bytes());
            gzi_bytes.extend_from_slice(&u.to_le_bytes());
        }
        // the .gzi is written by noodles (gzi::fs::write) and must have exactly that layout
        let gzi_path = dir.join(format!("doc{k}.fa.gz.gzi"));
        let gzi_index = bgzf::gzi::Index::from(bgz.gzi.clone());
        let gzi_problem = match bgzf::gzi::fs::write(&gzi_path, &gzi_index) {
            Err(e) => Some(format!("gzi::fs::write: {e}")),
            Ok(()) => match fs::read(&gzi_path) {
                Ok(b) if b == gzi_bytes => match bgzf::gzi::fs::read(&gzi_path) {
                    Ok(ix) if ix == gzi_index => None,
                    other => Some(format!("gzi::fs::read: {:?}", other.map(|i| i.as_ref().to_vec()).map_err(|e| e.to_string()))),
                },
                other => Some(format!("gzi::fs::write wrote {:?}", other.map(|b| vmc::hex(&b)).map_err(|e| e.to_string()))),
            },
        };
        if let Some(p) = gzi_problem {
            return Err(Violation::new(
                format!("op=path-index entry=gzi::fs doc={label} symptom=differs"),
                format!("gzi::fs::write / read of {:?}", bgz.gzi),
                vmc::hex(&gzi_bytes),
                p,
            ));
        }

        // path-based indexer and fai reader against the naive parse
        let tuple = |r: &fai::Record| (r.name().to_vec(), r.length(), r.position(), r.line_base_count().get(), r.line_width().get());
        let want: Vec<_> = naive.iter().map(|n| (n.name.clone(), n.length, n.offset, n.line_bases, n.line_width)).collect();
        for (what, got) in [("fasta::fs::index", fasta::fs::index(&fa)), ("fai::fs::read", fai::fs::read(dir.join(format!("doc{k}.fa.fai"))))] {
            match got {
                Ok(ix) if ix.as_ref().iter().map(tuple).collect::<Vec<_>>() == want => {}
                other => {
                    return Err(Violation::new(
                        format!("op=path-index entry={what} doc={label} symptom=differs-from-naive-parse"),
                        format!("{what}(path of a file with records {recs:?}, crlf={crlf})"),
                        format!("{want:?}"),
                        format!("{:?}", other.map(|ix| ix.as_ref().iter().map(tuple).collect::<Vec<_>>()).map_err(|e| e.to_string())),
                    ));
                }
            }
        }
        let index = fasta::fs::index(&fa).expect("checked");
        // the indexer's output through fai::fs::write -> file (== the harness text) -> fai::fs::read
        let nfai = dir.join(format!("doc{k}.fa.gz.fai"));
        let fai_problem = match fai::fs::write(&nfai, &index) {
            Err(e) => Some(format!("fai::fs::write: {e}")),
            Ok(()) => match fs::read(&nfai) {
                Ok(b) if b == fai_text => match fai::fs::read(&nfai) {
                    Ok(ix) if ix == index => None,
                    other => Some(format!("fai::fs::read of the written index: {:?}", other.map(|ix| ix.as_ref().iter().map(tuple).collect::<Vec<_>>()).map_err(|e| e.to_string()))),
                },
                other => Some(format!("fai::fs::write wrote {:?}", other.map(|b| String::from_utf8_lossy(&b).into_owned()).map_err(|e| e.to_string()))),
            },
        };
        if let Some(p) = fai_problem {
            let shape = if naive.iter().any(|n| n.line_width == n.line_bases) { "line_width-equals-line_bases" } else { "regular" };
            return Err(Violation::new(
                format!("op=path-index entry=fai::fs::write+read shape={shape} symptom=differs"),
                format!("fasta::fs::index -> fai::fs::write -> fai::fs::read on document {label} (records {recs:?}, crlf={crlf}, final newline={final_newline})"),
                String::from_utf8_lossy(&fai_text).into_owned(),
                p,
            ));
        }
        docs.push(Doc { label, plain, naive, def_offsets, gz: bgz.bytes, gzi: bgz.gzi, fa, fa_gz, index });
    }
    Ok(docs)
}

pub const KINDS: [&str; 8] = [
    "builder.build_from_path(.fa)",
    "builder.build_from_path(.fa.gz)",
    "builder.set_index.build_from_path(.fa)",
    "BufReader::Uncompressed(std BufReader<File>)",
    "BufReader::Uncompressed(std BufReader<Cursor>)",
    "BufReader::Uncompressed(std BufReader<Cursor>,cap16)",
    "BufReader::Bgzf(IndexedReader<Cursor>)",
    "Reader::query(BufReader::Bgzf(IndexedReader<File>))",
];

#[derive(Clone, Debug)]
pub enum Op {
    /// query record r, start..=end (None = open)
    Q(usize, Option<usize>, Option<usize>),
    /// seek the underlying reader to the definition of record r, then read_definition + read_sequence
    Seq(usize),
}

/// The operation alphabet of a document: regions at the start, across lines, near the end, far apart
/// (more than a buffer away in the large documents), whole records, and two sequential reads.
pub fn ops(doc: &Doc) -> Vec<Op> {
    let long = doc.naive.iter().enumerate().max_by_key(|(_, n)| n.length).map(|(i, _)| i).unwrap();
    let len = doc.naive[long].length as usize;
    let w = doc.naive[long].line_bases as usize;
    let last = doc.naive.len() - 1;
    let llen = doc.naive[last].length as usize;
    vec![
        Op::Q(long, Some(1), Some(10.min(len))),
        Op::Q(long, Some(len / 2), Some((len / 2 + w + 5).min(len))),
        Op::Q(long, Some(len.saturating_sub(20).max(1)), Some(len)),
        Op::Q(long, Some((len * 3 / 4).max(1)), Some((len * 3 / 4 + 3).min(len))),
        Op::Q(long, None, None),
        Op::Q(0, Some(2), Some(5)),
        Op::Q(last, Some(3.min(llen)), None),
        Op::Seq(0),
        Op::Seq(last),
    ]
}

fn describe_op(doc: &Doc, op: &Op) -> String {
    match op {
        Op::Q(r, s, e) => format!("query({})", crate::region_text(&doc.naive[*r].name, *s, *e)),
        Op::Seq(r) => format!("seek(Start({})) + read_definition + read_sequence [record r{r}]", doc.def_offsets[*r]),
    }
}

fn expected(doc: &Doc, op: &Op) -> Vec<u8> {
    match op {
        Op::Q(r, s, e) => {
            let n = &doc.naive[*r];
            let s1 = s.unwrap_or(1);
            let e1 = e.unwrap_or(usize::MAX).min(n.length as usize);
            n.bases[s1 - 1..e1].to_vec()
        }
        Op::Seq(r) => {
            let mut v = doc.naive[*r].name.clone();
            v.push(b'|');
            v.extend_from_slice(&doc.naive[*r].bases);
            v
        }
    }
}

fn run_ops<R: BufRead + Seek>(reader: &mut fasta::io::IndexedReader<R>, doc: &Doc, seq: &[Op]) -> Vec<Result<Vec<u8>, String>> {
    let mut out = Vec::new();
    for op in seq {
        let r = vmc::catch(|| match op {
            Op::Q(r, s, e) => reader.query(&region_of(&doc.naive[*r].name, *s, *e)).map(|rec| rec.sequence().as_ref().to_vec()).map_err(|e| e.to_string()),
            Op::Seq(r) => {
                reader.get_mut().seek(SeekFrom::Start(doc.def_offsets[*r])).map_err(|e| format!("seek: {e}"))?;
                let mut def = fasta::record::Definition::default();
                reader.read_definition(&mut def).map_err(|e| format!("read_definition: {e}"))?;
                let mut buf = Vec::new();
                reader.read_sequence(&mut buf).map_err(|e| format!("read_sequence: {e}"))?;
                let mut v = def.name().to_vec();
                v.push(b'|');
                v.extend_from_slice(&buf);
                Ok(v)
            }
        });
        match r {
            Ok(x) => out.push(x),
            Err((msg, file)) => {
                out.push(Err(format!("PANIC {msg} in {file}")));
                break;
            }
        }
    }
    out
}

pub fn case(doc: &Doc, kind: usize, seq: &[Op]) -> Outcome {
    let open = |p: &Path| File::open(p).unwrap_or_else(|e| vmc::machinery(format!("open {}: {e}", p.display())));
    let build_err = |e: std::io::Error| {
        Violation::new(
            format!("op=query-seq reader={} doc={} symptom=build-error", KINDS[kind].replace(' ', "_"), doc.label),
            format!("{} on document {}", KINDS[kind], doc.label),
            "a reader",
            e.to_string(),
        )
    };
    let gzi = || bgzf::gzi::Index::from(doc.gzi.clone());
    let got = match kind {
        0 => run_ops(&mut fasta::io::indexed_reader::Builder::default().build_from_path(&doc.fa).map_err(build_err)?, doc, seq),
        1 => run_ops(&mut fasta::io::indexed_reader::Builder::default().build_from_path(&doc.fa_gz).map_err(build_err)?, doc, seq),
        2 => run_ops(&mut fasta::io::indexed_reader::Builder::default().set_index(doc.index.clone()).build_from_path(&doc.fa).map_err(build_err)?, doc, seq),
        3 => run_ops(&mut fasta::io::IndexedReader::new(fasta::io::BufReader::Uncompressed(std::io::BufReader::new(open(&doc.fa))), doc.index.clone()), doc, seq),
        4 => run_ops(&mut fasta::io::IndexedReader::new(fasta::io::BufReader::Uncompressed(std::io::BufReader::new(Cursor::new(doc.plain.clone()))), doc.index.clone()), doc, seq),
        5 => run_ops(
            &mut fasta::io::IndexedReader::new(fasta::io::BufReader::Uncompressed(std::io::BufReader::with_capacity(16, Cursor::new(doc.plain.clone()))), doc.index.clone()),
            doc,
            seq,
        ),
        6 => run_ops(&mut fasta::io::IndexedReader::new(fasta::io::BufReader::Bgzf(bgzf::io::IndexedReader::new(Cursor::new(doc.gz.clone()), gzi())), doc.index.clone()), doc, seq),
        _ => {
            // Reader::query with an explicit index (what IndexedReader::query delegates to)
            let mut rd = fasta::io::Reader::new(fasta::io::BufReader::Bgzf(bgzf::io::IndexedReader::new(open(&doc.fa_gz), gzi())));
            let mut out = Vec::new();
            for op in seq {
                match op {
                    Op::Q(r, s, e) => out.push(rd.query(&doc.index, &region_of(&doc.naive[*r].name, *s, *e)).map(|rec| rec.sequence().as_ref().to_vec()).map_err(|e| e.to_string())),
                    Op::Seq(r) => {
                        let res = (|| -> Result<Vec<u8>, String> {
                            rd.get_mut().seek(SeekFrom::Start(doc.def_offsets[*r])).map_err(|e| format!("seek: {e}"))?;
                            let mut def = fasta::record::Definition::default();
                            rd.read_definition(&mut def).map_err(|e| format!("read_definition: {e}"))?;
                            let mut buf = Vec::new();
                            rd.read_sequence(&mut buf).map_err(|e| format!("read_sequence: {e}"))?;
                            let mut v = def.name().to_vec();
                            v.push(b'|');
                            v.extend_from_slice(&buf);
                            Ok(v)
                        })();
                        out.push(res);
                    }
                }
            }
            out
        }
    };
    for (i, op) in seq.iter().enumerate() {
        let want = expected(doc, op);
        let g = got.get(i);
        if g.map(|g| g.as_ref().ok() == Some(&want)).unwrap_or(false) {
            continue;
        }
        // relation of this operation to the previous one on the same object
        let rel = if i == 0 {
            "first"
        } else {
            match (&seq[i - 1], op) {
                (Op::Seq(_), _) => "after-sequential-read",
                (Op::Q(_, None, None), _) => "after-whole-record",
                (Op::Q(a, s0, _), Op::Q(b, s1, _)) if a == b && s0 == s1 => "same-region-again",
                (Op::Q(a, s0, _), Op::Q(b, s1, _)) if (a, s0.unwrap_or(1)) < (b, s1.unwrap_or(1)) => "forward",
                (Op::Q(..), Op::Q(..)) => "backward",
                (Op::Q(..), Op::Seq(_)) => "sequential-after-query",
            }
        };
        let symptom = match g {
            None => "missing".to_string(),
            Some(Err(e)) if e.starts_with("PANIC") => "panic".to_string(),
            Some(Err(_)) => "error".to_string(),
            Some(Ok(v)) if v.len() == want.len() => "wrong-bases".to_string(),
            Some(Ok(_)) => "wrong-length".to_string(),
        };
        let trunc = |v: &[u8]| if v.len() > 80 { format!("{}… ({} bytes)", lit(&v[..80]), v.len()) } else { lit(v) };
        return Err(Violation::new(
            format!(
                "op=query-seq reader={} size={} position={} symptom={symptom}",
                KINDS[kind].replace(' ', "_"),
                if doc.plain.len() > 8192 { "above-8KiB" } else { "below-8KiB" },
                rel
            ),
            format!(
                "document {} ({} bytes, records (len,width) = {:?}); reader {}; on ONE reader object: {}",
                doc.label,
                doc.plain.len(),
                doc.naive.iter().map(|n| (n.length, n.line_bases)).collect::<Vec<_>>(),
                KINDS[kind],
                seq.iter().map(|o| describe_op(doc, o)).collect::<Vec<_>>().join("; ")
            ),
            format!("operation {} -> {}", i + 1, trunc(&want)),
            match g {
                Some(Ok(v)) => format!("Ok({})", trunc(v)),
                Some(Err(e)) => format!("Err({e})"),
                None => "nothing".into(),
            },
        ));
    }
    Ok(())
}

/// FASTQ has one path-based entry point: `fastq::fs::index`. Files below and above 8 KiB.
pub fn fastq_path_index(dir: &Path) -> Result<u64, Violation> {
    let mut checked = 0;
    for (k, nrec) in [3usize, 400].into_iter().enumerate() {
        let mut bytes = Vec::new();
        let mut want = Vec::new();
        for i in 0..nrec {
            let name = format!("read{i}");
            let desc = if i % 3 == 0 { format!(" LN:{}", i % 37) } else { String::new() };
            let len = i % 37;
            let seq: Vec<u8> = (0..len).map(|j| base(i, j)).collect();
            let qual: Vec<u8> = (0..len).map(|j| if j == 0 && i % 2 == 0 { b'@' } else if j == 0 { b'+' } else { b'I' }).collect();
            let start = bytes.len() as u64;
            bytes.extend_from_slice(format!("@{name}{desc}\n").as_bytes());
            let so = bytes.len() as u64;
            bytes.extend_from_slice(&seq);
            bytes.extend_from_slice(b"\n+\n");
            let qo = bytes.len() as u64;
            bytes.extend_from_slice(&qual);
            bytes.push(b'\n');
            let _ = start;
            want.push((name, len as u64, so, len as u64, len as u64 + 1, qo));
        }
        let p = dir.join(format!("reads{k}.fq"));
        fs::write(&p, &bytes).unwrap_or_else(|e| vmc::machinery(format!("temporary file: {e}")));
        let got = fastq::fs::index(&p).map(|ix| ix.iter().map(|r| (r.name().to_string(), r.length(), r.sequence_offset(), r.line_bases(), r.line_width(), r.quality_scores_offset())).collect::<Vec<_>>());
        match got {
            Ok(g) if g == want => checked += want.len() as u64,
            other => {
                let first = other.as_ref().ok().and_then(|g| g.iter().zip(&want).position(|(a, b)| a != b));
                return Err(Violation::new(
                    format!("op=path-index entry=fastq::fs::index size={} symptom=differs-from-naive-parse", if bytes.len() > 8192 { "above-8KiB" } else { "below-8KiB" }),
                    format!("fastq::fs::index(path of a {}-record, {}-byte FASTQ file)", nrec, bytes.len()),
                    format!("first difference at record {first:?}: {:?}", first.map(|i| &want[i])),
                    format!("{:?}", other.map(|g| first.map(|i| g[i].clone())).map_err(|e| e.to_string())),
                ));
            }
        }
    }
    Ok(checked)
}
