//! Controlled runtime (scheduler) for the concurrent BGZF components.
