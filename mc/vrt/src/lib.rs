//! vrt: controlled runtime for the concurrent BGZF components (CHESS-style baton scheduler).
//!
//! Controlled threads are real OS threads, but exactly one runs between two scheduling points.
//! A scheduling point is every channel operation, spawn, join, task start and channel-end drop
//! performed through `noodles_bgzf::verif` (the cfg(noodles_verif) shim). Which enabled thread
//! runs next is a choice of the explorer (`vmc::Chooser`), bounded by preemptions or delays.

pub mod poll;

use std::{
    any::Any,
    cell::RefCell,
    future::Future,
    panic::{self, AssertUnwindSafe},
    pin::pin,
    sync::{
        Arc, Condvar, Mutex, MutexGuard,
        atomic::{AtomicBool, Ordering},
    },
    task::{Context, Poll, Wake, Waker},
};

use noodles_bgzf::verif::{self, Runtime, SpawnKind};
use vmc::{
    Chooser, Class,
    explore::{Abort, take_last_panic},
};

#[derive(Clone, Copy, Debug, PartialEq, Eq)]
pub enum CostModel {
    /// Switching away from a still-enabled running thread costs 1; other switches are free.
    Preempt,
    /// Choosing the i-th thread in canonical order costs i (no free branching).
    Delay,
}

#[derive(Clone, Copy, Debug)]
pub struct RtConfig {
    pub pool_size: usize,
    pub cost: CostModel,
    /// Maximum number of scheduling steps per execution (livelock guard).
    pub horizon: usize,
    /// Run every controlled thread on a brand-new OS thread instead of a recycled one, so that
    /// thread-local state of the code under test cannot leak from one execution into the next.
    pub fresh_threads: bool,
    /// Model the pool as `pool_size` long-lived worker threads (as rayon's are): a starting pool
    /// task is placed, as one more choice, on any idle worker (all workers that have not run
    /// anything yet are interchangeable), and runs on that worker's own OS thread, which is created
    /// for this execution only. Needed when the tasks' code keeps per-thread state.
    pub sticky_workers: bool,
}

impl RtConfig {
    pub fn new(pool_size: usize, cost: CostModel) -> Self {
        Self {
            pool_size,
            cost,
            horizon: 20_000,
            fresh_threads: false,
            sticky_workers: false,
        }
    }
}

#[derive(Clone, Copy)]
struct ReadyPtr(*const (dyn Fn() -> bool + 'static));
unsafe impl Send for ReadyPtr {}

enum St {
    Start,
    Running,
    AtPoint { label: &'static str, ready: ReadyPtr },
    Finished,
}

struct Th {
    st: St,
    kind: SpawnKind,
    cv: Arc<Condvar>,
}

struct State {
    threads: Vec<Th>,
    current: Option<usize>,
    running_pool: usize,
    steps: usize,
    done: bool,
    aborted: bool,
    deadlock: Option<String>,
    horizon_hit: bool,
    thread_panics: Vec<String>,
    handles: Vec<OsDone>,
    spawned: [usize; 3],
    trace: Vec<(usize, &'static str)>,
    /// sticky-worker mode: job of each not yet started pool task, indexed by thread id
    pending: Vec<Option<(Job, OsDone)>>,
    /// sticky-worker mode: one dedicated, brand-new OS thread per pool worker slot
    workers: Vec<Worker>,
    /// sticky-worker mode: worker slot each started pool task runs on
    task_worker: Vec<Option<usize>>,
}

struct Worker {
    tx: std::sync::mpsc::Sender<(Job, OsDone)>,
    busy: bool,
}

pub struct Sched {
    m: Mutex<State>,
    main_cv: Condvar,
    ch: Chooser,
    cfg: RtConfig,
    me: std::sync::Weak<Sched>,
    /// Finished flags live outside `m` so that `ready` predicates can read them while the
    /// scheduling thread holds the state lock.
    fin: Mutex<Vec<bool>>,
}

thread_local! {
    static MY: RefCell<Option<(Arc<Sched>, usize)>> = const { RefCell::new(None) };
}

/// What happened in one controlled execution besides the body's own result.
#[derive(Debug, Default, Clone)]
pub struct RunInfo {
    pub deadlock: Option<String>,
    pub horizon_hit: bool,
    /// Panics that happened inside controlled threads other than the main one.
    pub thread_panics: Vec<String>,
    pub steps: usize,
    pub threads: usize,
    pub spawned_threads: usize,
    pub spawned_pool_tasks: usize,
    pub spawned_blocking: usize,
    /// Sequence of (thread id, label) in execution order (the schedule).
    pub schedule: Vec<(usize, &'static str)>,
}

impl RunInfo {
    pub fn schedule_string(&self) -> String {
        let mut s = String::new();
        for (i, (t, l)) in self.schedule.iter().enumerate() {
            if i > 0 {
                s.push(' ');
            }
            s.push_str(&format!("T{t}:{l}"));
        }
        s
    }
}

impl Sched {
    fn lock(&self) -> MutexGuard<'_, State> {
        self.m.lock().unwrap_or_else(|e| e.into_inner())
    }

    fn addr(&self) -> usize {
        self as *const _ as usize
    }

    fn my_id(&self) -> Option<usize> {
        MY.try_with(|m| {
            m.borrow()
                .as_ref()
                .and_then(|(s, id)| if s.addr() == self.addr() { Some(*id) } else { None })
        })
        .ok()
        .flatten()
    }

    fn abort(&self, st: &mut State) {
        st.aborted = true;
        for t in &st.threads {
            t.cv.notify_all();
        }
        self.main_cv.notify_all();
    }

    /// Picks the next thread to run. `me` is the calling thread if it is still a candidate.
    fn schedule_next(&self, st: &mut State, me: Option<usize>) {
        let mut enabled: Vec<usize> = Vec::new();
        for (i, t) in st.threads.iter().enumerate() {
            let ok = match &t.st {
                St::Start => t.kind != SpawnKind::PoolTask || st.running_pool < self.cfg.pool_size,
                St::AtPoint { ready, .. } => unsafe { (*ready.0)() },
                St::Running | St::Finished => false,
            };
            if ok {
                enabled.push(i);
            }
        }
        let me_enabled = match me {
            Some(m) => {
                if let Some(p) = enabled.iter().position(|&x| x == m) {
                    enabled.remove(p);
                    enabled.insert(0, m);
                    true
                } else {
                    false
                }
            }
            None => false,
        };
        if enabled.is_empty() {
            if st.threads.iter().all(|t| matches!(t.st, St::Finished)) {
                st.done = true;
                st.current = None;
                self.main_cv.notify_all();
            } else {
                let mut d = String::new();
                for (i, t) in st.threads.iter().enumerate() {
                    let s = match &t.st {
                        St::Start => "not-started".to_string(),
                        St::Running => "running".to_string(),
                        St::AtPoint { label, .. } => format!("blocked@{label}"),
                        St::Finished => continue,
                    };
                    d.push_str(&format!("T{i}({:?}):{s} ", t.kind));
                }
                st.deadlock = Some(d.trim_end().to_string());
                self.abort(st);
            }
            return;
        }
        st.steps += 1;
        if st.steps > self.cfg.horizon {
            st.horizon_hit = true;
            self.abort(st);
            return;
        }
        let i = if enabled.len() == 1 {
            0
        } else {
            let class = match self.cfg.cost {
                CostModel::Preempt => Class::Preempt,
                CostModel::Delay => Class::Delay,
            };
            self.ch
                .choose_full("sched", enabled.len(), class, me_enabled)
        };
        let next = enabled[i];
        let label = match &st.threads[next].st {
            St::AtPoint { label, .. } => *label,
            St::Start => "start",
            _ => "?",
        };
        st.trace.push((next, label));
        if matches!(st.threads[next].st, St::Start)
            && st.threads[next].kind == SpawnKind::PoolTask
        {
            st.running_pool += 1;
            if self.cfg.sticky_workers {
                let mut cands: Vec<usize> = (0..st.workers.len()).filter(|&w| !st.workers[w].busy).collect();
                let fresh = st.workers.len() < self.cfg.pool_size;
                let n = cands.len() + usize::from(fresh);
                assert!(n >= 1, "pool task started without an idle worker");
                let k = if n == 1 { 0 } else { self.ch.free("worker", n) };
                let w = if k < cands.len() {
                    cands.swap_remove(k)
                } else {
                    st.workers.push(Worker { tx: spawn_worker_os(), busy: false });
                    st.workers.len() - 1
                };
                st.workers[w].busy = true;
                if st.task_worker.len() <= next {
                    st.task_worker.resize(next + 1, None);
                }
                st.task_worker[next] = Some(w);
                st.trace.push((w, "on-worker"));
                let job = st.pending[next].take().expect("pool task without a pending job");
                st.workers[w].tx.send(job).ok().expect("worker thread gone");
            }
        }
        st.current = Some(next);
        st.threads[next].cv.notify_all();
    }

    fn bail(&self, guard: MutexGuard<'_, State>) {
        drop(guard);
        if !std::thread::panicking() {
            panic::panic_any(Abort);
        }
    }
}

impl Runtime for Sched {
    fn point(&self, label: &'static str, ready: &dyn Fn() -> bool) {
        let Some(me) = self.my_id() else {
            return;
        };
        let mut st = self.lock();
        if st.done {
            return;
        }
        if st.aborted {
            return self.bail(st);
        }
        // SAFETY: the closure outlives this call, and it is only evaluated while this thread is
        // parked inside this call.
        let ready: ReadyPtr = ReadyPtr(unsafe {
            std::mem::transmute::<*const (dyn Fn() -> bool + '_), *const (dyn Fn() -> bool + 'static)>(
                ready as *const _,
            )
        });
        st.threads[me].st = St::AtPoint { label, ready };
        self.schedule_next(&mut st, Some(me));
        let cv = st.threads[me].cv.clone();
        while st.current != Some(me) && !st.aborted {
            st = cv.wait(st).unwrap_or_else(|e| e.into_inner());
        }
        if st.aborted {
            st.threads[me].st = St::Running;
            return self.bail(st);
        }
        st.threads[me].st = St::Running;
    }

    fn spawn(&self, kind: SpawnKind, f: Box<dyn FnOnce() + Send + 'static>) -> usize {
        let sched = self.me.upgrade().expect("scheduler gone");
        let id;
        {
            let mut st = self.lock();
            id = st.threads.len();
            st.threads.push(Th {
                st: St::Start,
                kind,
                cv: Arc::new(Condvar::new()),
            });
            st.spawned[match kind {
                SpawnKind::Thread => 0,
                SpawnKind::PoolTask => 1,
                SpawnKind::Blocking => 2,
            }] += 1;
            let s2 = sched.clone();
            let job: Job = Box::new(move || s2.thread_main(id, kind, f));
            let h = if kind == SpawnKind::PoolTask && self.cfg.sticky_workers {
                let done = OsDone(Arc::new((Mutex::new(false), Condvar::new())));
                if st.pending.len() <= id {
                    st.pending.resize_with(id + 1, || None);
                }
                st.pending[id] = Some((job, OsDone(done.0.clone())));
                done
            } else if self.cfg.fresh_threads {
                spawn_os_fresh(job)
            } else {
                spawn_os(job)
            };
            st.handles.push(h);
        }
        self.point("spawn", &|| true);
        id
    }

    fn is_finished(&self, id: usize) -> bool {
        self.finished_flag(id)
    }

    fn pool_size(&self) -> usize {
        self.cfg.pool_size
    }
}

impl Sched {
    fn finished_flag(&self, id: usize) -> bool {
        let g = self.fin.lock().unwrap_or_else(|e| e.into_inner());
        g.get(id).copied().unwrap_or(false)
    }

    fn set_finished(&self, id: usize) {
        let mut g = self.fin.lock().unwrap_or_else(|e| e.into_inner());
        if g.len() <= id {
            g.resize(id + 1, false);
        }
        g[id] = true;
    }

    fn thread_main(self: Arc<Self>, id: usize, kind: SpawnKind, f: Box<dyn FnOnce() + Send>) {
        vmc::explore::install_panic_hook();
        verif::install(Some(self.clone() as Arc<dyn Runtime>));
        MY.with(|m| *m.borrow_mut() = Some((self.clone(), id)));
        let run = {
            let mut st = self.lock();
            let cv = st.threads[id].cv.clone();
            while st.current != Some(id) && !st.aborted {
                st = cv.wait(st).unwrap_or_else(|e| e.into_inner());
            }
            if st.aborted {
                false
            } else {
                st.threads[id].st = St::Running;
                true
            }
        };
        let _ = take_last_panic();
        let mut panic_msg = None;
        if run {
            let r = panic::catch_unwind(AssertUnwindSafe(f));
            if let Err(p) = r {
                if p.downcast_ref::<Abort>().is_none() {
                    panic_msg = Some(take_last_panic().unwrap_or_else(|| payload_msg(&p)));
                }
            } else if let Some(m) = take_last_panic() {
                // a panic happened on this thread and was caught by the subject's own wrapper
                panic_msg = Some(m);
            }
        } else {
            // dropping the closure may run channel-end drops; they return immediately when aborted
            let r = panic::catch_unwind(AssertUnwindSafe(move || drop(f)));
            let _ = r;
        }
        let mut st = self.lock();
        if let Some(m) = panic_msg {
            st.thread_panics.push(format!("T{id}({kind:?}): {m}"));
        }
        if run && kind == SpawnKind::PoolTask {
            st.running_pool -= 1;
            if let Some(Some(w)) = st.task_worker.get(id).copied() {
                st.workers[w].busy = false;
            }
        }
        st.threads[id].st = St::Finished;
        self.set_finished(id);
        if !st.aborted {
            self.schedule_next(&mut st, None);
        }
        drop(st);
        verif::install(None);
        MY.with(|m| *m.borrow_mut() = None);
    }
}

// OS threads are recycled across executions: creating and destroying ~5 threads per execution on 16
// explorer workers is dominated by mmap/munmap contention otherwise.
type Job = Box<dyn FnOnce() + Send + 'static>;

struct OsDone(Arc<(Mutex<bool>, Condvar)>);

impl OsDone {
    fn wait(&self) {
        let (m, cv) = &*self.0;
        let mut g = m.lock().unwrap_or_else(|e| e.into_inner());
        while !*g {
            g = cv.wait(g).unwrap_or_else(|e| e.into_inner());
        }
    }
}

static IDLE: Mutex<Vec<std::sync::mpsc::Sender<(Job, OsDone)>>> = Mutex::new(Vec::new());

fn spawn_os(job: Job) -> OsDone {
    let done = OsDone(Arc::new((Mutex::new(false), Condvar::new())));
    let d2 = OsDone(done.0.clone());
    let mut msg = Some((job, d2));
    loop {
        let tx = IDLE.lock().unwrap_or_else(|e| e.into_inner()).pop();
        match tx {
            Some(tx) => match tx.send(msg.take().unwrap()) {
                Ok(()) => return done,
                Err(e) => msg = Some(e.0),
            },
            None => break,
        }
    }
    let (tx, rx) = std::sync::mpsc::channel::<(Job, OsDone)>();
    tx.send(msg.take().unwrap()).unwrap();
    std::thread::Builder::new()
        .name("vrt-os".into())
        .stack_size(1 << 20)
        .spawn(move || {
            while let Ok((job, done)) = rx.recv() {
                let _ = panic::catch_unwind(AssertUnwindSafe(job));
                // make this thread available again before signalling completion
                IDLE.lock().unwrap_or_else(|e| e.into_inner()).push(tx.clone());
                let (m, cv) = &*done.0;
                *m.lock().unwrap_or_else(|e| e.into_inner()) = true;
                cv.notify_all();
            }
        })
        .expect("spawn OS thread");
    done
}

fn signal_done(done: &OsDone) {
    let (m, cv) = &*done.0;
    *m.lock().unwrap_or_else(|e| e.into_inner()) = true;
    cv.notify_all();
}

/// A brand-new OS thread for one job (no recycling: thread-local state starts empty).
fn spawn_os_fresh(job: Job) -> OsDone {
    let done = OsDone(Arc::new((Mutex::new(false), Condvar::new())));
    let d2 = OsDone(done.0.clone());
    std::thread::Builder::new()
        .name("vrt-fresh".into())
        .stack_size(1 << 20)
        .spawn(move || {
            let _ = panic::catch_unwind(AssertUnwindSafe(job));
            signal_done(&d2);
        })
        .expect("spawn OS thread");
    done
}

/// A brand-new OS thread that runs the jobs sent to it, in order, until the sender is dropped.
fn spawn_worker_os() -> std::sync::mpsc::Sender<(Job, OsDone)> {
    let (tx, rx) = std::sync::mpsc::channel::<(Job, OsDone)>();
    std::thread::Builder::new()
        .name("vrt-worker".into())
        .stack_size(1 << 20)
        .spawn(move || {
            while let Ok((job, done)) = rx.recv() {
                let _ = panic::catch_unwind(AssertUnwindSafe(job));
                signal_done(&done);
            }
        })
        .expect("spawn OS thread");
    tx
}

fn payload_msg(p: &Box<dyn Any + Send>) -> String {
    if let Some(s) = p.downcast_ref::<&str>() {
        s.to_string()
    } else if let Some(s) = p.downcast_ref::<String>() {
        s.clone()
    } else {
        "<non-string panic>".into()
    }
}

/// Runs `body` as controlled thread 0 under a fresh scheduler. Returns the body's value (None if it
/// was unwound by an aborted execution) and what the scheduler saw. A real panic of the body is
/// re-raised after all controlled threads were wound down.
pub fn run<T>(ch: &Chooser, cfg: RtConfig, body: impl FnOnce() -> T) -> (Option<T>, RunInfo) {
    let sched = Arc::new_cyclic(|me| Sched {
        m: Mutex::new(State {
            threads: vec![Th {
                st: St::Running,
                kind: SpawnKind::Thread,
                cv: Arc::new(Condvar::new()),
            }],
            current: Some(0),
            running_pool: 0,
            steps: 0,
            done: false,
            aborted: false,
            deadlock: None,
            horizon_hit: false,
            thread_panics: Vec::new(),
            handles: Vec::new(),
            spawned: [0; 3],
            trace: Vec::new(),
            pending: Vec::new(),
            workers: Vec::new(),
            task_worker: Vec::new(),
        }),
        main_cv: Condvar::new(),
        ch: ch.clone(),
        cfg,
        me: me.clone(),
        fin: Mutex::new(Vec::new()),
    });
    let prev = MY.with(|m| m.borrow_mut().replace((sched.clone(), 0)));
    verif::install(Some(sched.clone() as Arc<dyn Runtime>));

    let r = panic::catch_unwind(AssertUnwindSafe(body));

    let mut real_panic: Option<Box<dyn Any + Send>> = None;
    let value = match r {
        Ok(v) => Some(v),
        Err(p) => {
            if p.downcast_ref::<Abort>().is_none() {
                real_panic = Some(p);
            }
            None
        }
    };

    // thread 0 is finished; let the others run to completion
    let handles = {
        let mut st = sched.lock();
        st.threads[0].st = St::Finished;
        sched.set_finished(0);
        if !st.aborted && !st.done {
            sched.schedule_next(&mut st, None);
        }
        while !st.done && !st.aborted {
            st = sched.main_cv.wait(st).unwrap_or_else(|e| e.into_inner());
        }
        // pool tasks that were never started (aborted execution): drop their closures on a scratch thread
        let pending: Vec<(Job, OsDone)> = st.pending.iter_mut().filter_map(|p| p.take()).collect();
        for (job, done) in pending {
            assert!(st.aborted, "pool task never started in a completed execution");
            let h = spawn_os(Box::new(move || {
                job();
                signal_done(&done);
            }));
            st.handles.push(h);
        }
        std::mem::take(&mut st.handles)
    };
    verif::install(None);
    MY.with(|m| *m.borrow_mut() = prev);
    for h in handles {
        h.wait();
    }
    // threads spawned during wind-down
    loop {
        let more = std::mem::take(&mut sched.lock().handles);
        if more.is_empty() {
            break;
        }
        for h in more {
            h.wait();
        }
    }
    let st = sched.lock();
    let info = RunInfo {
        deadlock: st.deadlock.clone(),
        horizon_hit: st.horizon_hit,
        thread_panics: st.thread_panics.clone(),
        steps: st.steps,
        threads: st.threads.len(),
        spawned_threads: st.spawned[0],
        spawned_pool_tasks: st.spawned[1],
        spawned_blocking: st.spawned[2],
        schedule: st.trace.clone(),
    };
    drop(st);
    if let Some(p) = real_panic {
        panic::resume_unwind(p);
    }
    (value, info)
}

struct FlagWaker(AtomicBool);

impl Wake for FlagWaker {
    fn wake(self: Arc<Self>) {
        self.0.store(true, Ordering::SeqCst);
    }
    fn wake_by_ref(self: &Arc<Self>) {
        self.0.store(true, Ordering::SeqCst);
    }
}

/// Deterministic single-future executor. Must be called on a controlled thread (inside [`run`]).
/// `Pending` with no wake-up ever arriving and no runnable thread is reported by the scheduler as
/// a deadlock (lost wake-up).
pub fn block_on<F: Future>(fut: F) -> F::Output {
    let flag = Arc::new(FlagWaker(AtomicBool::new(false)));
    let waker = Waker::from(flag.clone());
    let mut cx = Context::from_waker(&waker);
    let mut fut = pin!(fut);
    let rt = current_runtime();
    loop {
        flag.0.store(false, Ordering::SeqCst);
        match fut.as_mut().poll(&mut cx) {
            Poll::Ready(v) => return v,
            Poll::Pending => {
                let f2 = flag.clone();
                match &rt {
                    Some(rt) => rt.point("exec.park", &move || f2.0.load(Ordering::SeqCst)),
                    None => {
                        if !flag.0.load(Ordering::SeqCst) {
                            std::thread::yield_now();
                        }
                    }
                }
            }
        }
    }
}

fn current_runtime() -> Option<Arc<dyn Runtime>> {
    MY.try_with(|m| m.borrow().as_ref().map(|(s, _)| s.clone() as Arc<dyn Runtime>))
        .ok()
        .flatten()
}

/// A scheduling point on the calling controlled thread (no-op outside a controlled execution).
pub fn yield_point(label: &'static str, ready: &dyn Fn() -> bool) {
    if let Some(rt) = current_runtime() {
        rt.point(label, ready);
    }
}
