//! Poll-level adversaries: tokio `AsyncRead`/`AsyncBufRead`/`AsyncSeek` sources and `AsyncWrite`
//! sinks whose transfer sizes and `Pending` answers are decided by the explorer.

use std::{
    io::{self, SeekFrom},
    pin::Pin,
    sync::{Arc, Mutex},
    task::{Context, Poll},
};

use tokio::io::{AsyncBufRead, AsyncRead, AsyncSeek, AsyncWrite, ReadBuf};
use vmc::Chooser;

#[derive(Clone, Debug)]
pub enum PollMode {
    /// Always ready, full transfers.
    Ready,
    /// Ask the chooser at every poll (deviation class).
    Choose,
    /// One byte per poll.
    OneByte,
    /// `Pending` (with immediate self-wake) before every successful poll.
    PendingEvery,
    /// 1 byte, Pending, 2, 3, 7 bytes …
    Irregular,
}

#[derive(Clone, Copy, Debug, PartialEq, Eq)]
enum Act {
    Take(usize),
    Pending,
}

pub struct PollReader {
    data: Arc<Vec<u8>>,
    pos: usize,
    window_end: usize,
    ch: Option<Chooser>,
    mode: PollMode,
    polls: u64,
    last_pending: bool,
    seek_to: Option<usize>,
    /// What was delivered (0 = Pending); shared with the harness.
    pub log: Arc<Mutex<Vec<usize>>>,
}

impl PollReader {
    pub fn new(data: Arc<Vec<u8>>, mode: PollMode, ch: Option<Chooser>) -> Self {
        Self {
            data,
            pos: 0,
            window_end: 0,
            ch,
            mode,
            polls: 0,
            last_pending: false,
            seek_to: None,
            log: Arc::new(Mutex::new(Vec::new())),
        }
    }

    fn decide(&mut self, label: &'static str, n: usize) -> Act {
        let k = self.polls;
        self.polls += 1;
        let act = match &self.mode {
            PollMode::Ready => Act::Take(n),
            PollMode::OneByte => Act::Take(1),
            PollMode::PendingEvery => {
                if self.last_pending {
                    Act::Take(n)
                } else {
                    Act::Pending
                }
            }
            PollMode::Irregular => match k % 5 {
                0 => Act::Take(1),
                1 => {
                    if self.last_pending {
                        Act::Take(n)
                    } else {
                        Act::Pending
                    }
                }
                2 => Act::Take(2.min(n)),
                3 => Act::Take(3.min(n)),
                _ => Act::Take(7.min(n)),
            },
            PollMode::Choose => {
                let mut menu = vec![Act::Take(n)];
                if n > 1 {
                    menu.push(Act::Take(1));
                }
                if n > 3 {
                    menu.push(Act::Take(n / 2));
                }
                if !self.last_pending {
                    menu.push(Act::Pending);
                }
                let ch = self.ch.as_ref().expect("chooser");
                menu[ch.dev(label, menu.len())]
            }
        };
        self.last_pending = act == Act::Pending;
        self.log.lock().unwrap().push(match act {
            Act::Take(k) => k,
            Act::Pending => 0,
        });
        act
    }
}

impl AsyncRead for PollReader {
    fn poll_read(mut self: Pin<&mut Self>, cx: &mut Context<'_>, buf: &mut ReadBuf<'_>) -> Poll<io::Result<()>> {
        let avail = self.data.len().saturating_sub(self.pos);
        let n = avail.min(buf.remaining());
        if n == 0 {
            return Poll::Ready(Ok(()));
        }
        match self.decide("env.poll_read", n) {
            Act::Pending => {
                cx.waker().wake_by_ref();
                Poll::Pending
            }
            Act::Take(k) => {
                let p = self.pos;
                buf.put_slice(&self.data[p..p + k]);
                self.pos += k;
                self.window_end = self.window_end.max(self.pos);
                Poll::Ready(Ok(()))
            }
        }
    }
}

impl AsyncBufRead for PollReader {
    fn poll_fill_buf(mut self: Pin<&mut Self>, cx: &mut Context<'_>) -> Poll<io::Result<&[u8]>> {
        if self.pos >= self.window_end {
            let n = self.data.len().saturating_sub(self.pos);
            if n > 0 {
                match self.decide("env.poll_fill_buf", n) {
                    Act::Pending => {
                        cx.waker().wake_by_ref();
                        return Poll::Pending;
                    }
                    Act::Take(k) => self.window_end = self.pos + k,
                }
            }
        }
        let this = self.get_mut();
        let end = this.window_end.max(this.pos).min(this.data.len());
        Poll::Ready(Ok(&this.data[this.pos.min(end)..end]))
    }

    fn consume(mut self: Pin<&mut Self>, amt: usize) {
        self.pos = (self.pos + amt).min(self.window_end.max(self.pos));
    }
}

impl AsyncSeek for PollReader {
    fn start_seek(mut self: Pin<&mut Self>, position: SeekFrom) -> io::Result<()> {
        let new = match position {
            SeekFrom::Start(n) => n as i128,
            SeekFrom::End(d) => self.data.len() as i128 + d as i128,
            SeekFrom::Current(d) => self.pos as i128 + d as i128,
        };
        if new < 0 {
            return Err(io::Error::new(io::ErrorKind::InvalidInput, "seek before start"));
        }
        self.seek_to = Some(new as usize);
        Ok(())
    }

    fn poll_complete(mut self: Pin<&mut Self>, cx: &mut Context<'_>) -> Poll<io::Result<u64>> {
        if let Some(t) = self.seek_to {
            let pending = match &self.mode {
                PollMode::Choose => {
                    if self.last_pending {
                        false
                    } else {
                        let ch = self.ch.as_ref().expect("chooser");
                        ch.dev("env.poll_seek", 2) == 1
                    }
                }
                PollMode::PendingEvery | PollMode::Irregular => !self.last_pending,
                _ => false,
            };
            if pending {
                self.last_pending = true;
                cx.waker().wake_by_ref();
                return Poll::Pending;
            }
            self.last_pending = false;
            self.seek_to = None;
            self.pos = t;
            self.window_end = t;
        } else {
            // no seek in progress: a source may still have an earlier operation in flight (tokio's
            // File answers Pending here until it is idle), so this poll may pend once as well
            let pending = match &self.mode {
                PollMode::Choose => {
                    if self.last_pending {
                        false
                    } else {
                        let ch = self.ch.as_ref().expect("chooser");
                        ch.dev("env.poll_complete_idle", 2) == 1
                    }
                }
                PollMode::PendingEvery | PollMode::Irregular => !self.last_pending,
                _ => false,
            };
            if pending {
                self.last_pending = true;
                cx.waker().wake_by_ref();
                return Poll::Pending;
            }
            self.last_pending = false;
        }
        Poll::Ready(Ok(self.pos as u64))
    }
}

#[derive(Default, Debug)]
pub struct PollSinkState {
    pub bytes: Vec<u8>,
    pub polls: u64,
    pub shutdowns: u64,
    pub flushes: u64,
    pub writes_after_shutdown: u64,
}

/// An `AsyncWrite` sink with controlled partial writes and `Pending`.
///
/// Fairness (so that a callee which restarts a multi-step sequence on every poll — e.g. flush, then
/// shutdown, then write — still makes progress, as it does on any real sink): an operation kind that
/// just answered `Pending` answers `Ready` at its next poll; `poll_flush` may be `Pending` only if bytes
/// were accepted since the last completed flush; `poll_shutdown` is `Pending` at most once.
#[derive(Clone)]
pub struct PollWriter {
    pub state: Arc<Mutex<PollSinkState>>,
    ch: Option<Chooser>,
    mode: PollMode,
    lp: [bool; 3],
    dirty: bool,
    shutdown_pended: bool,
}

const K_WRITE: usize = 0;
const K_FLUSH: usize = 1;
const K_SHUTDOWN: usize = 2;

impl PollWriter {
    pub fn new(mode: PollMode, ch: Option<Chooser>) -> Self {
        Self {
            state: Arc::new(Mutex::new(PollSinkState::default())),
            ch,
            mode,
            lp: [false; 3],
            dirty: false,
            shutdown_pended: false,
        }
    }

    pub fn bytes(&self) -> Vec<u8> {
        self.state.lock().unwrap().bytes.clone()
    }

    fn decide(&mut self, kind: usize, label: &'static str, n: usize) -> Act {
        let k = {
            let mut st = self.state.lock().unwrap();
            st.polls += 1;
            st.polls - 1
        };
        let may_pend = !self.lp[kind]
            && match kind {
                K_FLUSH => self.dirty,
                K_SHUTDOWN => !self.shutdown_pended,
                _ => true,
            };
        let act = match &self.mode {
            PollMode::Ready => Act::Take(n),
            PollMode::OneByte => Act::Take(1.min(n)),
            PollMode::PendingEvery => {
                if may_pend {
                    Act::Pending
                } else {
                    Act::Take(n)
                }
            }
            PollMode::Irregular => match k % 4 {
                0 => Act::Take(1.min(n)),
                1 => {
                    if may_pend {
                        Act::Pending
                    } else {
                        Act::Take(n)
                    }
                }
                2 => Act::Take((n / 2).max(1).min(n)),
                _ => Act::Take(n),
            },
            PollMode::Choose => {
                let mut menu = vec![Act::Take(n)];
                if n > 1 {
                    menu.push(Act::Take(1));
                }
                if n > 3 {
                    menu.push(Act::Take(n / 2));
                }
                if may_pend {
                    menu.push(Act::Pending);
                }
                if menu.len() == 1 {
                    menu[0]
                } else {
                    let ch = self.ch.as_ref().expect("chooser");
                    menu[ch.dev(label, menu.len())]
                }
            }
        };
        self.lp[kind] = act == Act::Pending;
        if kind == K_SHUTDOWN && act == Act::Pending {
            self.shutdown_pended = true;
        }
        act
    }
}

impl AsyncWrite for PollWriter {
    fn poll_write(mut self: Pin<&mut Self>, cx: &mut Context<'_>, buf: &[u8]) -> Poll<io::Result<usize>> {
        if buf.is_empty() {
            return Poll::Ready(Ok(0));
        }
        match self.decide(K_WRITE, "env.poll_write", buf.len()) {
            Act::Pending => {
                cx.waker().wake_by_ref();
                Poll::Pending
            }
            Act::Take(k) => {
                self.dirty = true;
                let mut st = self.state.lock().unwrap();
                if st.shutdowns > 0 {
                    st.writes_after_shutdown += 1;
                }
                st.bytes.extend_from_slice(&buf[..k]);
                Poll::Ready(Ok(k))
            }
        }
    }

    fn poll_flush(mut self: Pin<&mut Self>, cx: &mut Context<'_>) -> Poll<io::Result<()>> {
        match self.decide(K_FLUSH, "env.poll_flush", 1) {
            Act::Pending => {
                cx.waker().wake_by_ref();
                Poll::Pending
            }
            Act::Take(_) => {
                self.dirty = false;
                self.state.lock().unwrap().flushes += 1;
                Poll::Ready(Ok(()))
            }
        }
    }

    fn poll_shutdown(mut self: Pin<&mut Self>, cx: &mut Context<'_>) -> Poll<io::Result<()>> {
        match self.decide(K_SHUTDOWN, "env.poll_shutdown", 1) {
            Act::Pending => {
                cx.waker().wake_by_ref();
                Poll::Pending
            }
            Act::Take(_) => {
                self.state.lock().unwrap().shutdowns += 1;
                Poll::Ready(Ok(()))
            }
        }
    }
}
