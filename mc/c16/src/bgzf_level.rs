//! Async BGZF reader / writer against the synchronous ones, under every poll schedule and blocking-task
//! completion order within the bound.

use std::{
    io::{self, BufRead, Cursor, Read, Write},
    num::NonZero,
    sync::Arc,
};

use noodles_bgzf as bgzf;
use tokio::io::{AsyncBufReadExt, AsyncReadExt, AsyncWriteExt};
use vmc::{
    Chooser, Outcome, Violation,
    oracle::bgzf::{self as ob, Payload},
};
use vrt::{
    CostModel, RtConfig, RunInfo,
    poll::{PollMode, PollReader, PollWriter},
};

pub fn check_info(info: &RunInfo, describe: &dyn Fn() -> String) -> Outcome {
    if let Some(d) = &info.deadlock {
        let shape: String = d
            .split_whitespace()
            .map(|w| w.split_once("):").map(|x| x.1).unwrap_or(w))
            .collect::<Vec<_>>()
            .join(",");
        let lost_wakeup = d.contains("exec.park");
        return Err(Violation::new(
            format!("outcome={} blocked={shape}", if lost_wakeup { "lost-wakeup" } else { "deadlock" }),
            format!("{} schedule: {}", describe(), info.schedule_string()),
            "the future completes under every schedule",
            d.clone(),
        ));
    }
    if info.horizon_hit {
        return Err(Violation::new("outcome=horizon", describe(), "terminates", format!("{} steps", info.steps)));
    }
    if let Some(p) = info.thread_panics.first() {
        let (msg, loc) = p.rsplit_once(" @ ").unwrap_or((p, ""));
        let file = loc.rsplit_once(':').map(|x| x.0).unwrap_or(loc);
        let file = vmc::explore::norm_file(file);
        let msg = msg.split_once("): ").map(|x| x.1).unwrap_or(msg);
        return Err(Violation::new(
            format!("outcome=thread-panic msg={} file={}", vmc::normalise_msg(msg), file),
            describe(),
            "no panic in any thread",
            p.clone(),
        ));
    }
    Ok(())
}

#[derive(Clone, Copy, Debug, PartialEq)]
pub enum ROp {
    ReadToEnd,
    Read(usize),
    ReadExact(usize),
    FillConsume(usize),
    Seek(usize, usize),
    /// seek by uncompressed offset through a gzi index built by the harness
    SeekIndex(u64),
}

pub fn gzi_of(offs: &[usize], sizes: &[usize]) -> bgzf::gzi::Index {
    let mut v = Vec::new();
    let mut u = 0u64;
    for i in 0..offs.len() {
        if i > 0 {
            v.push((offs[i] as u64, u));
        }
        u += sizes[i] as u64;
    }
    bgzf::gzi::Index::from(v)
}

#[derive(Debug, PartialEq, Clone)]
pub enum RObs {
    Bytes(Vec<u8>, u64),
    Err(io::ErrorKind),
}

pub struct RCase {
    pub sizes: Vec<usize>,
    pub name: String,
    pub bytes: Arc<Vec<u8>>,
    pub offs: Vec<usize>,
    pub script: Vec<ROp>,
    pub expect: Vec<RObs>,
    pub flat: Vec<(u64, u64, u64)>,
    pub total: u64,
}

fn vpos(offs: &[usize], flen: usize, b: usize, o: usize) -> bgzf::VirtualPosition {
    let c = if b < offs.len() { offs[b] } else { flen };
    bgzf::VirtualPosition::try_from((c as u64, o as u16)).unwrap()
}

pub fn make_case(blocks: &[usize], eof: bool, script: Vec<ROp>) -> RCase {
    use bgzf::io::Seek as _;
    let mut payloads = Vec::new();
    let mut off = 0u64;
    for &n in blocks {
        payloads.push(ob::payload(Payload::Text, off, n));
        off += n as u64;
    }
    let (bytes, offs) = ob::make_file(&payloads, eof, 6);
    let mut r = bgzf::io::Reader::new(Cursor::new(bytes.clone()));
    let mut expect = Vec::new();
    for op in &script {
        let o = match *op {
            ROp::ReadToEnd => {
                let mut v = Vec::new();
                match r.read_to_end(&mut v) {
                    Ok(_) => RObs::Bytes(v, u64::from(r.virtual_position())),
                    Err(e) => RObs::Err(e.kind()),
                }
            }
            ROp::Read(n) => {
                let mut v = vec![0; n];
                match r.read(&mut v) {
                    Ok(k) => {
                        v.truncate(k);
                        RObs::Bytes(v, u64::from(r.virtual_position()))
                    }
                    Err(e) => RObs::Err(e.kind()),
                }
            }
            ROp::ReadExact(n) => {
                let mut v = vec![0; n];
                match r.read_exact(&mut v) {
                    Ok(()) => RObs::Bytes(v, u64::from(r.virtual_position())),
                    Err(e) => RObs::Err(e.kind()),
                }
            }
            ROp::FillConsume(n) => match r.fill_buf() {
                Ok(b) => {
                    let k = n.min(b.len());
                    let v = b[..k].to_vec();
                    r.consume(k);
                    RObs::Bytes(v, u64::from(r.virtual_position()))
                }
                Err(e) => RObs::Err(e.kind()),
            },
            ROp::Seek(b, o) => match r.seek_to_virtual_position(vpos(&offs, bytes.len(), b, o)) {
                Ok(_) => RObs::Bytes(Vec::new(), u64::from(r.virtual_position())),
                Err(e) => RObs::Err(e.kind()),
            },
            ROp::SeekIndex(off) => match r.seek_by_uncompressed_position(&gzi_of(&offs, blocks), off) {
                Ok(_) => RObs::Bytes(Vec::new(), u64::from(r.virtual_position())),
                Err(e) => RObs::Err(e.kind()),
            },
        };
        let stop = matches!(o, RObs::Err(_));
        expect.push(o);
        if stop {
            break;
        }
    }
    let mut flat = Vec::new();
    let mut fs = 0u64;
    for (i, &n) in blocks.iter().enumerate() {
        flat.push((offs[i] as u64, fs, n as u64));
        fs += n as u64;
    }
    if eof {
        flat.push(((bytes.len() - 28) as u64, fs, 0));
    }
    RCase {
        sizes: blocks.to_vec(),
        name: format!("blocks={blocks:?} eof={eof}"),
        bytes: Arc::new(bytes),
        offs,
        script,
        expect,
        flat,
        total: fs,
    }
}

fn resolve(case: &RCase, v: u64) -> Option<u64> {
    let c = v >> 16;
    let u = v & 0xffff;
    if c == case.bytes.len() as u64 && u == 0 {
        return Some(case.total);
    }
    for &(co, fs, len) in &case.flat {
        if co == c {
            return if u <= len { Some(fs + u) } else { None };
        }
    }
    None
}

pub fn reader_body(ch: &Chooser, cases: &[RCase], workers: &[usize], modes: &[PollMode], cost: CostModel) -> Outcome {
    let case = ch.pick_free("case", cases);
    let w = *ch.pick_free("workers", workers);
    let mode = ch.pick_free("mode", modes).clone();
    let describe = || format!("async bgzf reader file[{}] script={:?} workers={w} source={mode:?}", case.name, case.script);

    let src = PollReader::new(case.bytes.clone(), mode.clone(), Some(ch.clone()));
    let delivered = src.log.clone();
    let script = case.script.clone();
    let offs = case.offs.clone();
    let flen = case.bytes.len();
    let gzi = gzi_of(&case.offs, &case.sizes);
    let caught = vmc::catch(|| {
        vrt::run(ch, RtConfig::new(w, cost), move || {
            vrt::block_on(async move {
                let mut r = bgzf::r#async::io::reader::Builder::default()
                    .set_worker_count(NonZero::new(w).unwrap())
                    .build_from_reader(src);
                let mut out = Vec::new();
                for op in &script {
                    let o = match *op {
                        ROp::ReadToEnd => {
                            let mut v = Vec::new();
                            match r.read_to_end(&mut v).await {
                                Ok(_) => RObs::Bytes(v, u64::from(r.virtual_position())),
                                Err(e) => RObs::Err(e.kind()),
                            }
                        }
                        ROp::Read(n) => {
                            let mut v = vec![0; n];
                            match r.read(&mut v).await {
                                Ok(k) => {
                                    v.truncate(k);
                                    RObs::Bytes(v, u64::from(r.virtual_position()))
                                }
                                Err(e) => RObs::Err(e.kind()),
                            }
                        }
                        ROp::ReadExact(n) => {
                            let mut v = vec![0; n];
                            match r.read_exact(&mut v).await {
                                Ok(_) => RObs::Bytes(v, u64::from(r.virtual_position())),
                                Err(e) => RObs::Err(e.kind()),
                            }
                        }
                        ROp::FillConsume(n) => match r.fill_buf().await {
                            Ok(b) => {
                                let k = n.min(b.len());
                                let v = b[..k].to_vec();
                                r.consume(k);
                                RObs::Bytes(v, u64::from(r.virtual_position()))
                            }
                            Err(e) => RObs::Err(e.kind()),
                        },
                        ROp::Seek(b, o) => match r.seek(vpos(&offs, flen, b, o)).await {
                            Ok(_) => RObs::Bytes(Vec::new(), u64::from(r.virtual_position())),
                            Err(e) => RObs::Err(e.kind()),
                        },
                        ROp::SeekIndex(off) => match r.seek_by_uncompressed_position(&gzi, off).await {
                            Ok(_) => RObs::Bytes(Vec::new(), u64::from(r.virtual_position())),
                            Err(e) => RObs::Err(e.kind()),
                        },
                    };
                    let stop = matches!(o, RObs::Err(_));
                    out.push(o);
                    if stop {
                        break;
                    }
                }
                out
            })
        })
    });
    let (obs, info) = match caught {
        Ok(x) => x,
        Err((msg, file)) => {
            return Err(Violation::new(
                format!("bgzf-reader outcome=panic msg={} file={}", vmc::normalise_msg(&msg), file),
                describe(),
                "no panic",
                format!("panic: {msg} in {file}"),
            ));
        }
    };
    ch.obs(info.schedule_string());
    ch.obs_hash(&*delivered.lock().unwrap());
    ch.steps(info.steps as u64);
    if info.spawned_blocking >= 2 {
        ch.tag("two-or-more-inflate-tasks");
    }
    check_info(&info, &describe)?;
    let Some(obs) = obs else {
        return Err(Violation::new("outcome=aborted-without-cause", describe(), "completes", "unwound"));
    };
    ch.obs(format!("{obs:?}"));
    for (i, e) in case.expect.iter().enumerate() {
        let opname = format!("{:?}", case.script[i]);
        let opname = opname.split('(').next().unwrap_or("").to_string();
        let Some(o) = obs.get(i) else {
            return Err(Violation::new("bgzf-reader symptom=fewer-observations", describe(), format!("{:?}", case.expect), format!("{obs:?}")));
        };
        match (e, o) {
            (RObs::Bytes(eb, ev), RObs::Bytes(ab, av)) => {
                // read()/fill_buf may legitimately return fewer bytes than the sync reader only if both
                // are non-empty prefixes of the same stream; the statement compares content, so the
                // harness scripts use sizes for which both readers return whole-block remainders.
                if eb != ab {
                    return Err(Violation::new(
                        format!("bgzf-reader op={opname} symptom=bytes-differ-from-sync"),
                        format!("{} schedule: {}", describe(), info.schedule_string()),
                        format!("call {i}: {} bytes {}", eb.len(), vmc::hex(eb)),
                        format!("call {i}: {} bytes {}", ab.len(), vmc::hex(ab)),
                    ));
                }
                if ev != av {
                    let (re, ra) = (resolve(case, *ev), resolve(case, *av));
                    if re.is_none() || re != ra {
                        return Err(Violation::new(
                            format!("bgzf-reader op={opname} symptom=virtual-position-differs"),
                            format!("{} schedule: {}", describe(), info.schedule_string()),
                            format!("call {i}: vpos {}:{} (byte {:?})", ev >> 16, ev & 0xffff, re),
                            format!("call {i}: vpos {}:{} (byte {:?})", av >> 16, av & 0xffff, ra),
                        ));
                    }
                    ch.tag("vpos-equivalent-encoding-differs");
                }
            }
            (RObs::Err(a), RObs::Err(b)) => {
                if a != b {
                    ch.tag("error-kind-differs");
                }
            }
            (e, o) => {
                return Err(Violation::new(
                    format!("bgzf-reader op={opname} symptom=outcome-kind-differs"),
                    format!("{} schedule: {}", describe(), info.schedule_string()),
                    format!("call {i}: {e:?}"),
                    format!("call {i}: {o:?}"),
                ));
            }
        }
    }
    Ok(())
}

#[derive(Clone, Copy, Debug, PartialEq)]
pub enum WOp {
    W(usize),
    F,
}

pub struct WScript {
    pub name: &'static str,
    pub ops: Vec<WOp>,
    pub payload: Vec<u8>,
    pub sync_bytes: Vec<u8>,
}

pub fn make_wscript(name: &'static str, ops: Vec<WOp>, class: Payload) -> WScript {
    let mut w = bgzf::io::Writer::new(Vec::new());
    let mut payload = Vec::new();
    for op in &ops {
        match *op {
            WOp::W(n) => {
                let d = ob::payload(class, payload.len() as u64, n);
                w.write_all(&d).unwrap();
                payload.extend_from_slice(&d);
            }
            WOp::F => w.flush().unwrap(),
        }
    }
    let sync_bytes = w.finish().unwrap();
    WScript { name, ops, payload, sync_bytes }
}

pub fn writer_body(ch: &Chooser, scripts: &[WScript], workers: &[usize], modes: &[PollMode], cost: CostModel) -> Outcome {
    let script = ch.pick_free("script", scripts);
    let w = *ch.pick_free("workers", workers);
    let mode = ch.pick_free("mode", modes).clone();
    let describe = || format!("async bgzf writer script={} ops={:?} workers={w} sink={mode:?}", script.name, script.ops);
    let sink = PollWriter::new(mode.clone(), Some(ch.clone()));
    let sink2 = sink.clone();
    let ops = script.ops.clone();
    let payload = script.payload.clone();
    let caught = vmc::catch(|| {
        vrt::run(ch, RtConfig::new(w, cost), move || {
            vrt::block_on(async move {
                let mut wr = bgzf::r#async::io::writer::Builder::default()
                    .set_worker_count(NonZero::new(w).unwrap())
                    .build_from_writer(sink2);
                let mut off = 0usize;
                let mut results = Vec::new();
                for op in &ops {
                    match *op {
                        WOp::W(n) => {
                            let r = wr.write_all(&payload[off..off + n]).await;
                            off += n;
                            results.push(r.map_err(|e| e.to_string()));
                        }
                        WOp::F => results.push(wr.flush().await.map_err(|e| e.to_string())),
                    }
                }
                results.push(wr.shutdown().await.map_err(|e| e.to_string()));
                results
            })
        })
    });
    let (results, info) = match caught {
        Ok(x) => x,
        Err((msg, file)) => {
            return Err(Violation::new(
                format!("bgzf-writer outcome=panic msg={} file={}", vmc::normalise_msg(&msg), file),
                describe(),
                "no panic",
                format!("panic: {msg} in {file}"),
            ));
        }
    };
    ch.obs(info.schedule_string());
    ch.steps(info.steps as u64);
    if info.spawned_blocking >= 2 {
        ch.tag("two-or-more-deflate-tasks");
    }
    check_info(&info, &describe)?;
    let Some(results) = results else {
        return Err(Violation::new("outcome=aborted-without-cause", describe(), "completes", "unwound"));
    };
    if let Some(Err(e)) = results.iter().find(|r| r.is_err()) {
        return Err(Violation::new("bgzf-writer symptom=unexpected-error", describe(), "all calls Ok", e.clone()));
    }
    let bytes = sink.bytes();
    ch.obs_hash(&bytes);
    let members = match ob::walk(&bytes) {
        Ok(m) => m,
        Err(e) => {
            return Err(Violation::new(
                "bgzf-writer symptom=output-not-wellformed-bgzf",
                format!("{} schedule: {}", describe(), info.schedule_string()),
                "well-formed BGZF",
                e,
            ));
        }
    };
    let decoded: Vec<u8> = members.iter().flat_map(|m| m.data.iter().copied()).collect();
    if decoded != script.payload {
        return Err(Violation::new(
            "bgzf-writer symptom=decoded-differs-from-sync",
            format!("{} schedule: {}", describe(), info.schedule_string()),
            format!("{} bytes as the sync writer's output decodes to", script.payload.len()),
            vmc::diff_bytes(&script.payload, &decoded),
        ));
    }
    // noodles' own sync reader must read it as well
    let mut back = Vec::new();
    if let Err(e) = bgzf::io::Reader::new(&bytes[..]).read_to_end(&mut back) {
        return Err(Violation::new("bgzf-writer symptom=sync-reader-rejects-output", describe(), "Ok", e.to_string()));
    }
    if back != script.payload {
        return Err(Violation::new("bgzf-writer symptom=decoded-differs-from-sync", describe(), "same payload", vmc::diff_bytes(&script.payload, &back)));
    }
    if bytes == script.sync_bytes {
        ch.tag("byte-identical-to-sync-writer");
    }
    let eofs = members.iter().rev().take_while(|m| m.data.is_empty()).count();
    if eofs != 1 {
        ch.tag("eof-marker-count-not-1");
    }
    let st = sink.state.lock().unwrap();
    if st.writes_after_shutdown > 0 {
        ch.tag("write-after-inner-shutdown");
    }
    Ok(())
}
