//! Documents whose headers / index sections are larger than one BGZF block (> 64 KiB uncompressed), built
//! here with the synchronous writers and indexers, plus index files re-blocked so that a BGZF block
//! boundary falls inside every 4-byte count. The small corpus documents fit in one block, so a format
//! reader that takes ONE read of the BGZF layer for a whole section (tabix reference sequence names, a
//! BAM header text, …) is never short-changed on them.

use std::io::{self, Write};

use noodles_bam as bam;
use noodles_bgzf as bgzf;
use noodles_core::Position;
use noodles_cram as cram;
use noodles_csi::{
    self as csi,
    binning_index::{
        ReferenceSequence as _,
        index::{ReferenceSequence, reference_sequence::index::BinnedIndex},
    },
};
use noodles_fasta as fasta;
use noodles_sam::{self as sam, alignment::io::Write as _};
use noodles_tabix as tabix;
use noodles_vcf as vcf;
use vnd::{Doc, Enc, Format, corpus::make_doc};

fn ok<T>(what: &str, r: io::Result<T>) -> T {
    r.unwrap_or_else(|e| vmc::machinery(format!("c16 large documents: {what}: {e}")))
}

/// `sq0`, `sq1`, `sq2` (so that the region scripts apply), then long names: 23 bytes each.
fn contig(i: usize) -> String {
    if i < 3 { format!("sq{i}") } else { format!("contig_{i:05}_abcdefghij") }
}

fn with_temp<T>(bytes: &[u8], f: impl FnOnce(&std::path::Path) -> T) -> T {
    let mut t = ok("tempfile", tempfile::NamedTempFile::new());
    ok("tempfile write", t.write_all(bytes));
    ok("tempfile flush", t.flush());
    f(t.path())
}

fn bgzip(text: &[u8]) -> Vec<u8> {
    let mut w = bgzf::io::Writer::new(Vec::new());
    ok("bgzf write", w.write_all(text));
    ok("bgzf finish", w.finish())
}

/// SAM text: `n_ref` @SQ lines (> 64 KiB of header text for 3000) and one record on each of the first
/// `n_rec` references.
fn sam_text(n_ref: usize, n_rec: usize) -> String {
    let mut s = String::from("@HD\tVN:1.6\tSO:coordinate\n");
    for i in 0..n_ref {
        s.push_str(&format!("@SQ\tSN:{}\tLN:1000\n", contig(i)));
    }
    for i in 0..n_rec {
        s.push_str(&format!("r{i}\t0\t{}\t5\t30\t4M\t*\t0\t0\tACGT\tIIII\n", contig(i)));
    }
    s
}

fn vcf_text(n_contig: usize, n_rec: usize) -> String {
    let mut s = String::from("##fileformat=VCFv4.3\n##FILTER=<ID=PASS,Description=\"All filters passed\">\n");
    for i in 0..n_contig {
        s.push_str(&format!("##contig=<ID={},length=1000>\n", contig(i)));
    }
    s.push_str("#CHROM\tPOS\tID\tREF\tALT\tQUAL\tFILTER\tINFO\n");
    for i in 0..n_rec {
        s.push_str(&format!("{}\t5\t.\tA\tC\t.\tPASS\t.\n", contig(i)));
    }
    s
}

/// The large documents. Index documents carry `index_of` so that the reader cases find them.
pub fn large_docs() -> Vec<Doc> {
    let mut docs = Vec::new();

    // BAM with 3000 @SQ (header text and reference list each > 64 KiB) and its BAI (3000 references)
    let text = sam_text(3000, 3000);
    docs.push(make_doc(Format::Sam, "sam-large-header", "large", text.clone().into_bytes(), false));
    let mut r = sam::io::Reader::new(text.as_bytes());
    let header = ok("sam header", r.read_header());
    let recs = ok("sam records", r.record_bufs(&header).collect::<io::Result<Vec<_>>>());
    let mut w = bam::io::Writer::new(Vec::new());
    ok("bam header", w.write_header(&header));
    for rec in &recs {
        ok("bam record", w.write_alignment_record(&header, rec));
    }
    let bam_bytes = ok("bam finish", w.into_inner().finish());
    let bai = ok("bam::fs::index", with_temp(&bam_bytes, |p| bam::fs::index(p)));
    let bam_doc = make_doc(Format::Bam, "bam-large-header", "large", bam_bytes, false);
    // the same payload in maximal members: 65536 bytes each (noodles never fills a member beyond 65280)
    if let Some(inner) = bam_doc.inner.as_ref() {
        let blocks: Vec<Vec<u8>> = inner.bytes.chunks(65536).map(|c| c.to_vec()).collect();
        docs.push(make_doc(Format::Bam, "bam-large-header-65536-byte-members", "large", vmc::oracle::bgzf::make_file(&blocks, true, 6).0, false));
    }
    docs.push(bam_doc);
    let mut w = bam::bai::io::Writer::new(Vec::new());
    ok("bai write", w.write_index(&bai));
    let mut d = make_doc(Format::Bai, "bai-large", "large", w.into_inner(), false);
    d.index_of = Some("bam-large-header".into());
    docs.push(d);

    // VCF.gz with 4000 contigs (header > 64 KiB), its tabix index (names block > 64 KiB) and the same index
    // as CSI with the tabix header in aux
    let text = vcf_text(4000, 4000);
    docs.push(make_doc(Format::Vcf, "vcf-large-header", "large", text.clone().into_bytes(), false));
    let vcfgz = bgzip(text.as_bytes());
    let tbi = ok("vcf::fs::index", with_temp(&vcfgz, |p| vcf::fs::index(p)));
    {
        let blocks: Vec<Vec<u8>> = text.as_bytes().chunks(65536).map(|c| c.to_vec()).collect();
        docs.push(make_doc(Format::VcfGz, "vcfgz-large-header-65536-byte-members", "large", vmc::oracle::bgzf::make_file(&blocks, true, 6).0, false));
    }
    docs.push(make_doc(Format::VcfGz, "vcfgz-large-header", "large", vcfgz, false));
    let mut w = tabix::io::Writer::new(Vec::new());
    ok("tbi write", w.write_index(&tbi));
    let mut d = make_doc(Format::Tbi, "tbi-large-names", "large", ok("tbi finish", w.into_inner().finish()), false);
    d.index_of = Some("vcfgz-large-header".into());
    docs.push(d);
    {
        use csi::BinningIndex;
        let refs: Vec<ReferenceSequence<BinnedIndex>> = tbi
            .reference_sequences()
            .iter()
            .map(|r| {
                let index: BinnedIndex = r.bins().iter().filter_map(|(id, b)| b.chunks().first().map(|c| (*id, c.start()))).collect();
                ReferenceSequence::new(r.bins().clone(), index, r.metadata().cloned())
            })
            .collect();
        let mut b = csi::Index::builder().set_reference_sequences(refs);
        if let Some(h) = tbi.header() {
            b = b.set_header(h.clone());
        }
        let idx: csi::Index = b.build();
        let mut w = csi::io::Writer::new(Vec::new());
        ok("csi write", w.write_index(&idx));
        docs.push(make_doc(Format::Csi, "csi-large-aux-names", "large", ok("csi finish", w.into_inner().finish()), false));
    }

    // CRAM with three data containers at the default layout (10240 records per container): 10 500 pairs of
    // 10-base reads on sq0. Record counter 20480 and base count 102400 take 3 LTF8 bytes, the external blocks
    // exceed 2^14 bytes (3 ITF8 bytes): no small document has a multi-byte bookkeeping field.
    {
        let mut text = String::from("@HD\tVN:1.6\tSO:unsorted\n@SQ\tSN:sq0\tLN:400\n@SQ\tSN:sq1\tLN:300\n");
        for i in 0..10_500usize {
            let a = 1 + i * 300 / 10_500;
            let b = a + 30;
            text.push_str(&format!("p{i}\t99\tsq0\t{a}\t60\t10M\t=\t{b}\t40\tACGTACGTAC\tIIIIIIIIII\n"));
            text.push_str(&format!("p{i}\t147\tsq0\t{b}\t60\t10M\t=\t{a}\t-40\tTTGGCCAATT\tIIIIIIIIII\n"));
        }
        let mut r = sam::io::Reader::new(text.as_bytes());
        let header = ok("cram-large header", r.read_header());
        let recs = ok("cram-large records", r.record_bufs(&header).collect::<io::Result<Vec<_>>>());
        let mut w = cram::io::writer::Builder::default().set_reference_sequence_repository(vnd::records::repository()).build_from_writer(Vec::new());
        ok("cram-large write header", w.write_header(&header));
        for rec in &recs {
            ok("cram-large write record", w.write_alignment_record(&header, rec));
        }
        ok("cram-large finish", w.try_finish(&header));
        docs.push(make_doc(Format::Cram, "cram-large-3-containers", "large", w.into_inner(), false));
    }

    // crai / fai / gzi with thousands of entries
    let crai: Vec<cram::crai::Record> =
        (0..3000).map(|i| cram::crai::Record::new(Some(i % 3), Position::new(i + 1), 10 + i % 7, 1000 + 50 * i as u64, 100 + (i % 13) as u64, 300)).collect();
    let mut w = cram::crai::io::Writer::new(Vec::new());
    ok("crai write", w.write_index(&crai));
    docs.push(make_doc(Format::Crai, "crai-large", "large", ok("crai finish", w.finish()), false));
    let fai: Vec<fasta::fai::Record> = (0..3000).map(|i| fasta::fai::Record::new(contig(i), 1000 + i as u64, 30 + 1100 * i as u64, std::num::NonZero::new(60).unwrap(), std::num::NonZero::new(61).unwrap())).collect();
    let mut w = fasta::fai::io::Writer::new(Vec::new());
    ok("fai write", w.write_index(&fasta::fai::Index::from(fai)));
    docs.push(make_doc(Format::Fai, "fai-large", "large", w.into_inner(), false));
    let gzi = bgzf::gzi::Index::from((1..=5000u64).map(|i| (i * 20_000, i * 65_280)).collect::<Vec<_>>());
    let mut w = bgzf::gzi::io::Writer::new(Vec::new());
    ok("gzi write", w.write_index(&gzi));
    docs.push(make_doc(Format::Gzi, "gzi-large", "large", w.into_inner(), false));
    docs
}

/// A tabix / CSI document with a BGZF block boundary 2 bytes into each of its (first `max`) 4- and
/// 8-byte integer fields: every count of the header and of the reference sequence sections is delivered
/// in two reads by the BGZF layer.
pub fn reblocked_in_counts(doc: &Doc, max: usize, only_below: Option<usize>) -> Option<Doc> {
    if matches!(doc.format, Format::Bam | Format::Bcf) {
        // the record formats' many-members companion: a member boundary at every field boundary
        return crate::format_level::foreign::split_at_field_boundaries(doc, max);
    }
    if !matches!(doc.format, Format::Tbi | Format::Csi) {
        return None;
    }
    let inner = doc.inner.as_ref()?;
    let payload = &inner.bytes[..];
    let mut cuts: Vec<usize> =
        inner.fields.iter().filter(|f| f.enc == Enc::Le && f.width >= 4 && only_below.map(|m| f.offset < m).unwrap_or(true)).map(|f| f.offset + 2).filter(|&c| c < payload.len()).collect();
    cuts.sort_unstable();
    cuts.dedup();
    cuts.truncate(max);
    if cuts.is_empty() {
        return None;
    }
    let mut w = bgzf::io::Writer::new(Vec::new());
    let mut prev = 0;
    for &c in &cuts {
        ok("bgzf write", w.write_all(&payload[prev..c]));
        ok("bgzf flush", w.flush());
        prev = c;
    }
    ok("bgzf write", w.write_all(&payload[prev..]));
    let bytes = ok("bgzf finish", w.finish());
    Some(make_doc(doc.format, format!("{}-reblocked-in-counts", doc.name), &doc.set, bytes, false))
}
